"""Symbolic execution of the real quantum_gates code by operator overloading (tie "T" of DESIGN.md 2.1).

The module under study is re-executed from its CURRENT source with numeric literals lifted to exact rationals
(ast pass) and with `np` / `scipy` replaced, inside that module only, by shims working on symbolic scalars `E` and
structural matrices `SymMat`.  Anything the symbolic domain does not define raises (fail closed).
Subterms outside the decidable fragment of coq/Sym (sqrt / real exp / division by non-constants, integrals,
non-linear phase arguments) are abstracted into fresh variables with a recorded definition (`Session.defs`)."""
import ast, sys, types, math, cmath, itertools
from fractions import Fraction
import numpy as _np


class TraceError(Exception):
    pass


class Session:
    """per-trace state: decisions, path hypotheses, opaque definitions, samplers, expm records"""
    cur = None

    def __init__(self, script=()):
        self.script = list(script)
        self.log = []          # [(cond_repr, value)]
        self.assumed = []      # path hypotheses (op, lhs, rhs)
        self.defs = {}         # opaque var name -> (kind, args)
        self._defkey = {}
        self.samplers = []     # {"kind","vars","mean","cov"|"std"}
        self.expm = []         # SymMat arguments of expm, in call order
        self.nsample = 0
        self.calls = []        # generic call records (recording stubs)
        Session.cur = self

    def decide(self, cond):
        i = len(self.log)
        val = self.script[i] if i < len(self.script) else False
        self.log.append((cond, val))
        return val

    def opaque(self, kind, *args):
        key = (kind,) + tuple(repr(a) for a in args)
        if key in self._defkey:
            return self._defkey[key]
        name = "o%d_%s" % (len(self.defs), kind)
        v = E("var", name)
        self.defs[name] = (kind, args)
        self._defkey[key] = v
        return v

    def sample(self, prefix="w"):
        self.nsample += 1
        return E("var", "%s%d" % (prefix, self.nsample))


def S():
    if Session.cur is None:
        raise TraceError("no tracing session")
    return Session.cur


class E:
    """symbolic complex scalar"""
    __slots__ = ("op", "args")

    def __init__(self, op, *args):
        self.op = op
        self.args = args

    # ---- construction helpers
    @staticmethod
    def bin(op, a, b):
        if isinstance(a, SymMat) or isinstance(b, SymMat):
            return NotImplemented
        a, b = lift(a), lift(b)
        if a.op == "q" and b.op == "q":
            x, y = a.args[0], b.args[0]
            if op == "div":
                if y == 0:
                    raise TraceError("division of constants by zero")
                return E("q", x / y)
            return E("q", {"add": x + y, "sub": x - y, "mul": x * y}[op])
        if op == "div":
            if b.op == "q":
                if b.args[0] == 0:
                    raise TraceError("division by literal zero")
                return E("div", a, b)
            # division by a non-constant: a * (1/b) with 1/b opaque
            return E("mul", a, S().opaque("inv", b))
        return E(op, a, b)

    def __add__(s, o): return E.bin("add", s, o)
    def __radd__(s, o): return E.bin("add", o, s)
    def __sub__(s, o): return E.bin("sub", s, o)
    def __rsub__(s, o): return E.bin("sub", o, s)
    def __mul__(s, o): return E.bin("mul", s, o)
    def __rmul__(s, o): return E.bin("mul", o, s)
    def __truediv__(s, o): return E.bin("div", s, o)
    def __rtruediv__(s, o): return E.bin("div", o, s)
    def __neg__(s): return E("q", -s.args[0]) if s.op == "q" else E("neg", s)
    def __pos__(s): return s

    def __pow__(s, o):
        o = lift(o)
        if not (o.op == "q" and o.args[0].denominator == 1):
            raise TraceError("non-integer power")
        n = int(o.args[0])
        if s.op == "q":
            return E("q", s.args[0] ** n)
        if n < 0:
            raise TraceError("negative power of a symbol")
        return E("pow", s, n)

    def __rpow__(s, o):
        return lift(o).__pow__(s)

    # numpy object-dtype ufuncs and the shim dispatch to these
    def sin(s): return E("sin", phase_arg(s))
    def cos(s): return E("cos", phase_arg(s))

    def exp(s):
        if s.op == "q" and s.args[0] == 0:
            return E("q", Fraction(1))
        r = split_I(s)
        if r is not None:
            return E("exp", E("mul", E("I"), phase_arg(r)))
        if has_I(s):
            raise TraceError("exp of a mixed real/imaginary argument")
        return S().opaque("expreal", s)

    def sqrt(s):
        if s.op == "q":
            f = s.args[0]
            if f < 0:
                raise TraceError("sqrt of a negative constant")
            rn, rd = math.isqrt(f.numerator), math.isqrt(f.denominator)
            if rn * rn == f.numerator and rd * rd == f.denominator:
                return E("q", Fraction(rn, rd))
            if f in (Fraction(2), Fraction(1, 2)):
                return E("sqrt", s)
        return S().opaque("sqrt", s)

    def conjugate(s): return E("conj", s)
    def conj(s): return E("conj", s)

    def __abs__(s):
        if s.op == "q":
            return E("q", abs(s.args[0]))
        raise TraceError("abs of a symbol")

    def __index__(s):
        if s.op == "q" and s.args[0].denominator == 1:
            return int(s.args[0])
        raise TraceError("symbolic value used as an index")

    def __int__(s): return s.__index__()

    # ---- decisions
    def _cmp(s, o, name, f):
        o = lift(o)
        if s.op == "q" and o.op == "q":
            return f(s.args[0], o.args[0])
        if name == "eq":
            return S().decide(("eq", s, o))
        S().assumed.append((name, s, o))
        return True

    def __eq__(s, o): return s._cmp(o, "eq", lambda a, b: a == b)
    def __ne__(s, o): return not s.__eq__(o)
    def __gt__(s, o): return s._cmp(o, "gt", lambda a, b: a > b)
    def __lt__(s, o): return s._cmp(o, "lt", lambda a, b: a < b)
    def __ge__(s, o): return s._cmp(o, "ge", lambda a, b: a >= b)
    def __le__(s, o): return s._cmp(o, "le", lambda a, b: a <= b)
    def __hash__(s): return id(s)
    def __bool__(s): raise TraceError("symbolic value used as bool")
    def __float__(s):
        if s.op == "q":
            return float(s.args[0])
        raise TraceError("symbolic value forced to float")
    def __complex__(s):
        if s.op == "q":
            return complex(float(s.args[0]))
        raise TraceError("symbolic value forced to complex")

    def __repr__(s):
        if s.op == "var": return s.args[0]
        if s.op == "q": return str(s.args[0])
        if s.op in ("pi", "I"): return s.op
        if s.op == "int": return "Int(%r,%r,%r)" % s.args
        return "(%s %s)" % (s.op, " ".join(map(repr, s.args)))


def lift(x):
    if isinstance(x, E):
        return x
    if isinstance(x, bool):
        raise TraceError("bool used as a number")
    if isinstance(x, (int, _np.integer)):
        return E("q", Fraction(int(x)))
    if isinstance(x, Fraction):
        return E("q", x)
    if isinstance(x, (float, _np.floating)):
        if float(x).is_integer():
            return E("q", Fraction(int(x)))
        raise TraceError("unlifted float %r reached the symbolic domain" % (x,))
    if isinstance(x, complex):
        if x.real == 0 and float(x.imag).is_integer():
            return E.bin("mul", E("I"), lift(int(x.imag))) if x.imag != 1 else E("I")
        raise TraceError("unlifted complex %r" % (x,))
    raise TraceError("cannot lift %r" % (type(x),))


def V(name):
    return E("var", name)


def LIT(x):
    """replacement for numeric literals in the lifted source"""
    if isinstance(x, complex):
        if x.real != 0:
            raise TraceError("complex literal with real part")
        return E("I") if x.imag == 1 else E.bin("mul", E("I"), LIT(x.imag))
    if isinstance(x, float):
        return E("q", Fraction(repr(x)))
    return E("q", Fraction(x))


def has_I(e):
    if e.op == "I":
        return True
    return any(isinstance(a, E) and has_I(a) for a in e.args)


def split_I(e):
    """if e = I * r with r free of I, return r, else None"""
    if e.op == "I":
        return E("q", Fraction(1))
    if e.op == "neg":
        r = split_I(e.args[0])
        return None if r is None else (-r)
    if e.op == "mul":
        a, b = e.args
        ra, rb = split_I(a), split_I(b)
        if ra is not None and not has_I(b):
            return E.bin("mul", ra, b)
        if rb is not None and not has_I(a):
            return E.bin("mul", a, rb)
        return None
    if e.op == "div":
        ra = split_I(e.args[0])
        if ra is not None and not has_I(e.args[1]):
            return E.bin("div", ra, e.args[1])
        return None
    if e.op in ("add", "sub"):
        ra, rb = split_I(e.args[0]), split_I(e.args[1])
        if ra is not None and rb is not None:
            return E.bin(e.op, ra, rb)
    return None


def coef_core(e):
    """e = c * core with c rational; core is None for a pure constant; rational factors are stripped from products"""
    if e.op == "q": return e.args[0], None
    if e.op == "neg":
        c, k = coef_core(e.args[0]); return -c, k
    if e.op == "mul":
        ca, ka = coef_core(e.args[0]); cb, kb = coef_core(e.args[1])
        if ka is None: return ca * cb, kb
        if kb is None: return ca * cb, ka
        return ca * cb, E("mul", ka, kb)
    if e.op == "div" and e.args[1].op == "q":
        c, k = coef_core(e.args[0]); return c / e.args[1].args[0], k
    return Fraction(1), e


def linear_terms(e):
    """decompose a real expression into [(coef Fraction, atom)] with atom in {None (constant), 'pi', var name, E (non-linear)}"""
    if e.op == "q": return [(e.args[0], None)]
    if e.op == "pi": return [(Fraction(1), "pi")]
    if e.op == "var": return [(Fraction(1), e.args[0])]
    if e.op == "neg": return [(-c, a) for c, a in linear_terms(e.args[0])]
    if e.op == "add": return linear_terms(e.args[0]) + linear_terms(e.args[1])
    if e.op == "sub": return linear_terms(e.args[0]) + [(-c, a) for c, a in linear_terms(e.args[1])]
    if e.op in ("mul", "div"):
        c, k = coef_core(e)
        if k is None: return [(c, None)]
        if k.op in ("pi", "var", "add", "sub") and k is not e:
            return [(c * c2, t) for c2, t in linear_terms(k)]
        return [(c, k)]
    return [(Fraction(1), e)]


def phase_arg(e):
    """argument of sin/cos/exp(i.): abstract non-linear summands into opaque variables (kind 'prod')"""
    if has_I(e):
        raise TraceError("complex argument of a trigonometric function")
    terms = linear_terms(e)
    if all(not isinstance(t, E) for _, t in terms):
        return e
    out = None
    for c, t in terms:
        if isinstance(t, E): x = E.bin("mul", E("q", c), S().opaque("prod", t))
        elif t is None: x = E("q", c)
        elif t == "pi": x = E.bin("mul", E("q", c), E("pi"))
        else: x = E.bin("mul", E("q", c), V(t))
        out = x if out is None else E.bin("add", out, x)
    return out


# ------------------------------------------------------------------ matrices
class SymMat:
    """matrix expression: entrywise ops on leaves are eager, products are structural"""

    def __init__(self, op, *args):
        self.op = op
        self.args = args

    @staticmethod
    def leaf(rows):
        rows = [[lift(x) for x in r] for r in rows]
        if len({len(r) for r in rows}) != 1:
            raise TraceError("ragged matrix literal")
        return SymMat("leaf", rows)

    @property
    def shape(s):
        if s.op == "leaf": return (len(s.args[0]), len(s.args[0][0]))
        if s.op == "sym": return s.args[1]
        if s.op == "mmul": return (s.args[0].shape[0], s.args[1].shape[1])
        if s.op == "kron":
            a, b = s.args[0].shape, s.args[1].shape
            return (a[0] * b[0], a[1] * b[1])
        if s.op == "scale": return s.args[1].shape
        if s.op == "madd": return s.args[0].shape
        if s.op == "dag": return tuple(reversed(s.args[0].shape))
        raise TraceError(s.op)

    def __matmul__(s, o):
        if not isinstance(o, SymMat): return NotImplemented
        if s.shape[1] != o.shape[0]: raise TraceError("matmul shape mismatch")
        return SymMat("mmul", s, o)

    def _scale(s, c):
        c = lift(c)
        if s.op == "leaf":
            return SymMat.leaf([[E.bin("mul", c, x) for x in r] for r in s.args[0]])
        return SymMat("scale", c, s)

    def __mul__(s, c):
        if isinstance(c, SymMat): raise TraceError("elementwise matrix product is not modelled")
        return s._scale(c)
    __rmul__ = __mul__

    def __truediv__(s, c): return s._scale(E.bin("div", 1, c))

    def __add__(s, o):
        if not isinstance(o, SymMat): raise TraceError("matrix + non-matrix")
        if s.shape != o.shape: raise TraceError("add shape mismatch")
        if s.op == "leaf" and o.op == "leaf":
            return SymMat.leaf([[E.bin("add", x, y) for x, y in zip(r, q)] for r, q in zip(s.args[0], o.args[0])])
        return SymMat("madd", s, o)
    __radd__ = __add__

    def __sub__(s, o): return s + (-o)
    def __neg__(s): return s._scale(-1)

    def __getitem__(s, ij):
        if s.op != "leaf": raise TraceError("indexing a structural matrix")
        i, j = ij
        return s.args[0][int(i)][int(j)]

    def __repr__(s):
        if s.op == "leaf": return "Leaf%r" % (s.args[0],)
        if s.op == "sym": return "Sym(%s)" % (s.args[0],)
        return "%s(%s)" % (s.op, ", ".join(map(repr, s.args)))


class _Samples:
    def __init__(s, vs): s.vs = vs
    def __getitem__(s, ij):
        i, j = ij
        if int(i) != 0: raise TraceError("sample row index")
        return s.vs[int(j)]


class SymRandom:
    """the only randomness the traced code can reach"""

    def normal(self, mean, std, *a, **k):
        if a or k: raise TraceError("normal() with size")
        v = S().sample()
        S().samplers.append({"kind": "normal", "vars": [v], "mean": [lift(mean)], "std": lift(std)})
        return v

    def multivariate_normal(self, mean, cov, size, *a, **k):
        if int(lift(size).args[0]) != 1 or a or k: raise TraceError("multivariate_normal size != 1")
        mean = mean.args[0][0] if isinstance(mean, SymMat) else list(mean)
        rows = cov.args[0] if isinstance(cov, SymMat) else [list(r) for r in cov]
        vs = [S().sample() for _ in mean]
        S().samplers.append({"kind": "mvn", "vars": vs, "mean": [lift(m) for m in mean], "cov": [[lift(c) for c in r] for r in rows]})
        return _Samples(vs)

    def __getattr__(self, name):
        raise TraceError("random source np.random.%s is not modelled" % name)


class NPshim:
    pi = E("pi")
    random = SymRandom()

    @staticmethod
    def array(x, *a, **k):
        x = list(x)
        if x and isinstance(x[0], (list, tuple)):
            return SymMat.leaf(x)
        return SymMat.leaf([x])  # 1-D literal: one row (used only for mean vectors)

    @staticmethod
    def eye(n, *a, **k):
        n = int(lift(n).args[0])
        return SymMat.leaf([[int(i == j) for j in range(n)] for i in range(n)])
    identity = eye

    @staticmethod
    def kron(a, b):
        if not (isinstance(a, SymMat) and isinstance(b, SymMat)): raise TraceError("kron of non-matrices")
        return SymMat("kron", a, b)

    @staticmethod
    def sin(x): return lift(x).sin()
    @staticmethod
    def cos(x): return lift(x).cos()
    @staticmethod
    def exp(x): return lift(x).exp()
    @staticmethod
    def sqrt(x):
        # sqrt(maximum(x, 0)): the clamp guards a radicand that is >= 0 in exact arithmetic against rounding.  Coq's sqrt is total
        # with sqrt x = 0 for x <= 0, so sqrt(maximum(x, 0)) and sqrt x are the SAME real function: the trace records sqrt x.
        if isinstance(x, Clamped): return lift(x.x).sqrt()
        return lift(x).sqrt()
    @staticmethod
    def maximum(a, b):
        a, b = (a, b) if not (isinstance(a, (int, float, Fraction)) and not isinstance(b, (int, float, Fraction))) else (b, a)
        z = lift(b)
        if not (isinstance(z, E) and z.op == "q" and z.args[0] == 0):
            raise TraceError("numpy.maximum is only understood as a clamp at 0")
        return Clamped(a)
    @staticmethod
    def conj(x): return lift(x).conj()

    def __getattr__(self, name):
        raise TraceError("numpy.%s is not defined on the symbolic domain" % name)


class Clamped:
    """maximum(x, 0): meaningful only as the direct argument of sqrt (anything else raises, so the trace fails closed)"""
    def __init__(self, x): self.x = x
    def _no(self, *a, **k): raise TraceError("maximum(x, 0) used outside sqrt")
    __add__ = __radd__ = __sub__ = __rsub__ = __mul__ = __rmul__ = __truediv__ = __rtruediv__ = __pow__ = __neg__ = __lt__ = __gt__ = __le__ = __ge__ = __float__ = _no


def sym_expm(A):
    if not isinstance(A, SymMat): raise TraceError("expm of a non-matrix")
    k = len(S().expm)
    S().expm.append(A)
    return SymMat("sym", "X%d" % k, A.shape)


class _Linalg:
    expm = staticmethod(sym_expm)


class SCIPYshim:
    linalg = _Linalg()

    def __getattr__(self, name):
        raise TraceError("scipy.%s is not defined on the symbolic domain" % name)


class SymIntegrator:
    """stands for Integrator(pulse): an uninterpreted integral symbol per (key, theta, a)"""
    keys = None

    def __init__(self, pulse=None):
        self.pulse = pulse

    def integrate(self, key, theta, a):
        if SymIntegrator.keys is not None and key not in SymIntegrator.keys:
            raise TraceError("unknown integrand key %r" % (key,))
        return S().opaque("int", key, lift(theta), lift(a))


class _Lift(ast.NodeTransformer):
    def visit_Constant(self, node):
        if isinstance(node.value, (int, float, complex)) and not isinstance(node.value, bool):
            return ast.copy_location(ast.Call(func=ast.Name(id="__LIT__", ctx=ast.Load()), args=[node], keywords=[]), node)
        return node

    def visit_JoinedStr(self, node):   # leave f-strings alone
        return node


def load_lifted(path, modname, package, inject=None):
    """execute the current source of `path` with lifted literals as module `modname`"""
    src = open(path).read()
    tree = _Lift().visit(ast.parse(src))
    ast.fix_missing_locations(tree)
    mod = types.ModuleType(modname)
    mod.__package__ = package
    mod.__file__ = path
    mod.__LIT__ = LIT
    sys.modules[modname] = mod
    exec(compile(tree, path, "exec"), mod.__dict__)
    for k, v in (inject or {}).items():
        setattr(mod, k, v)
    return mod


# ------------------------------------------------------------------ numeric evaluation (validation of the symbolic domain)
def ev(e, env, defs, intf=None):
    """evaluate E numerically: env maps variable names to numbers; defs are the session's opaque definitions"""
    op = e.op
    if op == "q": return float(e.args[0])
    if op == "pi": return math.pi
    if op == "I": return 1j
    if op == "var":
        n = e.args[0]
        if n in env: return env[n]
        if n in defs:
            kind, a = defs[n]
            if kind == "sqrt":
                x = ev(a[0], env, defs, intf)
                if isinstance(x, complex) and x.imag == 0: x = x.real
                # a real radicand that is negative by rounding: 0, as in Coq (sqrt x = 0 for x <= 0) and in the clamped code
                r = 0.0 if (not isinstance(x, complex) and x < 0) else cmath.sqrt(x); r = r.real if abs(r.imag) == 0 else r
            elif kind == "expreal": r = cmath.exp(ev(a[0], env, defs, intf))
            elif kind == "inv": r = 1 / ev(a[0], env, defs, intf)
            elif kind == "prod": r = ev(a[0], env, defs, intf)
            elif kind == "int": r = intf(a[0], ev(a[1], env, defs, intf), ev(a[2], env, defs, intf))
            else: raise TraceError(kind)
            env[n] = r
            return r
        raise TraceError("unbound variable %s" % n)
    a = [ev(x, env, defs, intf) if isinstance(x, E) else x for x in e.args]
    if op == "add": return a[0] + a[1]
    if op == "sub": return a[0] - a[1]
    if op == "mul": return a[0] * a[1]
    if op == "div": return a[0] / a[1]
    if op == "neg": return -a[0]
    if op == "pow": return a[0] ** a[1]
    if op == "sin": return cmath.sin(a[0])
    if op == "cos": return cmath.cos(a[0])
    if op == "exp": return cmath.exp(a[0])
    if op == "sqrt": return cmath.sqrt(a[0])
    if op == "conj": return complex(a[0]).conjugate()
    raise TraceError("ev: " + op)


def evm(M, env, defs, intf=None, syms=None):
    if M.op == "leaf": return _np.array([[ev(x, env, defs, intf) for x in r] for r in M.args[0]], dtype=complex)
    if M.op == "sym": return syms[M.args[0]]
    if M.op == "mmul": return evm(M.args[0], env, defs, intf, syms) @ evm(M.args[1], env, defs, intf, syms)
    if M.op == "kron": return _np.kron(evm(M.args[0], env, defs, intf, syms), evm(M.args[1], env, defs, intf, syms))
    if M.op == "scale": return ev(M.args[0], env, defs, intf) * evm(M.args[1], env, defs, intf, syms)
    if M.op == "madd": return evm(M.args[0], env, defs, intf, syms) + evm(M.args[1], env, defs, intf, syms)
    if M.op == "dag": return evm(M.args[0], env, defs, intf, syms).conj().T
    raise TraceError(M.op)


# ------------------------------------------------------------------ Coq emission (interface of coq/Sym/Expr.v)
class Emitter:
    def __init__(self):
        self.vars = {}   # name -> index

    def vid(self, name):
        if name not in self.vars:
            self.vars[name] = len(self.vars)
        return self.vars[name]

    def expr(self, e):
        e = lift(e)
        o = e.op
        if o == "q":
            f = e.args[0]
            return "(EQ (%d#%d)%%Q)" % (f.numerator, f.denominator)
        if o == "pi": return "EPi"
        if o == "I": return "EI"
        if o == "var": return "(EVar %d)" % self.vid(e.args[0])
        if o == "pow": return "(EPow %s %d)" % (self.expr(e.args[0]), e.args[1])
        if o == "neg": return "(ENeg %s)" % self.expr(e.args[0])
        if o in ("sin", "cos", "exp", "sqrt", "conj"):
            return "(E%s %s)" % (o.capitalize(), self.expr(e.args[0]))
        if o in ("add", "sub", "mul", "div"):
            return "(E%s %s %s)" % (o.capitalize(), self.expr(e.args[0]), self.expr(e.args[1]))
        raise TraceError("emit: " + o)

    def mat(self, M, symname=None):
        if M.op == "leaf":
            return "(MLeaf [" + "; ".join("[" + "; ".join(self.expr(x) for x in r) + "]" for r in M.args[0]) + "])"
        if M.op == "scale": return "(MScale %s %s)" % (self.expr(M.args[0]), self.mat(M.args[1], symname))
        if M.op == "mmul": return "(MMul %s %s)" % (self.mat(M.args[0], symname), self.mat(M.args[1], symname))
        if M.op == "kron": return "(MKron %s %s)" % (self.mat(M.args[0], symname), self.mat(M.args[1], symname))
        if M.op == "madd": return "(MAdd %s %s)" % (self.mat(M.args[0], symname), self.mat(M.args[1], symname))
        if M.op == "dag": return "(MDag %s)" % self.mat(M.args[0], symname)
        if M.op == "sym":
            if symname is None: raise TraceError("matrix symbol in a closed matrix expression")
            return symname(M.args[0])
        raise TraceError(M.op)

    def exprlist(self, es):
        return "[" + "; ".join(self.expr(e) for e in es) + "]"
