"""Shared machinery for the per-property checks: Coq build, Print Assumptions parsing, correspondence evaluation
inside Coq, evidence files, violation / known-finding reporting.  Runs under /venv/bin/python."""
import json, os, re, subprocess, sys, time, hashlib, random, tempfile, shutil, glob, fcntl

VERIF = os.path.dirname(os.path.dirname(os.path.abspath(__file__)))
COQ = os.path.join(VERIF, "coq")
REPO = os.environ.get("VERIF_REPO", "/repo")
SRC = os.path.join(REPO, "src")
NCPU = os.cpu_count() or 4
FORBIDDEN = re.compile(r"\b(Admitted|admit|Axiom|Axioms|Parameter|Parameters|Conjecture|Conjectures|Admit Obligations|"
                       r"bypass_check|Unset Guard Checking|Unset Positivity Checking|Unset Universe Checking)\b|"
                       r"type-in-type|impredicative-set")
STD_AXIOMS = {  # axioms declared by the standard library / Coquelicot that this development may depend on
    "ClassicalDedekindReals.sig_not_dec", "ClassicalDedekindReals.sig_forall_dec",
    "FunctionalExtensionality.functional_extensionality_dep", "Classical_Prop.classic",
    "functional_extensionality_dep", "sig_not_dec", "sig_forall_dec", "classic",
    "ProofIrrelevance.proof_irrelevance", "proof_irrelevance", "JMeq.JMeq_eq", "JMeq_eq",
    "ClassicalEpsilon.constructive_indefinite_description", "constructive_indefinite_description",
    "Eqdep.Eq_rect_eq.eq_rect_eq", "eq_rect_eq", "PropExtensionality.propositional_extensionality",
    "propositional_extensionality",
}


def sh(cmd, timeout=600, cwd=None, env=None, inp=None):
    """run a command, return (rc, stdout+stderr)"""
    try:
        p = subprocess.run(cmd, shell=isinstance(cmd, str), cwd=cwd, env=env, input=inp, timeout=timeout,
                           stdout=subprocess.PIPE, stderr=subprocess.STDOUT, text=True)
        return p.returncode, p.stdout
    except subprocess.TimeoutExpired as e:
        out = e.stdout if isinstance(e.stdout, str) else (e.stdout or b"").decode(errors="replace")
        return 124, out + "\n[timeout after %ss]" % timeout


def strip_comments(text):
    out, depth, i = [], 0, 0
    while i < len(text):
        if text.startswith("(*", i):
            depth += 1; i += 2
        elif text.startswith("*)", i) and depth:
            depth -= 1; i += 2
        else:
            if depth == 0:
                out.append(text[i])
            elif text[i] == "\n":
                out.append("\n")
            i += 1
    return "".join(out)


class Check:
    def __init__(self, pid, argv=None):
        argv = argv or []
        self.pid = pid
        self.tier = os.environ.get("VERIF_TIER", "quick")
        if "--tier" in argv:
            self.tier = argv[argv.index("--tier") + 1]
        if self.tier not in ("quick", "thorough"):
            self.tier = "quick"
        self.replay = argv[argv.index("--replay") + 1] if "--replay" in argv else None
        try:
            self.seed = int(os.environ.get("VERIF_SEED", "20261001"))
        except ValueError:
            self.seed = 20261001
        self.rng = random.Random(self.seed)
        self.t0 = time.time()
        self.obligations = []      # (name, discharged: bool)
        self.assumptions_seen = {}  # theorem -> [axioms]
        self.evaluations = 0
        self.distinct = set()
        self.samples = []
        self.families = {}         # family -> dict(count=..., ...)
        self.notes = []
        self.violations = 0
        self.known_printed = 0
        self.trusted = []
        self.assume = []
        self.rule = ""
        self.exhaustive = None
        self.extra = {}
        self.scratch = tempfile.mkdtemp(prefix="qgverif_%s_" % pid)
        # one check at a time touches coq/ (generated files, make, compiled libraries): serialise on a lock file
        self._lock = open(os.path.join(COQ, ".check.lock"), "w")
        t_lock = time.time()
        fcntl.flock(self._lock, fcntl.LOCK_EX)
        self.lock_wait_s = round(time.time() - t_lock, 2)
        kf = os.path.join(VERIF, "known_findings.json")
        self.known = json.load(open(kf)).get("findings", []) if os.path.exists(kf) else []

    # ---------------------------------------------------------------- python environment for harness children
    def pyenv(self):
        e = dict(os.environ)
        e.update(PYTHONPATH=SRC + os.pathsep + VERIF, PYTHONHASHSEED="0", PYTHONDONTWRITEBYTECODE="1",
                 OMP_NUM_THREADS="1", OPENBLAS_NUM_THREADS="1", MKL_NUM_THREADS="1", IBM_TOKEN=os.environ.get("IBM_TOKEN", "x"))
        return e

    # ---------------------------------------------------------------- Coq
    def hygiene(self):
        """static rules on the whole development (comments stripped)"""
        bad = []
        for f in sorted(glob.glob(os.path.join(COQ, "**", "*.v"), recursive=True)):
            if "/Corr/" in f:
                continue
            txt = strip_comments(open(f).read())
            depth = 0
            for ln, line in enumerate(txt.split("\n"), 1):
                m = FORBIDDEN.search(line)
                if m:
                    bad.append("%s:%d: %s" % (os.path.relpath(f, VERIF), ln, m.group(0)))
                if re.match(r"\s*(Section|Module)\s+\w+", line) and ":=" not in line:
                    depth += 1
                if re.match(r"\s*End\s+\w+\s*\.", line):
                    depth = max(0, depth - 1)
                if depth == 0 and re.match(r"\s*(Variable|Variables|Hypothesis|Hypotheses|Context)\b", line):
                    bad.append("%s:%d: %s outside a Section" % (os.path.relpath(f, VERIF), ln, line.strip()[:40]))
        self.obligations.append(("hygiene: no Axiom/Admitted/guard switches in coq/**/*.v", not bad))
        return bad

    def coq_make(self, targets, timeout=1500):
        sh(["sh", os.path.join(COQ, "mkproject.sh")])
        rc, out = sh(["make", "-C", COQ, "-j%d" % NCPU] + list(targets), timeout=timeout)
        if rc == 124:      # time limit hit (machine under load): not a verdict on any proof; continue the build with a 3x limit
            rc, out2 = sh(["make", "-C", COQ, "-j%d" % NCPU] + list(targets), timeout=3 * timeout)
            out = out + out2
        return rc == 0, out

    def coq_props(self, props_file=None, timeout=900):
        """build the closure of Props/<ID>.v, then re-run coqc on the Props file itself to capture Print Assumptions.
        Returns (ok, failing_theorem_or_None, output)."""
        rel = props_file or ("Props/%s.v" % self.pid)
        src = os.path.join(COQ, rel)
        thms = re.findall(r"^(?:Theorem|Lemma|Example|Corollary)\s+(\w+)", strip_comments(open(src).read()), re.M)
        ok, out = self.coq_make([rel + "o"], timeout=timeout)
        if not ok:
            failing = self._locate_failure(out, src)
            for t in thms:
                self.obligations.append((rel + ":" + t, False))
            return False, failing, out
        rc, out = sh(["coqc", "-Q", COQ, "QG", "-w", "-deprecated-hint-without-locality,-notation-overridden,-ambiguous-paths", src], timeout=timeout, cwd=COQ)
        if rc == 124:
            rc, out = sh(["coqc", "-Q", COQ, "QG", "-w", "-deprecated-hint-without-locality,-notation-overridden,-ambiguous-paths", src], timeout=3 * timeout, cwd=COQ)
        if rc != 0:
            failing = self._locate_failure(out, src)
            for t in thms:
                self.obligations.append((rel + ":" + t, False))
            return False, failing, out
        printed = re.findall(r"^Print Assumptions\s+(\w+)", strip_comments(open(src).read()), re.M)
        blocks = self._parse_assumptions(out)
        for i, t in enumerate(printed):
            ax = blocks[i] if i < len(blocks) else ["<unparsed>"]
            self.assumptions_seen[t] = ax
            foreign = [a for a in ax if a.split(" ")[0] not in STD_AXIOMS and a.split(".")[-1].split(" ")[0] not in STD_AXIOMS]
            self.obligations.append((rel + ":" + t + " [axioms: %s]" % (", ".join(ax) or "none"), not foreign))
            if foreign:
                self.notes.append("theorem %s depends on non-standard axioms: %s" % (t, foreign))
        for t in thms:
            if t not in printed:
                self.obligations.append((rel + ":" + t, True))
        if self.tier == "thorough" and os.environ.get("VERIF_NO_COQCHK") != "1":
            if not self._coqchk(rel):
                return False, "coqchk (independent checker) rejects " + rel, "\n".join(self.extra.get("coqchk", {}).get("tail", []))
        return True, None, out

    def _coqchk(self, rel):
        """thorough tier: re-check the compiled Props library and everything it depends on with the independent checker"""
        lib = "QG." + rel[:-2].replace("/", ".")
        rc, out = sh(["coqchk", "-silent", "-o", "-Q", COQ, "QG", lib], timeout=1500, cwd=COQ)
        if rc == 124:
            rc, out = sh(["coqchk", "-silent", "-o", "-Q", COQ, "QG", lib], timeout=6000, cwd=COQ)
        axioms = []
        grab = False
        for line in out.split("\n"):
            if line.strip().startswith("* Axioms:"):
                grab = True; continue
            if grab:
                if line.strip().startswith("*") or not line.strip():
                    if line.strip().startswith("*"): grab = False
                    continue
                axioms.append(line.strip())
        self.extra["coqchk"] = {"library": lib, "exit": rc, "axioms_of_all_loaded_libraries": axioms[:60], "tail": out.strip().split("\n")[-3:]}
        self.obligations.append(("coqchk -o %s (independent checker)" % lib, rc == 0))
        if rc != 0:
            self.notes.append("coqchk failed: " + out[-300:])
        return rc == 0

    @staticmethod
    def _parse_assumptions(out):
        """Print Assumptions output: 'Closed under the global context' or 'Axioms:' followed by 'name : type' entries;
        an entry's type may start on the next (indented) line, so a name is any non-indented token line."""
        blocks, cur = [], None
        for line in out.split("\n"):
            if line.startswith("Closed under the global context"):
                if cur is not None:
                    blocks.append(cur)
                blocks.append([]); cur = None
            elif line.startswith("Axioms:"):
                if cur is not None:
                    blocks.append(cur)
                cur = []
            elif cur is not None:
                m = re.match(r"^([A-Za-z_][\w.']*)\s*(:.*)?$", line)
                if m and not line.startswith(" "):
                    cur.append(m.group(1))
                elif line and not line.startswith(" ") and not line.startswith(":"):
                    blocks.append(cur); cur = None
        if cur is not None:
            blocks.append(cur)
        return blocks

    @staticmethod
    def _locate_failure(out, src):
        m = re.search(r'File "([^"]+)", line (\d+)', out)
        if not m:
            return "build:" + out.strip().split("\n")[-1][:120]
        f, ln = m.group(1), int(m.group(2))
        path = f if os.path.isabs(f) else os.path.join(COQ, f)
        name = None
        try:
            for i, line in enumerate(open(path), 1):
                mm = re.match(r"\s*(?:Theorem|Lemma|Example|Corollary|Definition|Fixpoint)\s+(\w+)", line)
                if mm and i <= ln:
                    name = mm.group(1)
        except OSError:
            pass
        return "%s:%d:%s" % (os.path.relpath(path, COQ), ln, name)

    def coq_eval(self, body, name="cases", timeout=900, requires=()):
        """compile a generated file under a scratch dir (logical path Corr) and return (rc, stdout)"""
        d = os.path.join(self.scratch, "Corr")
        os.makedirs(d, exist_ok=True)
        f = os.path.join(d, name + ".v")
        with open(f, "w") as fh:
            fh.write(body)
        return sh(["coqc", "-Q", COQ, "QG", "-Q", d, "Corr", f], timeout=timeout, cwd=d)

    def coq_eval_many(self, bodies, timeout=900):
        """bodies: list of (name, text); compiled in parallel; returns list of (name, rc, out)"""
        d = os.path.join(self.scratch, "Corr")
        os.makedirs(d, exist_ok=True)
        procs = []
        res = []
        pending = list(bodies)
        running = []
        while pending or running:
            while pending and len(running) < NCPU:
                name, text = pending.pop(0)
                f = os.path.join(d, name + ".v")
                open(f, "w").write(text)
                p = subprocess.Popen(["timeout", str(timeout), "coqc", "-Q", COQ, "QG", "-Q", d, "Corr", f], cwd=d,
                                     stdout=subprocess.PIPE, stderr=subprocess.STDOUT, text=True)
                running.append((name, p))
            name, p = running.pop(0)
            out = p.communicate()[0]
            res.append((name, p.returncode, out))
        # a shard killed by its time limit (machine under load) says nothing about the code: evaluate it again, alone, with a 4x limit
        for i, (name, rc, out) in enumerate(res):
            if rc in (124, 137, -9) and not (out or "").strip():
                f = os.path.join(d, name + ".v")
                rc2, out2 = sh(["coqc", "-Q", COQ, "QG", "-Q", d, "Corr", f], timeout=4 * timeout, cwd=d)
                res[i] = (name, rc2, out2)
        return res

    # ---------------------------------------------------------------- bookkeeping
    def count(self, family, n=1, key=None, sample=None):
        self.evaluations += n
        fam = self.families.setdefault(family, {"evaluations": 0})
        fam["evaluations"] += n
        if key is not None:
            self.distinct.add((family, key))
        if sample is not None and len([s for s in self.samples if s.get("family") == family]) < 3:
            self.samples.append({"family": family, "case": sample})

    def oblige(self, name, ok):
        self.obligations.append((name, bool(ok)))

    # ---------------------------------------------------------------- reporting
    def report(self, key, what, replay, found_input=True):
        """a violation: known finding (listed in known_findings.json by property+key) or VIOLATION line"""
        for k in self.known:
            if k.get("property") == self.pid and k.get("key") == key:
                print("KNOWN-FINDING: property=%s %s" % (self.pid, k.get("what", what)))
                self.known_printed += 1
                return
        os.makedirs(os.path.join(VERIF, "replays"), exist_ok=True)
        h = hashlib.sha1((key + json.dumps(replay, sort_keys=True, default=str)).encode()).hexdigest()[:10]
        path = os.path.join(VERIF, "replays", "%s_%s.json" % (self.pid, h))
        doc = {"property": self.pid, "key": key, "what": what, "found_failing_input": bool(found_input), "replay": replay,
               "how": "bin/check %s --replay %s" % (self.pid, path)}
        with open(path, "w") as fh:
            json.dump(doc, fh, indent=1, default=str)
        self.violations += 1
        print("VIOLATION property=%s replay=%s%s" % (self.pid, path, "" if found_input else " no-failing-input-found"))
        print("  " + what[:400])
        sys.stdout.flush()

    def finish(self, level="proof", checker_cmd=None):
        obligations = len(self.obligations)
        discharged = sum(1 for _, ok in self.obligations if ok)
        cov = {
            "obligations": obligations, "discharged": discharged,
            "checker_cmd": checker_cmd or "make -C /verif/coq Props/%s.vo && coqc -Q /verif/coq QG /verif/coq/Props/%s.v  (Coq 8.16.1 kernel, vm_compute; no native_compute)" % (self.pid, self.pid),
            "trusted_base": self.trusted,
            "obligation_list": [{"name": n, "discharged": ok} for n, ok in self.obligations],
            "print_assumptions": self.assumptions_seen,
            "evaluations": self.evaluations, "distinct_nontrivial": len(self.distinct),
            "rule": self.rule, "samples": self.samples[:12] or [{"note": "no correspondence cases in this run"}],
            "families": self.families, "explanation": " ".join(self.notes),
        }
        if self.exhaustive is not None:
            cov["exhaustive"] = bool(self.exhaustive)
        cov.update(self.extra)
        ev = {"property_id": self.pid, "tier": self.tier, "seed": self.seed, "level": level, "coverage": cov,
              "assumptions": self.assume, "wall_s": round(time.time() - self.t0, 2), "lock_wait_s": self.lock_wait_s, "violations": self.violations,
              "known_findings_printed": self.known_printed}
        # runs against a deliberately modified /repo (bin/seed_eval sets VERIF_EVIDENCE_DIR) must not overwrite the evidence of /repo itself
        evdir = os.environ.get("VERIF_EVIDENCE_DIR") or os.path.join(VERIF, "evidence")
        os.makedirs(evdir, exist_ok=True)
        with open(os.path.join(evdir, "%s.json" % self.pid), "w") as fh:
            json.dump(ev, fh, indent=1, default=str)
        shutil.rmtree(self.scratch, ignore_errors=True)
        try:
            fcntl.flock(self._lock, fcntl.LOCK_UN); self._lock.close()
        except Exception:  # noqa
            pass
        print("%s %s: %d/%d obligations, %d correspondence/oracle evaluations (%d distinct non-trivial), %d violations, %.1fs"
              % (self.pid, self.tier, discharged, obligations, self.evaluations, len(self.distinct), self.violations, time.time() - self.t0))
        return 1 if self.violations else 0


# ---------------------------------------------------------------- Coq literal printers
def coq_bools(bits):
    return "[" + ";".join("true" if b else "false" for b in bits) + "]"


def coq_list(xs):
    return "[" + "; ".join(xs) + "]"


def coq_Z(x):
    x = int(x)
    return "(%d)%%Z" % x


def coq_N(x):
    return "%d%%N" % int(x)


def run_child(ck, script, args=(), timeout=1200, inp=None):
    """run a harness script in a fresh interpreter against /repo's current sources; returns (rc, out)"""
    return sh(["/venv/bin/python", os.path.join(VERIF, "checks", script)] + list(args), timeout=timeout, env=ck.pyenv(), cwd=ck.scratch, inp=inp)


def guarded(pid, main, argv):
    """top-level safety net: a harness that cannot complete against the current source (an exception escaping the check) is a
    property no longer shown to hold, never a bare traceback: print the traceback, write a replay naming the crash, exit 1"""
    try:
        return main(argv)
    except SystemExit:
        raise
    except BaseException as e:  # noqa
        import traceback
        tb = traceback.format_exc()
        sys.stderr.write(tb)
        os.makedirs(os.path.join(VERIF, "replays"), exist_ok=True)
        h = hashlib.sha1(tb.encode()).hexdigest()[:10]
        path = os.path.join(VERIF, "replays", "%s_crash_%s.json" % (pid, h))
        with open(path, "w") as fh:
            json.dump({"property": pid, "key": "harness-exception", "found_failing_input": False,
                       "what": "the check could not complete against the current source: %s: %s" % (type(e).__name__, str(e)[:300]),
                       "replay": {"correspondence": "harness execution (tracer / interception / model evaluation) of %s" % pid, "traceback": tb[-3000:]},
                       "how": "bin/check %s" % pid}, fh, indent=1)
        print("VIOLATION property=%s replay=%s no-failing-input-found" % (pid, path))
        print("  the check could not complete against the current source: %s: %s" % (type(e).__name__, str(e)[:300]))
        return 1
