"""usage: runner.py <ID> [args]  -> imports checks/<id>.py and runs its main under the top-level safety net (vlib/common.guarded)"""
import sys, importlib, traceback
from vlib.common import guarded

pid = sys.argv[1].upper() if len(sys.argv) > 1 else "?"


def main(argv):
    mod = importlib.import_module("checks." + pid.lower())     # an import error of the package under verification lands in guarded, too
    return mod.main(argv)


if __name__ == "__main__":      # guard: multiprocessing "spawn" children re-import this module as __mp_main__
    sys.exit(guarded(pid, main, sys.argv[2:]))
