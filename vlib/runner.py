"""usage: runner.py <ID> [args]  -> imports checks/<id>.py and runs its main under the top-level safety net (vlib/common.guarded)"""
import sys, os, importlib
from vlib.common import guarded

# the checks used to run as scripts: keep their directory first on sys.path (sibling helper modules imported by bare name)
sys.path[0] = os.path.join(os.path.dirname(os.path.dirname(os.path.abspath(__file__))), "checks")
pid = sys.argv[1].upper() if len(sys.argv) > 1 else "?"


def main(argv):
    mod = importlib.import_module("checks." + pid.lower())     # an import error of the package under verification lands in guarded, too
    return mod.main(argv)


if __name__ == "__main__":      # guard: multiprocessing "spawn" children re-import this module as __mp_main__
    sys.exit(guarded(pid, main, sys.argv[2:]))
