import numpy as np, warnings
warnings.filterwarnings("ignore")
from qiskit import QuantumCircuit
from quantum_gates._simulation.simulator import MrAndersonSimulator
from quantum_gates._simulation.circuit import Circuit, StandardCircuit, EfficientCircuit, OneCircuit, BinaryCircuit
LOG=[]
class Spy:
    def __deepcopy__(self, memo): return self
    def _l(self,name,*a): LOG.append((name,)+tuple(float(x) for x in a))
    def relaxation(self,Dt,T1,T2): self._l('relax',Dt,T1,T2); return np.eye(2,dtype=complex)
    def bitflip(self,Dt,p): self._l('bitflip',Dt,p); return np.eye(2,dtype=complex)
    def depolarizing(self,Dt,p): self._l('depol',Dt,p); return np.eye(2,dtype=complex)
    def X(self,phi,p,T1,T2): self._l('X',phi,p,T1,T2); return np.eye(2,dtype=complex)
    def SX(self,phi,p,T1,T2): self._l('SX',phi,p,T1,T2); return np.eye(2,dtype=complex)
    def CNOT(self,*a): self._l('CNOT',*a); return np.eye(4,dtype=complex)
    def CNOT_inv(self,*a): self._l('CNOT_inv',*a); return np.eye(4,dtype=complex)
    def ECR(self,*a): self._l('ECR',*a); return np.eye(4,dtype=complex)
    def ECR_inv(self,*a): self._l('ECR_inv',*a); return np.eye(4,dtype=complex)
def devparam(nmax):
    q=np.arange(nmax)
    return {"T1":100.0+q,"T2":200.0+q,"p":300.0+q,"rout":400.0+q,
            "p_int":500+10*q[:,None]+q[None,:]+0.0,"t_int":700+10*q[:,None]+q[None,:]+0.0,"tm":900.0+q,"dt":np.array([0.5])}
n=3
qc=QuantumCircuit(n,n)
for q in range(n): qc.rz(0.01*(q+1),q)
qc.sx(0); qc.x(2); qc.delay(10,1)
qc.cx(0,1); qc.cx(2,1); qc.ecr(1,2); qc.ecr(1,0)
for q in range(n): qc.measure(q,q)
psi0=np.zeros(2**n); psi0[0]=1
for C in [EfficientCircuit, BinaryCircuit]:
    LOG.clear()
    sim=MrAndersonSimulator(gates=Spy(), CircuitClass=C)
    res=sim.run(t_qiskit_circ=qc, qubits_layout=list(range(n)), psi0=psi0, shots=1, device_param=devparam(n), nqubit=n)
    print(C.__name__)
    for l in LOG: print('  ',l)
