"""Run the real optimizer on symbolic matrix tokens: the output is a value-independent description of what it fused."""
import warnings, itertools, copy
warnings.filterwarnings("ignore")
import quantum_gates._utility.circ_optimizer as co
class T:
    def __init__(s,rep,d): s.rep=rep; s.d=d
    def __matmul__(s,o): 
        assert s.d==o.d, "dimension mismatch in @"
        return T(f"({s.rep} @ {o.rep})",s.d)
    def __repr__(s): return s.rep
class NPs:
    @staticmethod
    def identity(n): return T(f"I{n}",n)
    @staticmethod
    def kron(a,b): return T(f"kron({a.rep},{b.rep})",a.d*b.d)
co.np=NPs
def run(pattern,n,level):
    items=[[T(f"g{j}",2 if len(q)==1 else 4),list(q)] for j,q in enumerate(pattern)]
    try: out=co.Optimizer(level,items,list(range(n))).optimize(); return [(repr(m),q) for m,q in out]
    except Exception as e: return "RAISE "+type(e).__name__
for pat in ([[1],[0,1],[2]], [[0],[0],[1,0],[1],[0],[2]], [[0,1],[0],[0]], [[2],[0],[2],[1],[0]]):
    print(pat,'->',run(pat,3,4))
