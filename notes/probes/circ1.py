import numpy as np, warnings
warnings.filterwarnings("ignore")
from qiskit import QuantumCircuit
from qiskit.quantum_info import Statevector, Operator
from quantum_gates._simulation.circuit import Circuit, StandardCircuit, EfficientCircuit, OneCircuit, BinaryCircuit
from quantum_gates._gates.gates import noise_free_gates as g
rng=np.random.default_rng(0)
def rand_state(n):
    v=rng.normal(size=2**n)+1j*rng.normal(size=2**n); return v/np.linalg.norm(v)
def ideal(n, ops, psi0):
    # big-endian: qubit 0 = MSB. build qiskit circuit on reversed qubits
    qc=QuantumCircuit(n)
    for op in ops:
        if op[0]=='rz': qc.rz(op[2], n-1-op[1])
        elif op[0]=='sx': qc.sx(n-1-op[1])
        elif op[0]=='x': qc.x(n-1-op[1])
        elif op[0]=='cx': qc.cx(n-1-op[1], n-1-op[2])
        elif op[0]=='ecr': qc.ecr(n-1-op[1], n-1-op[2])
    return Operator(qc).data @ psi0
def run(C, n, ops, psi0):
    circ = C(n, 50, g)
    args=(1e-7,0,0,0,0,0,0,0)
    for op in ops:
        if op[0]=='rz': circ.Rz(op[1], op[2])
        elif op[0] in ('sx','x'):
            if C is BinaryCircuit:
                getattr(circ, op[0].upper())(op[1],0,0,0)
            else:
                for k in range(n):
                    if k==op[1]: getattr(circ, op[0].upper())(k,0,0,0)
                    else: circ.I(k)
        else:
            f = circ.CNOT if op[0]=='cx' else circ.ECR
            if C is BinaryCircuit: f(op[1],op[2],*args)
            else:
                for k in range(n):
                    if k==op[1]: f(k,op[2],*args)
                    elif k==op[2]: pass
                    else: circ.I(k)
    if C is Circuit:
        circ.depth = circ.j+1
        circ.circuit=[row[:circ.depth] for row in circ.circuit]
    return np.asarray(circ.statevector(psi0),dtype=complex)
def same_probs(a,b): return np.allclose(np.abs(a)**2, np.abs(b)**2, atol=1e-9)
n=2
for C in [Circuit, StandardCircuit, EfficientCircuit, OneCircuit, BinaryCircuit]:
    for two in ('cx','ecr'):
        for (a,b) in [(0,1),(1,0)]:
            ok=0; tot=0
            for t in range(20):
                psi0=rand_state(n)
                ops=[('rz',0,rng.uniform(-3,3)),('rz',1,rng.uniform(-3,3)),('sx',0),('sx',1),('rz',0,rng.uniform(-3,3)),('rz',1,rng.uniform(-3,3)),(two,a,b),('sx',0),('sx',1),('rz',0,1.0),(two,a,b),('sx',1),('sx',0)]
                try:
                    got=run(C,n,ops,psi0); ref=ideal(n,ops,psi0)
                    ok+=same_probs(got,ref)
                except Exception as e:
                    print(C.__name__, two,a,b,'RAISE',type(e).__name__,e); break
                tot+=1
            print(C.__name__, two, (a,b), f"{ok}/{tot}")
