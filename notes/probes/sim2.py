import numpy as np, warnings, sys
warnings.filterwarnings("ignore")
from qiskit import QuantumCircuit
from qiskit.quantum_info import Statevector
from quantum_gates._simulation.simulator import MrAndersonSimulator
from quantum_gates._simulation.circuit import BinaryCircuit, EfficientCircuit
from quantum_gates._gates.gates import noise_free_gates
from collections import Counter
rng=np.random.default_rng(11)
def devparam(nmax):
    return {"T1":np.full(nmax,1e-4),"T2":np.full(nmax,1e-4),"p":np.full(nmax,1e-4),"rout":np.full(nmax,1e-2),
            "p_int":np.full((nmax,nmax),1e-2),"t_int":np.full((nmax,nmax),3e-7),"tm":np.full(nmax,1e-6),"dt":np.array([2.2e-10])}
c=Counter()
for trial in range(200):
    n=int(rng.integers(1,5)); nphys=int(rng.integers(n,9))
    labels=sorted(rng.choice(nphys,n,replace=False).tolist())
    qc=QuantumCircuit(nphys,n)
    order=rng.permutation(n)
    for q in order: qc.rz(float(rng.uniform(-1,1)), labels[q])
    for _ in range(int(rng.integers(0,15))):
        r=rng.random()
        if r<0.3: qc.rz(float(rng.uniform(-3,3)), labels[rng.integers(n)])
        elif r<0.5: qc.sx(labels[rng.integers(n)])
        elif r<0.6: qc.x(labels[rng.integers(n)])
        elif n>1:
            a,b=rng.choice(n,2,replace=False)
            getattr(qc,rng.choice(['cx','ecr']))(labels[a],labels[b])
    meas=[q for q in rng.permutation(n) if rng.random()<0.7] or [0]
    meas=sorted(meas)
    for k,q in enumerate(meas): qc.measure(labels[q],k)
    # psi0 random entangled on n internal qubits (ascending label order, MSB first)
    psi0=rng.normal(size=2**n)+1j*rng.normal(size=2**n); psi0/=np.linalg.norm(psi0)
    # ideal: build n-qubit circuit on internal indices, qiskit little-endian => internal k <-> qiskit qubit n-1-k
    q2=QuantumCircuit(n)
    for inst in qc.data:
        nm=inst.operation.name
        if nm=='measure': continue
        idx=[n-1-labels.index(q._index) for q in inst.qubits]
        q2.append(inst.operation, idx)
    sv=Statevector(psi0).evolve(q2).data
    p=np.abs(sv)**2
    ideal={}
    for i,v in enumerate(p):
        bits=format(i,f'0{n}b')   # bits[k] = internal qubit k
        key=''.join(bits[q] for q in meas)
        ideal[key]=ideal.get(key,0)+v
    res=MrAndersonSimulator(gates=noise_free_gates,CircuitClass=BinaryCircuit).run(t_qiskit_circ=qc,qubits_layout=labels,psi0=psi0,shots=1,device_param=devparam(nphys),nqubit=n)
    ok=set(res)==set(ideal) and all(abs(res[k]-ideal[k])<1e-9 for k in ideal)
    c[ok]+=1
    if not ok and c[ok]<3: print(labels,meas); print(qc.draw(fold=150)); print(res,ideal)
print(c)
