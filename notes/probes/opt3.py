import numpy as np, copy, sys, warnings
warnings.filterwarnings("ignore")
sys.path.insert(0,'/tmp/scratch')
from optfix import Optimizer
from opt2 import apply_ref, rm
from collections import Counter
rng=np.random.default_rng(7)
c=Counter()
for t in range(20000):
    n=int(rng.integers(1,7)); L=int(rng.integers(0,25))
    pats=[[q] for q in range(n)]+[[q,-1] for q in range(n)]+[[a,b] for a in range(n) for b in range(n) if a!=b]
    w=np.array([3.0 if len(p)==1 or p[1]==-1 else 1.0 for p in pats]); w/=w.sum()
    pattern=[pats[i] for i in rng.choice(len(pats), size=L, p=w)]
    items=[[rm(2 if (len(q)==1 or q[1]==-1) else 4), list(q)] for q in pattern]
    psi=rng.integers(-2,3,2**n)+1j*rng.integers(-2,3,2**n)
    ref=apply_ref(items,psi,n)
    for lvl in range(5):
        try:
            out=Optimizer(lvl, copy.deepcopy(items), list(range(n))).optimize()
            got=apply_ref(out,psi,n)
            r="OK" if np.allclose(got,ref) and len(out)<=len(items) else "WRONG"
        except Exception as e:
            r="RAISE "+type(e).__name__
        c[(lvl,r)]+=1
        if r!="OK" and c[(lvl,r)]<3: print(n,lvl,r,pattern)
print(c)
