import numpy as np, warnings, itertools, sys
warnings.filterwarnings("ignore")
from qiskit import QuantumCircuit
from qiskit.quantum_info import Statevector
from quantum_gates._simulation.simulator import MrAndersonSimulator
from quantum_gates._simulation.circuit import Circuit, StandardCircuit, EfficientCircuit, OneCircuit, BinaryCircuit
from quantum_gates._gates.gates import noise_free_gates
from collections import Counter
rng=np.random.default_rng(5)
def devparam(nmax):
    return {"T1":np.full(nmax,1e-4),"T2":np.full(nmax,1e-4),"p":np.full(nmax,1e-4),"rout":np.full(nmax,1e-2),
            "p_int":np.full((nmax,nmax),1e-2),"t_int":np.full((nmax,nmax),3e-7),"tm":np.full(nmax,1e-6),"dt":np.array([2.2e-10])}
def rand_circ(n, L, two='cx', adjacent=True, measure=None, nphys=None, labels=None):
    nphys = nphys or n
    labels = labels or list(range(n))
    qc=QuantumCircuit(nphys, n)
    ops=[]
    for _ in range(L):
        r=rng.random()
        if r<0.3: qc.rz(float(rng.uniform(-3,3)), labels[rng.integers(n)])
        elif r<0.5: qc.sx(labels[rng.integers(n)])
        elif r<0.6: qc.x(labels[rng.integers(n)])
        elif r<0.65: qc.delay(int(rng.integers(1,100)), labels[rng.integers(n)])
        elif n>1:
            if adjacent:
                a=int(rng.integers(n-1)); b=a+1
            else:
                a,b=rng.choice(n,2,replace=False)
            if rng.random()<0.5: a,b=b,a
            getattr(qc,two)(labels[a],labels[b])
    return qc
def ideal_probs(qc_nomeas, meas_qubits):
    # marginal probs with key char k = bit of k-th measured qubit
    sv=Statevector.from_instruction(qc_nomeas.remove_final_measurements(inplace=False) if False else qc_nomeas)
    n=qc_nomeas.num_qubits
    p=np.abs(sv.data)**2
    out={}
    for idx,v in enumerate(p):
        key=''.join(str((idx>>q)&1) for q in meas_qubits)
        out[key]=out.get(key,0)+v
    return out
def strip_delays(qc):
    q2=QuantumCircuit(qc.num_qubits, qc.num_clbits)
    for inst in qc.data:
        if inst.operation.name not in ('delay','measure','barrier'):
            q2.append(inst.operation, inst.qubits, inst.clbits)
    return q2
c=Counter()
classes=[Circuit, StandardCircuit, EfficientCircuit, OneCircuit, BinaryCircuit]
for trial in range(int(sys.argv[1]) if len(sys.argv)>1 else 100):
    n=int(rng.integers(1,5)); two=rng.choice(['cx','ecr'])
    qc=rand_circ(n, int(rng.integers(1,14)), two=two)
    # touch all qubits so used_q = all; measure in ascending order a subset
    for q in range(n): qc.rz(0.1,q)
    meas=[q for q in range(n) if rng.random()<0.7] or [0]
    qc.barrier()
    for q in meas: qc.measure(q,q)
    ideal=ideal_probs(strip_delays(qc), meas)
    # layout as derived: first-touch order
    psi0=np.zeros(2**n); psi0[0]=1
    for C in classes:
        sim=MrAndersonSimulator(gates=noise_free_gates, CircuitClass=C)
        try:
            res=sim.run(t_qiskit_circ=qc, qubits_layout=list(range(n)), psi0=psi0.copy(), shots=1, device_param=devparam(n), nqubit=n)
            ok=set(res)==set(ideal) and all(abs(res[k]-ideal[k])<1e-9 for k in ideal)
            r='OK' if ok else 'WRONG'
        except Exception as e:
            r='RAISE %s %s'%(type(e).__name__, str(e)[:50])
        c[(C.__name__, r)]+=1
        if r!='OK' and c[(C.__name__,r)]<=2:
            print(C.__name__, r, n, two, meas); print(qc.draw(fold=200)); 
            if r=='WRONG': print(res, ideal)
for k in sorted(c): print(k,c[k])
