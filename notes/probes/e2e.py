import numpy as np, warnings, io, contextlib, sys
warnings.filterwarnings("ignore")
from qiskit import transpile, QuantumCircuit
from qiskit_ibm_runtime import fake_provider
from quantum_gates._simulation.simulator import MrAndersonSimulator
from quantum_gates._simulation.circuit import EfficientCircuit, BinaryCircuit, Circuit, StandardCircuit, OneCircuit
from quantum_gates._gates.gates import noise_free_gates, standard_gates
from quantum_gates._utility.quantum_algorithms import hadamard_reverse_qft_circ, ghz_circ, qft_circ
from quantum_gates._utility.device_parameters import DeviceParameters
from quantum_gates._utility.simulations_utility import fix_counts
from collections import Counter
for bname,layout in (('FakeManilaV2',[0,1,2,3]),('FakeKyiv',[0,1,2,3]),('FakeKyiv',[4,5,6,15]),('FakeBrisbane',[0,14,18,19])):
    b=getattr(fake_provider,bname)()
    for gen in (hadamard_reverse_qft_circ, ghz_circ):
        for n in (2,3,4):
            lay=layout[:n]
            circ=gen(n)
            t=transpile(circ,b,scheduling_method='asap',initial_layout=lay,seed_transpiler=42)
            ops=Counter(i.operation.name for i in t.data)
            used=sorted({q._index for i in t.data for q in i.qubits if i.operation.name!='delay'})
            dp=DeviceParameters(list(range(max(used)+1)))
            with contextlib.redirect_stdout(io.StringIO()): dp.load_from_backend(b)
            psi0=np.zeros(2**len(used)); psi0[0]=1
            linear = used==list(range(len(used)))
            for C in ([EfficientCircuit,BinaryCircuit] if linear else [BinaryCircuit]):
                try:
                    res=MrAndersonSimulator(gates=noise_free_gates,CircuitClass=C).run(t_qiskit_circ=t,qubits_layout=used,psi0=psi0,shots=1,device_param=dp.__dict__(),nqubit=len(used))
                    res={k:round(float(v),6) for k,v in res.items() if v>1e-9}
                    print(bname,lay,gen.__name__,n,C.__name__,'used',used,dict(ops),'->',res)
                except Exception as e:
                    print(bname,lay,gen.__name__,n,C.__name__,'used',used,'RAISE',type(e).__name__,str(e)[:100])
