import numpy as np, warnings
warnings.filterwarnings("ignore")
from qiskit.quantum_info import Statevector, Operator
from quantum_gates._utility.quantum_algorithms import hadamard_reverse_qft_circ, ghz_circ, qft_circ
for n in range(1,11):
    c=hadamard_reverse_qft_circ(n).remove_final_measurements(inplace=False); p=np.abs(Statevector.from_instruction(c).data)**2
    g=ghz_circ(n).remove_final_measurements(inplace=False); pg=np.abs(Statevector.from_instruction(g).data)**2
    ok_g = (abs(pg[0]-.5)<1e-12 and abs(pg[-1]-.5)<1e-12) if n>1 else (abs(pg[0]-.5)<1e-12)
    line=f"n={n} hrqft p0-1={p[0]-1:.1e} ghz ok={ok_g}"
    if n<=8:
        q=qft_circ(n).remove_final_measurements(inplace=False); U=Operator(q).data; N=2**n
        rev=lambda y: int(format(y,f'0{n}b')[::-1],2)
        D=np.array([[np.exp(2j*np.pi*x*rev(y)/N)/np.sqrt(N) for x in range(N)] for y in range(N)])
        line+=f" qft-dft(rev) dev={np.abs(U-D).max():.1e}"
    meas=[(i.qubits[0]._index,i.clbits[0]._index) for i in qft_circ(n).data if i.operation.name=='measure']
    line+=f" measure same idx={all(a==b for a,b in meas) and len(meas)==n}"
    print(line)
