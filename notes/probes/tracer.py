"""Prototype: regenerate a symbolic model of factories.py by executing the real code on symbolic reals."""
import numpy as np, warnings, itertools, sys
warnings.filterwarnings("ignore")
import quantum_gates._gates.factories as fac
from quantum_gates._gates.integrator import Integrator

class E:
    """expression node: op + args; complex-valued symbolic scalar"""
    __slots__=("op","args")
    def __init__(s,op,*args): s.op=op; s.args=args
    # arithmetic
    def _b(op,a,b):
        for x,y in ((a,b),(b,a)):
            if isinstance(y,np.ndarray):
                z=np.empty((),dtype=object); z[()]=x
                f={"add":np.add,"sub":np.subtract,"mul":np.multiply,"div":np.true_divide}[op]
                return f(z,y) if x is a else f(y,z)
        return E(op,lift(a),lift(b))
    def __add__(s,o): return E._b("add",s,o)
    def __radd__(s,o): return E._b("add",o,s)
    def __sub__(s,o): return E._b("sub",s,o)
    def __rsub__(s,o): return E._b("sub",o,s)
    def __mul__(s,o): return E._b("mul",s,o)
    def __rmul__(s,o): return E._b("mul",o,s)
    def __truediv__(s,o): return E._b("div",s,o)
    def __rtruediv__(s,o): return E._b("div",o,s)
    def __neg__(s): return E("neg",s)
    def __pos__(s): return s
    def __pow__(s,o):
        assert isinstance(o,int), ("non-integer power",o)
        return E("pow",s,o)
    # numpy ufunc fallbacks on object dtype call these methods
    def sin(s): return E("sin",s)
    def cos(s): return E("cos",s)
    def exp(s): return E("exp",s)
    def sqrt(s): return E("sqrt",s)
    # decisions
    def __eq__(s,o): return DEC.decide(("eq",s,lift(o)))
    def __ne__(s,o): return not DEC.decide(("eq",s,lift(o)))
    def __gt__(s,o): return DEC.assume(("gt",s,lift(o)))
    def __lt__(s,o): return DEC.assume(("lt",s,lift(o)))
    def __ge__(s,o): return DEC.assume(("ge",s,lift(o)))
    def __le__(s,o): return DEC.assume(("le",s,lift(o)))
    def __hash__(s): return hash((s.op,tuple(map(repr,s.args))))
    def __bool__(s): raise TypeError("symbolic value used as bool")
    def __float__(s): raise TypeError("symbolic value forced to float")
    def __complex__(s): raise TypeError("symbolic value forced to complex")
    def __repr__(s):
        if s.op=="var": return s.args[0]
        if s.op=="const": return repr(s.args[0])
        return "(%s %s)"%(s.op," ".join(map(repr,s.args)))
def lift(x):
    if isinstance(x,E): return x
    if isinstance(x,(int,float,complex,np.integer,np.floating,np.complexfloating)): return E("const",complex(x) if isinstance(x,(complex,np.complexfloating)) else (int(x) if float(x).is_integer() else float(x)))
    raise TypeError(("cannot lift",type(x)))
def V(name): return E("var",name)

class Decisions:
    def __init__(s): s.script=[]; s.log=[]; s.assumed=[]
    def decide(s,cond):
        i=len(s.log); val=s.script[i] if i<len(s.script) else False
        s.log.append((cond,val)); return val
    def assume(s,cond): s.assumed.append(cond); return True
DEC=Decisions()

class SymIntegrator:
    """stands for Integrator(pulse): returns an uninterpreted integral symbol per (key, theta, a)"""
    def integrate(self,key,theta,a): 
        assert key in Integrator._INTEGRAL_LOOKUP, key
        return E("Int",key,lift(theta),lift(a))

REC={}
class SymRandom:
    def __init__(s): s.n=0
    def normal(s,mean,std):
        s.n+=1; v=V(f"w{s.n}"); REC.setdefault("samplers",[]).append(("normal",[v],lift(mean),lift(std))); return v
    def multivariate_normal(s,mean,cov,size):
        assert size==1
        k=len(mean); vs=[]
        for j in range(k): s.n+=1; vs.append(V(f"w{s.n}"))
        REC.setdefault("samplers",[]).append(("mvn",vs,[lift(m) for m in mean],[[lift(c) for c in row] for row in np.asarray(cov,dtype=object)]))
        out=np.empty((1,k),dtype=object); out[0,:]=vs; return out
def sym_expm(A):
    A=np.asarray(A,dtype=object); n=A.shape[0]; k=len(REC.setdefault("expm",[]))
    REC["expm"].append(A.copy())
    out=np.empty((n,n),dtype=object)
    for i in range(n):
        for j in range(n): out[i,j]=V(f"X{k}_{i}{j}")
    return out
# install shims inside the factories module only
import numpy as _np
NP=type("NP",(),{})()
for k in dir(_np):
    try: setattr(NP,k,getattr(_np,k))
    except Exception: pass
NP.random=SymRandom()
def arr(x,*a,**kw): return _np.array(x,dtype=object)
NP.array=arr
fac.np=NP
fac.scipy.linalg.expm=sym_expm

def trace(fn, scripts_bits):
    paths=[]
    for script in itertools.product([False,True],repeat=scripts_bits):
        DEC.script=list(script); DEC.log=[]; DEC.assumed=[]; REC.clear(); NP.random.n=0
        out=fn()
        if len(DEC.log)!=scripts_bits: raise RuntimeError(("decision count changed",len(DEC.log)))
        paths.append((list(DEC.log),list(DEC.assumed),dict(REC),out))
    return paths

if __name__=="__main__":
    f=fac.SingleQubitGateFactory(SymIntegrator())
    paths=trace(lambda: f.construct(V("theta"),V("phi"),V("p"),V("T1"),V("T2")),2)
    for log,assumed,rec,out in paths[:1]+paths[-1:]:
        print("PATH",[(repr(c[1]),repr(c[2]),v) for c,v in log])
        print(" samplers:",[(k,len(vs)) for k,vs,*_ in rec["samplers"]])
        print(" cov[0]:",rec["samplers"][0][3])
        print(" drift[0,1]:",rec["expm"][0][0,1])
        print(" gen[0,0]:",repr(rec["expm"][1][0,0])[:300])
    g=fac.CRFactory(SymIntegrator())
    paths=trace(lambda: g.construct(V("theta"),V("phi"),V("t_cr"),V("p_cr"),V("T1c"),V("T2c"),V("T1t"),V("T2t")),4)
    print("CR paths",len(paths),"assumed",[ (a[0],repr(a[1]),repr(a[2])) for a in paths[0][1]])
    print(" CR drift[2,2]:",repr(paths[0][2]["expm"][0][2,2])[:200])
    c=fac.CNOTInvFactory(SymIntegrator())
    # record constituent calls symbolically
    calls=[]
    class RecF:
        def __init__(s,n,d): s.n=n; s.d=d
        def construct(s,*a):
            calls.append((s.n,[repr(lift(x)) for x in a])); out=np.empty((s.d,s.d),dtype=object)
            for i in range(s.d):
                for j in range(s.d): out[i,j]=V(f"{s.n}{len(calls)}_{i}{j}")
            return out
    for attr,d in (("cr_c",4),("x_c",2),("sx_c",2),("single_qubit_gate_c",2),("relaxation_c",2)): setattr(c,attr,RecF(attr,d))
    DEC.script=[]; DEC.log=[]
    res=c.construct(V("phc"),V("pht"),V("t"),V("p2"),V("pc"),V("pt"),V("T1c"),V("T2c"),V("T1t"),V("T2t"))
    for cl in calls: print(" ",cl[0],cl[1][-3:] if cl[0]!="cr_c" else cl[1][2:])
    print(" result[0,0] =",repr(res[0,0])[:160],"...")
