import numpy as np, warnings, scipy.integrate, scipy.linalg
warnings.filterwarnings("ignore")
import quantum_gates._gates.factories as fac
from quantum_gates._gates.gates import Gates
from quantum_gates._gates.pulse import GaussianPulse, constant_pulse
captured=[]
orig=scipy.linalg.expm
def spy(A): captured.append(np.array(A)); return orig(A)
fac.scipy.linalg.expm=spy
tg=35e-9
for name,pulse in [('const',constant_pulse),('gauss',GaussianPulse(0.5,0.25))]:
    g=Gates(pulse); captured.clear()
    theta,phi,t_cr=np.pi/4,0.3,3e-7; a=t_cr/tg
    g.CR(theta,phi,t_cr,0.0,0,0,1e-5,0)   # only T1_trg
    drift=captured[0]
    F=pulse.get_parametrization()
    det1=scipy.integrate.quad(lambda t: np.sin(theta*F(t/a)/2)**2,0,a)[0]
    det3=scipy.integrate.quad(lambda t: np.cos(theta*F(t/a)/2)**2,0,a)[0]
    e1=np.sqrt(tg/1e-5)
    print(name,'code drift[0,0], [1,1]:',drift[0,0].real,drift[1,1].real,' pulse-shaped expected:',-e1**2/2*det1,-e1**2/2*det3)
