import numpy as np, warnings
warnings.filterwarnings("ignore")
from quantum_gates._simulation.backend import EfficientBackend
rng=np.random.default_rng(0)
def rm(d): return (rng.integers(-2,3,(d,d))+0j)
for (n,mn,opt,layer) in [(4,1,1,[rm(2),rm(4),1,rm(2)]),(5,1,2,[rm(2),rm(2),rm(2),rm(4),1]),(5,1,2,[rm(2),rm(2),rm(2),1,rm(4)]),(6,2,3,[rm(2)]*6),(4,2,2,[rm(2),1,rm(4),rm(2)]),(8,0,4,[rm(2)]*8)]:
    psi=rng.integers(-2,3,2**n)+0j
    try:
        out=EfficientBackend(n,mn,opt).statevector([layer],psi); print(n,mn,opt,'ok')
    except Exception as e: print(n,mn,opt,'RAISE',type(e).__name__,e)
