import numpy as np, warnings, scipy.linalg, scipy.integrate
warnings.filterwarnings("ignore")
import quantum_gates._gates.factories as fac
from quantum_gates._gates.gates import Gates
from quantum_gates._gates.pulse import GaussianPulse, constant_pulse
calls=[]
class FakeRandom:
    def multivariate_normal(self, mean, cov, n): calls.append(('mvn',np.array(mean,float),np.array(cov,float))); return np.zeros((1,len(mean)))
    def normal(self, m, s): calls.append(('n',m,s)); return 0.0
import numpy as _np
NP=type('NP',(),{})()
for k in dir(_np):
    try: setattr(NP,k,getattr(_np,k))
    except Exception: pass
NP.random=FakeRandom(); fac.np=NP
cap=[]; orig=scipy.linalg.expm
fac.scipy.linalg.expm=lambda A:(cap.append(np.array(A)), orig(A))[1]
tg=35e-9
def Q(f,a): return scipy.integrate.quad(f,0,a,epsabs=1e-13,epsrel=1e-13)[0]
def U1(th,ph): return np.array([[np.cos(th/2),-1j*np.sin(th/2)*np.exp(-1j*ph)],[-1j*np.sin(th/2)*np.exp(1j*ph),np.cos(th/2)]])
rng=np.random.default_rng(0); worst=0
for pulse in (constant_pulse, GaussianPulse(0.5,0.25), GaussianPulse(0.2,0.6)):
    F=pulse.get_parametrization(); g=Gates(pulse)
    for t in range(4):
        theta=rng.uniform(-3,3); phi=rng.uniform(-3,3); T1=rng.uniform(1e-6,1e-5)
        calls.clear(); cap.clear(); g.single_qubit_gate(theta,phi,0.01,T1,T1)
        th=lambda t: theta*F(t)
        g3=[lambda t: np.sin(th(t)), lambda t: np.sin(th(t)/2)**2, lambda t: 1.0]; g2=[lambda t: np.cos(th(t)), lambda t: np.sin(th(t))]
        for idx,(kind,mean,cov) in enumerate(calls):
            gs=g3 if len(mean)==3 else g2
            exp=np.array([[Q(lambda t: a_(t)*b_(t),1) for b_ in gs] for a_ in gs])
            worst=max(worst,np.abs(exp-cov).max())
        e1=np.sqrt(tg/T1); Sm=np.array([[0,1],[0,0]],complex); P1=Sm.conj().T@Sm
        exp_d=np.zeros((2,2),complex)
        for i in range(2):
            for j in range(2):
                exp_d[i,j]=-e1**2/2*(Q(lambda t:(U1(th(t),phi).conj().T@P1@U1(th(t),phi))[i,j].real,1)+1j*Q(lambda t:(U1(th(t),phi).conj().T@P1@U1(th(t),phi))[i,j].imag,1))
        worst=max(worst,np.abs(exp_d-cap[0]).max())
        # CR
        t_cr=rng.uniform(1.5e-7,4e-7); a=t_cr/tg; om=rng.uniform(0.2,2)*rng.choice([-1,1])
        calls.clear(); cap.clear(); g.CR(om,phi,t_cr,0.02,T1,T1,2*T1,T1)
        thc=lambda t: om*F(t/a)
        g3=[lambda t: np.sin(thc(t)), lambda t: np.sin(thc(t)/2)**2, lambda t: 1.0]; g2=[lambda t: np.cos(thc(t)), lambda t: np.sin(thc(t))]
        for kind,*rest in calls:
            if kind=='mvn':
                mean,cov=rest; gs=g3 if len(mean)==3 else g2
                exp=np.array([[Q(lambda t: a_(t)*b_(t),a) for b_ in gs] for a_ in gs]); worst=max(worst,np.abs(exp-cov).max())
            else:
                m,s=rest; worst=max(worst,abs(s-np.sqrt(a)))
        def UCR(x): 
            M=np.zeros((4,4),complex); M[:2,:2]=U1(x,phi); M[2:,2:]=U1(-x,phi); return M
        I2=np.eye(2); Lc=np.kron(Sm,I2); Lt=np.kron(I2,Sm); e1c=np.sqrt(tg/T1); e1t=np.sqrt(tg/(2*T1))
        exp_d=np.zeros((4,4),complex)
        for i in range(4):
            for j in range(4):
                f=lambda t:(-e1c**2/2*(UCR(thc(t)).conj().T@(Lc.conj().T@Lc)@UCR(thc(t)))-e1t**2/2*(UCR(thc(t)).conj().T@(Lt.conj().T@Lt)@UCR(thc(t))))[i,j]
                exp_d[i,j]=Q(lambda t:f(t).real,a)+1j*Q(lambda t:f(t).imag,a)
        worst=max(worst,np.abs(exp_d-cap[0]).max())
print('worst deviation (covariances, Wiener std, drifts):',worst)
