import numpy as np, warnings
warnings.filterwarnings("ignore")
from quantum_gates._gates.gates import standard_gates, numerical_gates, noise_free_gates, Gates, ScaledNoiseGates
from quantum_gates._gates.pulse import GaussianPulse
tg=35e-9
def pred(dim, taus_T1):  # taus_T1 list of (tau, T1)
    d=dim/2
    return np.exp(-(d/2)*sum(tau/T1 for tau,T1 in taus_T1 if T1!=0))
np.random.seed(0)
for name,g in [('std',standard_gates),('num',numerical_gates),('gauss',Gates(GaussianPulse(0.5,0.25)))]:
    T1c,T2c,T1t,T2t=50e-6,30e-6,80e-6,70e-6
    pc,pt,p2=1e-3,2e-3,1e-2
    t=300e-9
    rows=[]
    X=g.X(0.3,pc,T1c,T2c); rows.append(('X',np.linalg.det(X)/np.linalg.det(noise_free_gates.X(0.3,0,0,0)), pred(2,[(tg,T1c)])))
    S=g.single_qubit_gate(-1.1,0.3,pc,T1c,T2c); rows.append(('sq',np.linalg.det(S), pred(2,[(tg,T1c)])))
    CR=g.CR(0.7,0.2,t,p2,T1c,T2c,T1t,T2t); rows.append(('CR',np.linalg.det(CR),pred(4,[(t,T1c),(t,T1t)])))
    for nm,f,tau_c,tau_t in [('CNOT',g.CNOT,t,t),('CNOT_inv',g.CNOT_inv,t,t),('ECR',g.ECR,t-tg,t-tg),('ECR_inv',g.ECR_inv,t+tg,t+tg)]:
        G=f(0.4,0.9,t,p2,pc,pt,T1c,T2c,T1t,T2t)
        G0=getattr(noise_free_gates,nm)(0.4,0.9,t,0,0,0,0,0,0,0)
        rows.append((nm,np.linalg.det(G)/np.linalg.det(G0),pred(4,[(tau_c,T1c),(tau_t,T1t)])))
    R=g.relaxation(2e-7,T1c,T2c); rows.append(('relax',np.linalg.det(R),pred(2,[(2e-7,T1c)])))
    D=g.depolarizing(2e-7,pc); rows.append(('depol',np.linalg.det(D),1))
    B=g.bitflip(2e-7,0.02); rows.append(('bitflip',np.linalg.det(B),1))
    for r in rows: print(name, r[0], 'ratio-1 = %.3e'%abs(r[1]/r[2]-1), r[1], r[2])
