import numpy as np, warnings
warnings.filterwarnings("ignore")
from qiskit import QuantumCircuit
from quantum_gates._simulation.simulator import MrAndersonSimulator
from quantum_gates._simulation.circuit import EfficientCircuit
from quantum_gates._gates.gates import standard_gates
from par1 import devparam
if __name__=="__main__":
    qc=QuantumCircuit(2,2); qc.sx(0); qc.sx(1); qc.cx(0,1); qc.measure(0,0); qc.measure(1,1)
    psi0=np.zeros(4); psi0[0]=1
    out=[]
    for rep in range(2):
        np.random.seed(123)
        sim=MrAndersonSimulator(gates=standard_gates, CircuitClass=EfficientCircuit, parallel=True)
        out.append(sim.run(t_qiskit_circ=qc, qubits_layout=[0,1], psi0=psi0, shots=30, device_param=devparam(2), nqubit=2))
    print('parallel reproducible under seed (up to summation order):', all(abs(out[0][k]-out[1][k])<1e-12 for k in out[0]))
