import numpy as np, warnings
warnings.filterwarnings("ignore")
from quantum_gates._gates.gates import noise_free_gates as g
CNOT=np.array([[1,0,0,0],[0,1,0,0],[0,0,0,1],[0,0,1,0]],dtype=complex)   # control = first (MSB)
CNOTr=np.array([[1,0,0,0],[0,0,0,1],[0,0,1,0],[0,1,0,0]],dtype=complex)  # control = second
ECR=np.array([[0,0,1,1j],[0,0,1j,1],[1,-1j,0,0],[-1j,1,0,0]])/np.sqrt(2)  # qiskit ecr(q0=ctrl,q1)? check below
from qiskit.circuit.library import ECRGate
from qiskit import QuantumCircuit
from qiskit.quantum_info import Operator
qc=QuantumCircuit(2); qc.ecr(1,0)   # big-endian: first slot = qubit 1 as control
ECRb=Operator(qc).data
qc=QuantumCircuit(2); qc.ecr(0,1)
ECRr=Operator(qc).data
P=lambda a: np.diag([1,np.exp(1j*a)])
def phase_eq(A,B):
    k=np.argmax(np.abs(B)); z=A.flat[k]/B.flat[k]
    return np.allclose(A,z*B) and abs(abs(z)-1)<1e-9, z
rng=np.random.default_rng(0)
for _ in range(3):
    a,b=rng.uniform(-3,3,2)
    M=g.CNOT(a,b,1e-7,0,0,0,0,0,0,0)
    print('CNOT', phase_eq(M, np.kron(P(a-np.pi/2),P(b)).conj().T@CNOT@np.kron(P(a),P(b))))
    # CNOT_inv(phi_ctr=a (higher index qubit i), phi_trg=b (lower k)); matrix on (k,i) slots; after: phi_i += 3pi/2, phi_k += pi/2
    M=g.CNOT_inv(a,b,1e-7,0,0,0,0,0,0,0)
    print('CNOT_inv', phase_eq(M, np.kron(P(b+np.pi/2),P(a+3*np.pi/2)).conj().T@CNOTr@np.kron(P(b),P(a))))
    M=g.ECR(a,b,1e-7,0,0,0,0,0,0,0)
    print('ECR', phase_eq(M, np.kron(P(a),P(b)).conj().T@ECRb@np.kron(P(a),P(b))))
    M=g.ECR_inv(a,b,1e-7,0,0,0,0,0,0,0)   # a = phase first slot (lower idx, instruction target), b = second slot (instr control)
    print('ECR_inv', phase_eq(M, np.kron(P(a),P(b)).conj().T@ECRr@np.kron(P(a),P(b))))
