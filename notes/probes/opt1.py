import numpy as np, copy, traceback, warnings
warnings.filterwarnings("ignore")
from quantum_gates._utility.circ_optimizer import Optimizer
from quantum_gates._simulation.backend import BinaryBackend
rng = np.random.default_rng(1)
def rm(d): return rng.integers(-2,3,(d,d)) + 1j*rng.integers(-2,3,(d,d))
def apply_ref(items, psi, n):
    psi = psi.copy().reshape([2]*n)
    for M,q in items:
        q=[x for x in q if x!=-1]
        if len(q)==1:
            psi = np.moveaxis(np.tensordot(M, psi, axes=([1],[q[0]])),0,q[0])
        else:
            M4=M.reshape(2,2,2,2)
            psi = np.moveaxis(np.tensordot(M4, psi, axes=([2,3],[q[0],q[1]])),[0,1],[q[0],q[1]])
    return psi.reshape(-1)
def trial(pattern, n, level=4):
    items=[[rm(2**len(q)), list(q)] for q in pattern]
    psi=rng.integers(-2,3,2**n)+1j*rng.integers(-2,3,2**n)
    ref=apply_ref(items,psi,n)
    try:
        out=Optimizer(level, copy.deepcopy(items), list(range(n))).optimize()
        got=apply_ref(out,psi,n)
        return "OK" if np.allclose(got,ref) else "WRONG", len(out)
    except Exception as e:
        return "RAISE "+type(e).__name__+": "+str(e), None
print(trial([[0,1],[0],[0]],2))
print(trial([[0],[0],[0]],2))
print(trial([[1],[0,1],[2]],3))
print(trial([[1],[2],[1]],3))
print(trial([[0],[2],[0]],3))
# exhaustive small
import itertools
n=3
pats=[[q] for q in range(n)]+[[a,b] for a in range(n) for b in range(n) if a!=b]
from collections import Counter
for L in (3,4):
    c=Counter(); ex={}
    for combo in itertools.product(pats, repeat=L):
        for lvl in (1,2,3,4):
            r,_=trial(list(combo), n, lvl)
            key=(lvl, r.split(':')[0])
            c[key]+=1
            ex.setdefault(key, combo)
    for k in sorted(c): print(L,k,c[k],ex[k])
