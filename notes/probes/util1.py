import numpy as np, warnings, os, tempfile, sys, time
warnings.filterwarnings("ignore")
from quantum_gates._utility.simulations_utility import (perform_parallel_simulation, perform_parallel_simulation_with_multiprocessing,
    mock_perform_parallel_simulation, post_process_split, fix_counts, compute_Hellinger_distance)
D=tempfile.mkdtemp()
def simjob(arg):
    open(os.path.join(D,f"job_{arg}_{os.getpid()}_{time.time_ns()}"),'w').close()
    return (0.1, arg)
if __name__=="__main__":
    for name,f in [('executor',perform_parallel_simulation),('pool',perform_parallel_simulation_with_multiprocessing),('mock',mock_perform_parallel_simulation)]:
        for fn in os.listdir(D): os.remove(os.path.join(D,fn))
        try:
            f(list(range(7)), simjob, 3); r='returned'
        except Exception as e: r='RAISE %s: %s'%(type(e).__name__,e)
        calls=sorted(int(fn.split('_')[1]) for fn in os.listdir(D))
        print(name, r, calls)
    # post_process_split with partially existing targets
    T=tempfile.mkdtemp()
    src=[os.path.join(T,f"s{i}.txt") for i in range(4)]
    for i,s in enumerate(src): np.savetxt(s, np.array([i,2*i,1.0]))
    tg=[os.path.join(T,"t0.txt"),os.path.join(T,"t1.txt")]
    np.savetxt(tg[0], np.array([9.,9.,9.]))
    try:
        post_process_split(src,tg,2); print('split: returned; t0 now', np.loadtxt(tg[0]), 't1', np.loadtxt(tg[1]))
    except AssertionError as e: print('split: AssertionError',e)
