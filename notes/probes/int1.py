import numpy as np, warnings, scipy.integrate
warnings.filterwarnings("ignore")
from quantum_gates._gates.integrator import Integrator
from quantum_gates._gates.pulse import GaussianPulse, constant_pulse, constant_pulse_numerical
gp=GaussianPulse(0.5,0.25)
I=Integrator(gp); F=gp.get_parametrization()
Ic=Integrator(constant_pulse); In=Integrator(constant_pulse_numerical)
g={"sin(theta/a)**2": lambda x: np.sin(x)**2,
 "sin(theta/(2*a))**4": lambda x: np.sin(x/2)**4,
 "sin(theta/a)*sin(theta/(2*a))**2": lambda x: np.sin(x)*np.sin(x/2)**2,
 "sin(theta/(2*a))**2": lambda x: np.sin(x/2)**2,
 "cos(theta/a)**2": lambda x: np.cos(x)**2,
 "sin(theta/a)*cos(theta/a)": lambda x: np.sin(x)*np.cos(x),
 "sin(theta/a)": lambda x: np.sin(x),
 "cos(theta/(2*a))**2": lambda x: np.cos(x/2)**2}
for a in (1.0, 3.3):
  for theta in (np.pi/4, -np.pi/4, 2.0):
    for k,f in g.items():
        ref=scipy.integrate.quad(lambda t: f(theta*F(t/a)),0,a,epsabs=1e-13,epsrel=1e-13)[0]
        got=I.integrate(k,theta,a)
        refc=scipy.integrate.quad(lambda t: f(theta*(t/a)),0,a,epsabs=1e-13,epsrel=1e-13)[0]
        print(f"a={a} th={theta:+.3f} {k:34s} gauss: got {got:+.6f} ref {ref:+.6f} {'OK' if abs(got-ref)<1e-7 else 'DIFF'} | const: lookup {Ic.integrate(k,theta,a):+.6f} num {In.integrate(k,theta,a):+.6f} ref {refc:+.6f}")
for th in (0.0, 0, 1e-12, -1e-9):
    for k in g:
        try: v=Ic.integrate(k,th,1.0)
        except Exception as e: v=type(e).__name__
        print(th,k,v, In.integrate(k,th,1.0))
