import numpy as np, warnings, copy
warnings.filterwarnings("ignore")
from qiskit import QuantumCircuit
from qiskit.quantum_info import Statevector, Operator
from quantum_gates._simulation.simulator import MrAndersonSimulator
from quantum_gates._simulation.circuit import Circuit, StandardCircuit, EfficientCircuit, OneCircuit, BinaryCircuit
from quantum_gates._gates.gates import noise_free_gates, standard_gates
from quantum_gates._utility.quantum_algorithms import hadamard_reverse_qft_circ, ghz_circ, qft_circ
def devparam(nmax):
    return {"T1":np.full(nmax,1e-4),"T2":np.full(nmax,1e-4),"p":np.full(nmax,1e-3),"rout":np.full(nmax,1e-2),
            "p_int":np.full((nmax,nmax),1e-2),"t_int":np.full((nmax,nmax),3e-7),"tm":np.full(nmax,1e-6),"dt":np.array([2.2e-10])}
n=2
qc=QuantumCircuit(n,n); qc.sx(0); qc.cx(0,1); qc.sx(1); qc.measure(0,0); qc.measure(1,1)
psi0=np.zeros(4); psi0[0]=1
sim=MrAndersonSimulator(gates=standard_gates, CircuitClass=EfficientCircuit)
def attempt(label, **kw):
    args=dict(t_qiskit_circ=qc, qubits_layout=[0,1], psi0=psi0, shots=3, device_param=devparam(2), nqubit=2); args.update(kw)
    try:
        r=sim.run(**args); print(label,'->',{k:round(float(v),4) for k,v in r.items()}, 'sum',sum(r.values()))
    except Exception as e: print(label,'-> RAISE',type(e).__name__,str(e)[:80])
attempt('valid')
attempt('psi0 len 8', psi0=np.zeros(8))
attempt('psi0 len 2, nqubit 1', psi0=np.array([1.,0]), nqubit=1)
attempt('shots 0', shots=0)
attempt('shots 2.0', shots=2.0)
attempt('shots True', shots=True)
attempt('shots np.int64(3)', shots=np.int64(3))
attempt('nqubit 3 psi 8', psi0=np.eye(8)[0], nqubit=3)
attempt('devparam too small', device_param=devparam(1))
attempt('devparam list', device_param=[1,2])
qc2=QuantumCircuit(n,n); qc2.sx(0); qc2.cx(0,1)
attempt('no measure', t_qiskit_circ=qc2)
attempt('psi0 list', psi0=[1,0,0,0])
attempt('psi0 zeros', psi0=np.zeros(4))
# C18 quick
for gen in (hadamard_reverse_qft_circ, ghz_circ, qft_circ):
    for k in (1,2,3,5):
        c=gen(k); c2=c.remove_final_measurements(inplace=False)
        p=np.abs(Statevector.from_instruction(c2).data)**2
        print(gen.__name__,k, np.round(p[[0,-1]],6), [ (i.operation.name, [q._index for q in i.qubits],[b._index for b in i.clbits]) for i in c.data if i.operation.name=='measure'][:3])
