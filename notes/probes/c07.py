import numpy as np, warnings
warnings.filterwarnings("ignore")
from quantum_gates._gates.gates import standard_gates, numerical_gates, noise_free_gates, Gates, ScaledNoiseGates
from quantum_gates._gates.pulse import GaussianPulse
rng=np.random.default_rng(0)
sets={'std':standard_gates,'num':numerical_gates,'gauss':Gates(GaussianPulse(0.5,0.25)),'gauss2':Gates(GaussianPulse(0.2,0.1)),'scaled':ScaledNoiseGates(0.3),'scaledG':ScaledNoiseGates(2.0,GaussianPulse(0.7,0.4))}
worst={}
def upd(k,v): worst[k]=max(worst.get(k,0),v)
for name,g in sets.items():
    for t in range(30):
        phc,pht=rng.uniform(-7,7,2); th=rng.choice([0.0,-0.0,1e-9,rng.uniform(-7,7)]); tt=rng.uniform(1.5e-7,6e-7)
        nf=noise_free_gates
        pairs=[('X',g.X(phc,0,0,0),nf.X(phc,0,0,0)),('SX',g.SX(phc,0,0,0),nf.SX(phc,0,0,0)),
               ('sq',g.single_qubit_gate(th,phc,0,0,0),nf.single_qubit_gate(th,phc,0,0,0)),
               ('CNOT',g.CNOT(phc,pht,tt,0,0,0,0,0,0,0),nf.CNOT(phc,pht,tt,0,0,0,0,0,0,0)),
               ('CNOT_inv',g.CNOT_inv(phc,pht,tt,0,0,0,0,0,0,0),nf.CNOT_inv(phc,pht,tt,0,0,0,0,0,0,0)),
               ('ECR',g.ECR(phc,pht,tt,0,0,0,0,0,0,0),nf.ECR(phc,pht,tt,0,0,0,0,0,0,0)),
               ('ECR_inv',g.ECR_inv(phc,pht,tt,0,0,0,0,0,0,0),nf.ECR_inv(phc,pht,tt,0,0,0,0,0,0,0)),
               ('relax',g.relaxation(tt,0,0),np.eye(2)),('depol',g.depolarizing(tt,0),np.eye(2)),('bitflip',g.bitflip(tt,0),np.eye(2))]
        thc=rng.choice([1e-9, rng.uniform(-3,3)])
        if hasattr(g,'CR'): pairs.append(('CR',g.CR(thc,phc,tt,0,0,0,0,0),nf.CR(thc,phc,tt,0,0,0,0,0)))
        for nm,a,b in pairs:
            d=np.abs(np.asarray(a)-np.asarray(b)).max()
            if not np.isfinite(d): d=9e9
            upd((name,nm,'zero'),d)
        # unitary with T1=0, others on
        p=rng.uniform(0,0.05); T2=rng.uniform(1e-6,1e-4); pc=rng.uniform(0,0.05)
        us=[('X',g.X(phc,p,0,T2)),('sq',g.single_qubit_gate(th,phc,p,0,T2)),('CNOT',g.CNOT(phc,pht,tt,pc+0.3,p,p/2,0,T2,0,T2/2)),('CNOT_inv',g.CNOT_inv(phc,pht,tt,pc+0.3,p,p/2,0,T2,0,T2/2)),
            ('ECR',g.ECR(phc,pht,tt,pc+0.3,p,p/2,0,T2,0,T2/2)),('ECR_inv',g.ECR_inv(phc,pht,tt,pc+0.3,p,p/2,0,T2,0,T2/2)),('relax',g.relaxation(tt,0,T2)),('depol',g.depolarizing(tt,p)),('bitflip',g.bitflip(tt,0.03))]
        for nm,a in us:
            a=np.asarray(a); d=np.abs(a.conj().T@a-np.eye(len(a))).max()
            if not np.isfinite(d): d=9e9
            upd((name,nm,'unit'),d)
bad={k:v for k,v in worst.items() if v>1e-12}
print('max dev overall', max(worst.values())); print('entries >1e-12:',bad)
