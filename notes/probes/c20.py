import numpy as np, warnings, io, contextlib
warnings.filterwarnings("ignore")
from quantum_gates._utility.device_parameters import DeviceParameters
from qiskit_ibm_runtime import fake_provider
from qiskit_ibm_runtime.fake_provider.fake_backend import FakeBackendV2
from qiskit_ibm_runtime.models import BackendProperties, BackendConfiguration
from collections import Counter
rng=np.random.default_rng(0)
names=[n for n in dir(fake_provider) if n.startswith('Fake') and n not in ('FakeProviderForBackendV2','FakeProviderFactory')]
c=Counter()
for nm in names:
    b=getattr(fake_provider,nm)()
    if not isinstance(b,FakeBackendV2): continue
    b._set_props_dict_from_json()
    prop=BackendProperties.from_dict(b._props_dict); conf=BackendConfiguration.from_dict(b._conf_dict)
    nq=conf.n_qubits
    native=None
    for x in conf.basis_gates:
        if x in('ecr','cx'): native=x; break
    for t in range(4):
        k=int(rng.integers(1,min(nq,6)+1)); layout=[int(q) for q in rng.choice(nq,k,replace=False)]
        dp=DeviceParameters(layout)
        try:
            with contextlib.redirect_stdout(io.StringIO()): dp.load_from_backend(b)
        except Exception as e:
            c[('raise',type(e).__name__, native)]+=1; continue
        d=dp.__dict__()
        ok = all(d['T1'][i]==prop.t1(q) and d['T2'][i]==prop.t2(q) and d['p'][i]==prop.gate_error('x',[q]) and d['rout'][i]==prop.readout_error(q) and d['tm'][i]==prop.readout_length(q) for i,q in enumerate(layout))
        ok = ok and d['dt']==[conf.dt]
        m=max(layout)+1
        ok = ok and d['p_int'].shape==(m,m)==d['t_int'].shape
        gp=prop.gate_property(native)
        exp_p=np.zeros((m,m)); exp_t=np.zeros((m,m))
        for (i,j),v in gp.items():
            if i<m and j<m: exp_p[i,j]=v['gate_error'][0]; exp_t[i,j]=v['gate_length'][0]
        ok = ok and np.array_equal(exp_p,d['p_int']) and np.array_equal(exp_t,d['t_int'])
        c[('ok' if ok else 'BAD', native)]+=1
        if not ok: print(nm,layout)
for k in sorted(c,key=str): print(k,c[k])
