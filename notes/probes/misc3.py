import numpy as np, warnings, copy, os, tempfile, io, contextlib, pickle
warnings.filterwarnings("ignore")
from qiskit import QuantumCircuit
from quantum_gates._simulation.simulator import MrAndersonSimulator
from quantum_gates._simulation.circuit import Circuit, StandardCircuit, EfficientCircuit, OneCircuit, BinaryCircuit
from quantum_gates._simulation.backend import BinaryBackend
from quantum_gates._gates.gates import standard_gates, Gates
from quantum_gates._gates.pulse import GaussianPulse
from quantum_gates._utility.device_parameters import DeviceParameters
from quantum_gates._utility.simulations_utility import post_process_split
rng=np.random.default_rng(4)
def devparam(n):
    return {"T1":rng.uniform(2e-6,2e-5,n),"T2":rng.uniform(1e-6,2e-6,n),"p":rng.uniform(1e-3,5e-2,n),"rout":rng.uniform(1e-2,0.3,n),
            "p_int":rng.uniform(0.2,0.4,(n,n)),"t_int":rng.uniform(2e-7,6e-7,(n,n)),"tm":rng.uniform(1e-6,5e-6,n),"dt":np.array([2.2e-10])}
# (a),(b) purity + seeded reproducibility
n=3; qc=QuantumCircuit(n,n); qc.sx(0); qc.rz(0.3,1); qc.cx(0,1); qc.ecr(2,1); qc.delay(50,2); qc.x(2)
for q in range(n): qc.measure(q,q)
dp=devparam(n); psi0=np.zeros(8,complex); psi0[0]=1
g=Gates(GaussianPulse(0.5,0.25))
for C in (Circuit,StandardCircuit,EfficientCircuit,OneCircuit,BinaryCircuit):
    sim=MrAndersonSimulator(gates=g,CircuitClass=C)
    snap=(pickle.dumps([ (i.operation.name,list(i.operation.params),[q._index for q in i.qubits]) for i in qc.data]), pickle.dumps(dp), psi0.copy(), len(g.integrator._cache))
    np.random.seed(7); r1=sim.run(t_qiskit_circ=qc,qubits_layout=[0,1,2],psi0=psi0,shots=3,device_param=dp,nqubit=n)
    np.random.seed(7); r2=sim.run(t_qiskit_circ=qc,qubits_layout=[0,1,2],psi0=psi0,shots=3,device_param=dp,nqubit=n)
    same=all(r1[k]==r2[k] for k in r1)
    pure=(snap[0]==pickle.dumps([ (i.operation.name,list(i.operation.params),[q._index for q in i.qubits]) for i in qc.data]) and snap[1]==pickle.dumps(dp) and np.array_equal(snap[2],psi0))
    print(C.__name__,'seeded repeat identical:',same,' inputs untouched:',pure,' gate-set cache size before/after:',snap[3],len(g.integrator._cache))
# (d) extreme floats
layout=[0,3]
dp=DeviceParameters(layout)
vals=np.array([5e-324,1.7976931348623157e308]); 
dp.T1=np.array([np.inf,-0.0]); dp.T2=vals; dp.p=np.array([np.nan,1e-300]); dp.rout=np.array([0.1,1/3]); dp.tm=np.array([2.**-1074,3.0])
dp.p_int=rng.random((4,4)); dp.t_int=rng.random((4,4))*1e-7; dp.dt=[2.2222222222222221e-10]; dp.metadata={"a":1}
for fmt in ('json','txt'):
    T=tempfile.mkdtemp()+'/'
    with contextlib.redirect_stdout(io.StringIO()):
        (dp.save_to_json if fmt=='json' else dp.save_to_texts)(T)
        d2=DeviceParameters(layout); (d2.load_from_json if fmt=='json' else d2.load_from_texts)(T)
    bits=lambda a: np.asarray(a,dtype=np.float64).tobytes()
    ok=all(bits(getattr(dp,k))==bits(getattr(d2,k)) and np.shape(getattr(dp,k))==np.shape(getattr(d2,k)) for k in ('T1','T2','p','rout','tm','p_int','t_int','dt'))
    print('extreme floats',fmt,'bit-identical:',ok,' __eq__:',dp==d2)
# (e) merge
T=tempfile.mkdtemp(); k,split=3,3
src=[os.path.join(T,f"s{i}.txt") for i in range(k*split)]; arrs=[rng.random(8) for _ in src]
for s,a in zip(src,arrs): np.savetxt(s,a)
before={s:open(s,'rb').read() for s in src}
tg=[os.path.join(T,f"t{j}.txt") for j in range(k)]
post_process_split(src,tg,split)
ok=all(np.array_equal(np.loadtxt(tg[j]), (arrs[3*j]+arrs[3*j+1]+arrs[3*j+2])/3) for j in range(k)) and all(open(s,'rb').read()==before[s] for s in src) and sorted(os.listdir(T))==sorted([os.path.basename(x) for x in src+tg])
print('merge k=3 split=3 exact float mean, sources untouched, no extra files:',ok)
# (g) BinaryBackend random lists vs reference
from opt2 import apply_ref
bad=0
for t in range(300):
    nn=int(rng.integers(1,8)); L=int(rng.integers(1,20))
    pats=[[q] for q in range(nn)]+[[a,b] for a in range(nn) for b in range(nn) if a!=b]
    items=[]
    for _ in range(L):
        q=pats[rng.integers(len(pats))]
        M=np.zeros((2**len(q),)*2,complex); perm=rng.permutation(2**len(q))
        for i,j in enumerate(perm): M[i,j]=rng.choice([1,-1,1j,-1j])
        items.append([M,list(q)])
    psi=(rng.integers(-2,3,2**nn)+1j*rng.integers(-2,3,2**nn)).astype(complex)
    ref=apply_ref(items,psi,nn)
    try: out=BinaryBackend(nn).statevector(copy.deepcopy(items),psi); bad+= not np.array_equal(np.asarray(out).ravel(),ref)
    except Exception as e: bad+=1; print('raise',type(e).__name__,e)
print('BinaryBackend random lists mismatches:',bad,'/300')
