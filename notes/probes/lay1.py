import numpy as np, warnings
warnings.filterwarnings("ignore")
from qiskit import QuantumCircuit
from quantum_gates._simulation.simulator import MrAndersonSimulator
from quantum_gates._simulation.circuit import EfficientCircuit, BinaryCircuit
from quantum_gates._gates.gates import noise_free_gates
def devparam(nmax):
    return {"T1":np.full(nmax,1e-4),"T2":np.full(nmax,1e-4),"p":np.full(nmax,1e-3),"rout":np.full(nmax,1e-2),
            "p_int":np.full((nmax,nmax),1e-2),"t_int":np.full((nmax,nmax),3e-7),"tm":np.full(nmax,1e-6),"dt":np.array([2.2e-10])}
# qubit 1 touched first; X on qubit 1 only; measure q0->c0, q1->c1
qc=QuantumCircuit(2,2); qc.x(1); qc.rz(0.1,0); qc.measure(0,0); qc.measure(1,1)
psi0=np.array([1.,0,0,0])
for C in (EfficientCircuit,BinaryCircuit):
    r=MrAndersonSimulator(gates=noise_free_gates,CircuitClass=C).run(t_qiskit_circ=qc,qubits_layout=[0,1],psi0=psi0,shots=1,device_param=devparam(2),nqubit=2)
    print(C.__name__,'|00>, x(1) first-touched: expect key "01" (q0=0,q1=1):',{k:round(float(v),3) for k,v in r.items()})
# psi0 = |1>_q0 |0>_q1  (ascending order, MSB first) ; circuit touches q1 first with rz only
qc=QuantumCircuit(2,2); qc.rz(0.3,1); qc.rz(0.1,0); qc.measure(0,0); qc.measure(1,1)
psi0=np.array([0,0,1.,0])   # q0=1,q1=0
for C in (EfficientCircuit,BinaryCircuit):
    r=MrAndersonSimulator(gates=noise_free_gates,CircuitClass=C).run(t_qiskit_circ=qc,qubits_layout=[0,1],psi0=psi0,shots=1,device_param=devparam(2),nqubit=2)
    print(C.__name__,'psi0=|q0=1,q1=0>, q1 touched first: expect "10":',{k:round(float(v),3) for k,v in r.items()})
