import numpy as np, copy, itertools, sys, warnings
warnings.filterwarnings("ignore")
from collections import Counter
sys.path.insert(0,'/tmp/scratch')
from optfix import Optimizer
rng = np.random.default_rng(1)
def rm(d): return rng.integers(-2,3,(d,d)) + 1j*rng.integers(-2,3,(d,d))
def apply_ref(items, psi, n):
    psi = psi.copy().reshape([2]*n)
    for M,q in items:
        q=[x for x in q if x!=-1]
        if len(q)==1:
            psi = np.moveaxis(np.tensordot(M, psi, axes=([1],[q[0]])),0,q[0])
        else:
            M4=M.reshape(2,2,2,2)
            psi = np.moveaxis(np.tensordot(M4, psi, axes=([2,3],[q[0],q[1]])),[0,1],[q[0],q[1]])
    return psi.reshape(-1)
def trial(pattern, n, level=4):
    items=[[rm(2**len(q)), list(q)] for q in pattern]
    psi=rng.integers(-2,3,2**n)+1j*rng.integers(-2,3,2**n)
    ref=apply_ref(items,psi,n)
    try:
        out=Optimizer(level, copy.deepcopy(items), list(range(n))).optimize()
        got=apply_ref(out,psi,n)
        if len(out)>len(items): return "LONGER"
        return "OK" if np.allclose(got,ref) else "WRONG"
    except Exception as e:
        return "RAISE "+type(e).__name__
if __name__=="__main__":
  n=int(sys.argv[1]); Ls=[int(x) for x in sys.argv[2:]]
  pats=[[q] for q in range(n)]+[[a,b] for a in range(n) for b in range(n) if a!=b]
  for L in Ls:
      c=Counter(); ex={}
      for combo in itertools.product(pats, repeat=L):
          for lvl in (1,2,3,4):
              r=trial(list(combo), n, lvl)
              c[(lvl,r)]+=1; ex.setdefault((lvl,r), combo)
      for k in sorted(c): print(n,L,k,c[k],ex[k] if k[1]!='OK' else '')
  