import numpy as np, warnings, itertools
warnings.filterwarnings("ignore")
from qiskit import QuantumCircuit
from quantum_gates._simulation.simulator import MrAndersonSimulator
from quantum_gates._simulation.circuit import Circuit, StandardCircuit, EfficientCircuit, OneCircuit, BinaryCircuit
from quantum_gates._gates.gates import standard_gates, Gates
from quantum_gates._gates.pulse import GaussianPulse
from collections import Counter
rng=np.random.default_rng(2)
def devparam(n):
    return {"T1":rng.uniform(2e-6,2e-5,n),"T2":rng.uniform(1e-6,2e-6,n),"p":rng.uniform(1e-3,5e-2,n),"rout":rng.uniform(1e-2,0.3,n),
            "p_int":rng.uniform(0.2,0.4,(n,n)),"t_int":rng.uniform(2e-7,6e-7,(n,n)),"tm":rng.uniform(1e-6,5e-6,n),"dt":np.array([2.2e-10])}
c=Counter()
gs=[standard_gates, Gates(GaussianPulse(0.5,0.25))]
for trial in range(40):
    n=int(rng.integers(1,5)); qc=QuantumCircuit(n,n)
    for q in rng.permutation(n): qc.rz(0.1,int(q))
    for _ in range(int(rng.integers(0,10))):
        r=rng.random()
        if r<0.3: qc.rz(float(rng.uniform(-3,3)), int(rng.integers(n)))
        elif r<0.5: qc.sx(int(rng.integers(n)))
        elif r<0.6: qc.x(int(rng.integers(n)))
        elif r<0.7: qc.delay(int(rng.integers(1,1000)), int(rng.integers(n)))
        elif n>1:
            a=int(rng.integers(n-1)); b=a+1
            if rng.random()<.5: a,b=b,a
            getattr(qc,rng.choice(['cx','ecr']))(a,b)
    meas=sorted(set(int(q) for q in rng.choice(n,int(rng.integers(1,n+1)),replace=False)))
    for k,q in enumerate(meas): qc.measure(q,k)
    psi0=rng.normal(size=2**n)+1j*rng.normal(size=2**n); psi0/=np.linalg.norm(psi0)
    for C in (Circuit,StandardCircuit,EfficientCircuit,OneCircuit,BinaryCircuit):
        g=gs[trial%2]
        try:
            res=MrAndersonSimulator(gates=g,CircuitClass=C).run(t_qiskit_circ=qc,qubits_layout=list(range(n)),psi0=psi0,shots=int(rng.integers(1,4)),device_param=devparam(n),nqubit=n)
            keys=set(''.join(b) for b in itertools.product('01',repeat=len(meas)))
            ok=set(res)==keys and all(v>=0 for v in res.values()) and abs(sum(res.values())-1)<1e-12
            c[(C.__name__,'OK' if ok else 'BAD')]+=1
            if not ok: print(C.__name__,res)
        except Exception as e:
            c[(C.__name__,'RAISE '+type(e).__name__+' '+str(e)[:60])]+=1
for k in sorted(c): print(k,c[k])
