import numpy as np, copy, sys, warnings, functools as ft
warnings.filterwarnings("ignore")
from quantum_gates._simulation.backend import StandardBackend, EfficientBackend, BackendForOnes, BinaryBackend
from collections import Counter
rng=np.random.default_rng(3)
def rm(d): return (rng.integers(-2,3,(d,d)) + 1j*rng.integers(-2,3,(d,d))).astype(complex)
def gen_layer(n, pid=0.3, p2=0.3):
    layer=[]; slots=[]  # slots: list of (matrix, [qubits])
    q=0
    while q<n:
        if q+1<n and rng.random()<p2:
            M=rm(4)
            if rng.random()<0.5: layer += [M,1]
            else: layer += [1,M]
            slots.append((M,[q,q+1])); q+=2
        else:
            if rng.random()<pid:
                M=np.eye(2) if rng.random()<0.5 else np.array([[1,0],[0,1]])
            else: M=rm(2)
            layer.append(M); slots.append((M,[q])); q+=1
    return layer, slots
def ref(layers_slots, psi, n):
    psi=psi.copy().reshape([2]*n)
    for slots in layers_slots:
        for M,q in slots:
            if len(q)==1:
                psi=np.moveaxis(np.tensordot(M,psi,axes=([1],[q[0]])),0,q[0])
            else:
                psi=np.moveaxis(np.tensordot(M.reshape(2,2,2,2),psi,axes=([2,3],q)),[0,1],q)
    return psi.reshape(-1)
if __name__=='__main__':
    c=Counter()
    if __name__!="__main__": raise SystemExit if False else None
    for n in list(range(1,14)):
        for t in range(30 if n<11 else 6):
            d=int(rng.integers(1,4))
            L=[gen_layer(n, pid=rng.choice([0,0.3,0.7,1.0])) for _ in range(d)]
            layers=[l for l,_ in L]; slots=[s for _,s in L]
            psi=(rng.integers(-2,3,2**n)+1j*rng.integers(-2,3,2**n)).astype(complex)
            psi_copy=psi.copy()
            r=ref(slots,psi,n)
            bes={'Std':StandardBackend(n) if n<=10 else None,'Eff':EfficientBackend(n),'Eff23':EfficientBackend(n,2,3) ,'Ones':BackendForOnes(n)}
            for name,b in bes.items():
                if b is None: continue
                try:
                    out=b.statevector(copy.deepcopy(layers) if False else layers, psi)
                    ok=np.array_equal(np.asarray(out,dtype=complex),r)
                    res='OK' if ok else ('CLOSE' if np.allclose(out,r) else 'WRONG')
                except Exception as e:
                    res='RAISE '+type(e).__name__+' '+str(e)[:60]
                c[(name,n,res)]+=1
                if not np.array_equal(psi,psi_copy): c[(name,n,'MUTATED')]+=1
            # binary backend item by item
            items=[[M,list(q)] for s in slots for M,q in s]
            try:
                out=BinaryBackend(n).statevector(items,psi)
                res='OK' if np.array_equal(np.asarray(out,dtype=complex),r) else ('CLOSE' if np.allclose(out,r) else 'WRONG')
            except Exception as e:
                res='RAISE '+type(e).__name__+' '+str(e)[:60]
            c[('Bin',n,res)]+=1
    for k in sorted(c): 
        if k[2]!='OK': print(k,c[k])
    print(sum(v for k,v in c.items() if k[2]=='OK'),'OK')
    