import numpy as np, warnings, scipy.linalg
warnings.filterwarnings("ignore")
import quantum_gates._gates.factories as fac
from quantum_gates._gates.gates import Gates
from quantum_gates._gates.pulse import constant_pulse
X=np.array([[0,1],[1,0]],dtype=complex); Y=np.array([[0,-1j],[1j,0]]); Z=np.diag([1.,-1]).astype(complex); I2=np.eye(2,dtype=complex)
Sm=np.array([[0,1],[0,0]],dtype=complex)
def U1(th,ph): return np.array([[np.cos(th/2),-1j*np.sin(th/2)*np.exp(-1j*ph)],[-1j*np.sin(th/2)*np.exp(1j*ph),np.cos(th/2)]])
def UCR(th,ph): 
    M=np.zeros((4,4),complex); M[:2,:2]=U1(th,ph); M[2:,2:]=U1(-th,ph); return M
cap=[]; orig=scipy.linalg.expm
fac.scipy.linalg.expm=lambda A:(cap.append(np.array(A)), orig(A))[1]
queue=[]
class FakeRandom:
    def multivariate_normal(self, mean, cov, n): 
        v=queue.pop(0); assert len(v)==len(mean),(v,mean); return np.array([v],dtype=float)
    def normal(self, m, s): 
        v=queue.pop(0); assert len(v)==1; return float(v[0])
fac.np=type('NP',(),{})()
import numpy as _np
for k in dir(_np):
    try: setattr(fac.np,k,getattr(_np,k))
    except Exception: pass
fac.np.random=FakeRandom()
g=Gates(constant_pulse); tg=35e-9
rng=np.random.default_rng(0)
worst=0
# single-qubit: calls: X(3) Y(3) Z(2) sm(3) Zp(2) ; sample vectors: (I(sin th), I(sin^2 th/2), W) ; Z: (I(cos th), I(sin th))
for trial in range(20):
    th0=rng.uniform(-3,3); ph=rng.uniform(-3,3); theta=rng.uniform(-3,3)
    s3=[np.sin(th0),np.sin(th0/2)**2,1.0]; s2=[np.cos(th0),np.sin(th0)]
    z3=[0,0,0]; z2=[0,0]
    U=U1(th0,ph)
    for name,L,active,(p,T1,T2) in [('X',X,0,(0.04,0,0)),('Y',Y,1,(0.04,0,0)),('Z',Z,2,(0.04,0,0)),('sm',Sm,3,(0,1e-6,0.5e-6)),('Zp',Z,4,(0,0,1e-6))]:
        queue[:]=[s3 if active==0 else z3, s3 if active==1 else z3, s2 if active==2 else z2, s3 if active==3 else z3, s2 if active==4 else z2]
        cap.clear(); g.single_qubit_gate(theta,ph,p,T1,T2)
        gen=cap[1]/1j
        ed=np.sqrt(p/4); e1=np.sqrt(tg/T1) if T1 else 0; ep=np.sqrt(0.5*(tg/T2-(tg/T1 if T1 else 0)/2)) if T2 else 0
        strength={'X':ed,'Y':ed,'Z':ed,'sm':e1,'Zp':ep}[name]
        if name=='sm' : # with T2 = T1/2 -> ep = sqrt(.5*(2tg/T1 - tg/(2T1)))>0 but samples zero for Zp
            pass
        exp=strength*(U.conj().T@L@U)
        worst=max(worst,np.abs(gen-exp).max()); 
        if np.abs(gen-exp).max()>1e-12: print('1q MISMATCH',name,np.abs(gen-exp).max())
print('single-qubit blocks worst dev',worst)
# CR: order of sampler calls in construct:
# Ir_ctr mvn2, Ir_trg mvn3, Wp_ctr normal, Ip_trg mvn2, Idx_ctr mvn2, Idy_ctr mvn2, Wdz_ctr normal, Idx_trg mvn3, Idy_trg mvn3, Idz_trg mvn2
worst=0
for trial in range(20):
    th0=rng.uniform(-3,3); ph=rng.uniform(-3,3); theta=rng.uniform(0.1,3)
    U=UCR(th0,ph)
    c2=[np.cos(th0),np.sin(th0)]; s3=[np.sin(th0),np.sin(th0/2)**2,1.0]; w=[1.0]
    blocks=[('Ir_ctr',np.kron(Sm,I2),c2,'e1c'),('Ir_trg',np.kron(I2,Sm),s3,'e1t'),('Ip_ctr',np.kron(Z,I2),w,'epc'),('Ip_trg',np.kron(I2,Z),c2,'ept'),
            ('Idx_ctr',np.kron(X,I2),c2,'ed'),('Idy_ctr',np.kron(Y,I2),c2,'ed'),('Idz_ctr',np.kron(Z,I2),w,'ed'),('Idx_trg',np.kron(I2,X),s3,'ed'),('Idy_trg',np.kron(I2,Y),s3,'ed'),('Idz_trg',np.kron(I2,Z),c2,'ed')]
    t_cr=2.5e-7; a=t_cr/tg
    for k,(name,L,samp,sk) in enumerate(blocks):
        queue[:]=[ (samp if j==k else [0]*len(b[2])) for j,b in enumerate(blocks)]
        p_cr,T1c,T2c,T1t,T2t=0.03,2e-6,1.5e-6,3e-6,2.5e-6
        cap.clear(); g.CR(theta,ph,t_cr,p_cr,T1c,T2c,T1t,T2t)
        gen=cap[1]/1j
        st={'ed':np.sqrt(p_cr/(4*a)),'e1c':np.sqrt(tg/T1c),'e1t':np.sqrt(tg/T1t),'epc':np.sqrt(.5*(tg/T2c-tg/T1c/2)),'ept':np.sqrt(.5*(tg/T2t-tg/T1t/2))}[sk]
        exp=st*(U.conj().T@L@U)
        d=np.abs(gen-exp).max(); worst=max(worst,d)
        if d>1e-12 and trial==0: print('CR MISMATCH',name,d); print(np.round(gen/st,3)); print(np.round(exp/st,3))
print('CR blocks worst dev',worst)
