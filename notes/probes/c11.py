import numpy as np, warnings, copy, pickle
warnings.filterwarnings("ignore")
from quantum_gates._simulation.circuit import Circuit, StandardCircuit, EfficientCircuit, OneCircuit, BinaryCircuit
from quantum_gates._gates.gates import noise_free_gates as g
from quantum_gates._utility.quantum_algorithms import hadamard_reverse_qft_circ, ghz_circ, qft_circ
rng=np.random.default_rng(0)
def build(circ, C, n, ops):
    args=(3e-7,0,0,0,0,0,0,0)
    for op in ops:
        if op[0]=='rz': circ.Rz(op[1],op[2])
        elif op[0] in('x','sx'):
            if C is BinaryCircuit: getattr(circ,op[0].upper())(op[1],0,0,0)
            else:
                for k in range(n):
                    (getattr(circ,op[0].upper())(k,0,0,0) if k==op[1] else circ.I(k))
        else:
            if C is BinaryCircuit: circ.CNOT(op[1],op[2],*args)
            else:
                for k in range(n):
                    if k==op[1]: circ.CNOT(k,op[2],*args)
                    elif k==op[2]: pass
                    else: circ.I(k)
n=3
ops1=[('sx',0),('rz',1,0.4),('cx',0,1),('x',2),('cx',2,1)]
ops2=[('sx',1),('cx',1,2)]
for C in (Circuit,StandardCircuit,EfficientCircuit,OneCircuit,BinaryCircuit):
    depth=len([o for o in ops1 if o[0]!='rz'])
    circ=C(n,depth,g)
    psi0=(rng.normal(size=8)+1j*rng.normal(size=8)); psi0c=psi0.copy()
    build(circ,C,n,ops1)
    a=np.asarray(circ.statevector(psi0),complex); b=np.asarray(circ.statevector(psi0),complex)
    rep=np.array_equal(a,b); untouched=np.array_equal(psi0,psi0c)
    ext=None
    if C is not Circuit:
        build(circ,C,n,ops2); c=np.asarray(circ.statevector(psi0),complex)
        fresh=C(n,depth,g); build(fresh,C,n,ops1+ops2); d=np.asarray(fresh.statevector(psi0),complex)
        ext=np.allclose(c,d)
    circ.reset(); build(circ,C,n,ops1); e=np.asarray(circ.statevector(psi0),complex)
    print(C.__name__,'repeatable',rep,'psi0 untouched',untouched,'extend',ext,'reset==fresh',np.allclose(e,a))
for gen in (hadamard_reverse_qft_circ, ghz_circ, qft_circ):
    c=gen(3); print(gen.__name__,[(i.operation.name,[round(float(p)/np.pi,4) for p in i.operation.params],[q._index for q in i.qubits]) for i in c.data][:12])
