import numpy as np, warnings, os, tempfile, sys, time, io, contextlib
warnings.filterwarnings("ignore")
from quantum_gates._utility.device_parameters import DeviceParameters
from qiskit_ibm_runtime import fake_provider
from qiskit_ibm_runtime.fake_provider.fake_backend import FakeBackendV2
names=[n for n in dir(fake_provider) if n.startswith('Fake') and n not in ('FakeProviderForBackendV2','FakeProviderFactory')]
print(len(names))
from collections import Counter
c=Counter()
def shapes(dp): return {k:(np.shape(v)) for k,v in dp.__dict__().items() if k!='metadata'}
for nm in names:
    try:
        b=getattr(fake_provider,nm)()
    except Exception as e:
        c[('ctor',type(e).__name__)]+=1; continue
    if not isinstance(b,FakeBackendV2): c[('notV2',)]+=1; continue
    nq=b.num_qubits
    for layout in ([0],[nq-1],[0,1] if nq>1 else [0],list(range(min(nq,5))),[min(nq-1,3),0] if nq>1 else [0]):
        dp=DeviceParameters(layout)
        try:
            with contextlib.redirect_stdout(io.StringIO()):
                dp.load_from_backend(b)
        except Exception as e:
            c[('load',nm if False else '',type(e).__name__,str(e)[:50])]+=1; continue
        for fmt in ('json','txt'):
            T=tempfile.mkdtemp()+'/'
            try:
                with contextlib.redirect_stdout(io.StringIO()):
                    (dp.save_to_json if fmt=='json' else dp.save_to_texts)(T)
                    dp2=DeviceParameters(layout)
                    (dp2.load_from_json if fmt=='json' else dp2.load_from_texts)(T)
                eq = dp==dp2
                sh = shapes(dp)==shapes(dp2)
                c[(fmt,'len%d'%len(layout),'eq' if eq else 'NEQ','shape_ok' if sh else 'SHAPE_DIFF')]+=1
                if not sh and c[(fmt,'ex',len(layout))]<1:
                    c[(fmt,'ex',len(layout))]+=1; print(nm,layout,fmt,shapes(dp),shapes(dp2))
            except Exception as e:
                c[(fmt,'len%d'%len(layout),'RAISE',type(e).__name__,str(e)[:60])]+=1
for k in sorted(c, key=str): print(k,c[k])
