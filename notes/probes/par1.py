import numpy as np, warnings, os, tempfile, sys
warnings.filterwarnings("ignore")
from qiskit import QuantumCircuit
from quantum_gates._simulation.simulator import MrAndersonSimulator
from quantum_gates._simulation.circuit import EfficientCircuit, BinaryCircuit
from quantum_gates._gates.gates import standard_gates
def devparam(nmax):
    return {"T1":np.full(nmax,1e-4),"T2":np.full(nmax,1e-4),"p":np.full(nmax,1e-2),"rout":np.full(nmax,1e-1),
            "p_int":np.full((nmax,nmax),1e-1),"t_int":np.full((nmax,nmax),3e-7),"tm":np.full(nmax,1e-6),"dt":np.array([2.2e-10])}
LOGDIR=tempfile.mkdtemp()
class LogCirc(EfficientCircuit):
    def statevector(self, psi0):
        psi=super().statevector(psi0)
        with open(os.path.join(LOGDIR, f"{os.getpid()}_{np.random.randint(1<<30)}"),'w') as f:
            f.write(repr(np.abs(psi[0])**2))
        return psi
if __name__=="__main__":
    n=2
    qc=QuantumCircuit(n,n); qc.sx(0); qc.sx(1); qc.cx(0,1); qc.measure(0,0); qc.measure(1,1)
    psi0=np.zeros(4); psi0[0]=1
    sim=MrAndersonSimulator(gates=standard_gates, CircuitClass=LogCirc, parallel=True)
    res=sim.run(t_qiskit_circ=qc, qubits_layout=[0,1], psi0=psi0, shots=48, device_param=devparam(n), nqubit=n)
    vals=[open(os.path.join(LOGDIR,f)).read() for f in os.listdir(LOGDIR)]
    print(len(vals), 'shots logged;', len(set(vals)), 'distinct realisations')
    print(res)
