import numpy as np, warnings
warnings.filterwarnings("ignore")
from quantum_gates._gates.gates import Gates
g=Gates()
LOG=[]
class Rec:
    def __init__(self,name,dim): self.name=name; self.dim=dim
    def construct(self,*a): LOG.append((self.name,)+tuple(round(float(x),6) for x in a)); return np.eye(self.dim,dtype=complex)
for fac in (g.cnot_c,g.cnot_inv_c,g.ecr_c,g.ecr_inv_c):
    for attr,dim in (('cr_c',4),('x_c',2),('sx_c',2),('single_qubit_gate_c',2),('relaxation_c',2)):
        if hasattr(fac,attr): setattr(fac,attr,Rec(attr,dim))
# distinct values: ctr: p=.01,T1=11,T2=12 ; trg: p=.02,T1=21,T2=22 ; phases .1,.2
args=(0.1,0.2,300e-9,0.3,0.01,0.02,11.,12.,21.,22.)
for nm in ('CNOT','CNOT_inv','ECR','ECR_inv'):
    LOG.clear(); getattr(g,nm)(*args)
    print(nm)
    for l in LOG: print('   ',l)
