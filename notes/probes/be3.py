import numpy as np, warnings, time
warnings.filterwarnings("ignore")
from quantum_gates._simulation.backend import EfficientBackend, BackendForOnes
from be1 import gen_layer, ref, rng
import be1
for n,pids in [(19,[0]),(20,[0.03]),(21,[0.03])]:
    for pid in pids:
        for rep in range(2):
            L=[gen_layer(n,pid=pid,p2=0.15) for _ in range(2)]
            layers=[l for l,_ in L]; slots=[s for _,s in L]
            psi=(be1.rng.integers(-2,3,2**n)+1j*be1.rng.integers(-2,3,2**n)).astype(complex)
            r=ref(slots,psi,n)
            for name,b in (('Ones',BackendForOnes(n)),('Eff',EfficientBackend(n))):
                t=time.time()
                try:
                    out=b.statevector(layers,psi); res='OK' if np.array_equal(out,r) else ('CLOSE %.1e max|r| %.1e'%(np.abs(out-r).max()/np.abs(r).max(), np.abs(r).max()) if np.allclose(out,r,rtol=1e-9,atol=0) else 'WRONG')
                except Exception as e: res='RAISE %s %s'%(type(e).__name__,str(e)[:80])
                print(n,pid,name,res,'%.1fs'%(time.time()-t), 'entries per layer', [len([m for m in l if isinstance(m,np.ndarray)]) for l in layers] if name=='Ones' else '')
