"""Prototype: trace the index-class branch of _apply_gates_on_circuit with symbolic physical indices and device tables;
   trace Integrator._numerical_integration with a recording quad."""
import warnings, numpy as np
warnings.filterwarnings("ignore")
from tracer import E, V, lift, DEC
import quantum_gates._simulation.simulator as sm
import quantum_gates._simulation.circuit as cm
class Idx:
    def __init__(s,n): s.n=n
    def __repr__(s): return s.n
class Tab1:
    def __init__(s,t): s.t=t
    def __getitem__(s,i): 
        if isinstance(i,Idx): return V(f"{s.t}[{i.n}]")
        if isinstance(i,int) and s.t=="dt": return V("dt")
        raise TypeError(("table indexed by non-symbolic",s.t,i))
class Tab2(Tab1):
    def __getitem__(s,i):
        assert isinstance(i,Idx); t=s.t
        class Row:
            def __getitem__(r,j): assert isinstance(j,Idx); return V(f"{t}[{i.n}][{j.n}]")
        return Row()
class Layout:
    def index(s,q): assert isinstance(q,Idx); return Idx(f"v({q.n})")
    def __getitem__(s,k): return Idx(f"L[{k}]")
class Op:
    def __init__(s,name,params=(),duration=None): s.name=name; s.params=list(params); s.duration=duration
class Q:
    def __init__(s,i): s._index=i
class Ins:
    def __init__(s,name,qs,params=(),duration=None): s.operation=Op(name,params,duration); s.qubits=[Q(q) for q in qs]
class RecCirc(cm.BinaryCircuit):
    def __init__(s,n): s.nqubit=n; s.calls=[]
    def __getattribute__(s,name):
        if name in("Rz","SX","X","ECR","CNOT","relaxation","bitflip","depolarizing","I"):
            return lambda *a: object.__getattribute__(s,"calls").append((name,[repr(x) if not isinstance(x,(int,float)) else x for x in a]))
        return object.__getattribute__(s,name)
dev={"T1":Tab1("T1"),"T2":Tab1("T2"),"p":Tab1("p"),"rout":Tab1("rout"),"p_int":Tab2("p_int"),"t_int":Tab2("t_int"),"tm":Tab1("tm"),"dt":Tab1("dt")}
class SymFloat(float): pass
for ins in (Ins("rz",[Idx("a")],[0.25]),Ins("sx",[Idx("a")]),Ins("x",[Idx("a")]),Ins("cx",[Idx("c"),Idx("t")]),Ins("ecr",[Idx("c"),Idx("t")]),Ins("delay",[Idx("a")],duration=V("dur"))):
    c=RecCirc(0); sm._apply_gates_on_circuit([ins],c,dev,Layout()); print(ins.operation.name,'->',c.calls)
c=RecCirc(2); sm._apply_gates_on_circuit([],c,dev,Layout()); print('readout ->',c.calls)
# ---- integrator numerical path
import quantum_gates._gates.integrator as ig
from quantum_gates._gates.pulse import Pulse
rec={}
def fake_quad(f,lo,hi): rec['f']=f; rec['lo']=lo; rec['hi']=hi; return (V("QUAD"),0)
ig.scipy.integrate.quad=fake_quad
NP=__import__('tracer').NP; ig.np=NP
F=lambda t: E("F",lift(t))
I=ig.Integrator(Pulse(pulse=None,parametrization=F,perform_checks=False,use_lookup=False))
DEC.script=[]; DEC.log=[]; DEC.assumed=[]
for key in ("sin(theta/a)**2","sin(theta/(2*a))**4","cos(theta/(2*a))**2"):
    I._cache={}
    out=I._numerical_integration(key,V("theta"),V("a"))
    print(key,': quad over [',rec['lo'],',',rec['hi'],'] of',rec['f'](V("t")))
