import numpy as np, warnings, itertools, pickle, scipy.integrate, copy
warnings.filterwarnings("ignore")
from quantum_gates._utility.simulations_utility import fix_counts, compute_Hellinger_distance
from quantum_gates._gates.pulse import Pulse, GaussianPulse, constant_pulse
from quantum_gates._gates.gates import Gates, standard_gates
# ---- C16 exhaustive
bad=0; tot=0
for n in (1,2,3):
    keys=[format(i,f'0{n}b') for i in range(2**n)]
    for r in range(1,2**n+1):
        for sub in itertools.combinations(keys,r):
            tab={k:(i+1)*1.5 for i,k in enumerate(sub)}
            try:
                out=fix_counts(dict(tab),n)
                exp={k:0 for k in keys}
                for k,v in tab.items(): exp[k[::-1]]=v
                ok = list(out.keys())==keys and out==exp
                out2=fix_counts(out,n)
                exp2={k:tab.get(k,0) for k in keys}
                ok = ok and list(out2.keys())==keys and out2==exp2
            except Exception as e:
                ok=False; print('C16 raise',n,sub,e)
            tot+=1; bad+= (not ok)
            if not ok and bad<4: print('C16 bad',n,tab,out)
print('C16',tot,'cases',bad,'bad')
# ---- C17
rng=np.random.default_rng(0)
def H(p,q): return np.sqrt(max(0,1-np.sum(np.sqrt(p*q))))
mx=0
for t in range(2000):
    n=int(rng.integers(1,5)); N=2**n
    def rp():
        v=rng.random(N)*(rng.random(N)<rng.choice([0.3,0.7,1.0])); 
        if v.sum()==0: v[0]=1
        return v/v.sum()
    p,q,r=rp(),rp(),rp()
    d=compute_Hellinger_distance(p,q,n)
    mx=max(mx,abs(d-H(p,q)))
    assert -1e-12<=d<=1+1e-12
    assert abs(d-compute_Hellinger_distance(q,p,n))<1e-15
    assert compute_Hellinger_distance(p,r,n)<=d+compute_Hellinger_distance(q,r,n)+1e-12
print('C17 max dev',mx, compute_Hellinger_distance(np.array([1.,0]),np.array([0,1.]),1), compute_Hellinger_distance(np.array([.5,.5]),np.array([.5,.5]),1))
# ---- C13
c=0
for loc in (-1,0,0.3,0.5,1,2): 
    for scale in (0.05,0.25,1,10):
        try:
            gp=GaussianPulse(loc,scale,perform_checks=True)
            f=gp.get_pulse(); F=gp.get_parametrization()
            I=scipy.integrate.quad(f,0,1)[0]
            xs=np.linspace(0,1,11)
            comp=max(abs(scipy.integrate.quad(f,0,x)[0]-F(x)) for x in xs)
            print('gauss',loc,scale,'int=%.9f F0=%.2e F1-1=%.2e comp=%.2e minf=%.2e'%(I,F(0),F(1)-1,comp,min(f(x) for x in xs)))
            gp2=pickle.loads(pickle.dumps(gp)); assert gp2.get_pulse()(0.3)==f(0.3)
        except AssertionError as e: print('gauss',loc,scale,'Assertion',e)
# validation rejects?
for name,(f,F) in {'unnorm':(lambda x:2.0, lambda x:x), 'param0to2':(lambda x:1.0, lambda x:2*x), 'incompat':(lambda x:1.0, lambda x:x**2),
                  'ok_lin':(lambda x:2*x, lambda x:x**2), 'neg':(lambda x: 3*x-0.5, lambda x:1.5*x**2-0.5*x), 'nonmono':(lambda x:1.0, lambda x: x+0.3*np.sin(2*np.pi*x))}.items():
    try: Pulse(f,F,perform_checks=True); print(name,'accepted')
    except AssertionError as e: print(name,'rejected:',e)
# pickling gates
g=Gates(GaussianPulse(0.5,0.25)); g2=pickle.loads(pickle.dumps(g))
np.random.seed(1); a=g.X(0.1,1e-3,1e-4,1e-4); np.random.seed(1); b=g2.X(0.1,1e-3,1e-4,1e-4); print('pickle gates same sample', np.array_equal(a,b))
# ---- C10: cache history independence
np.random.seed(3); g=Gates(GaussianPulse(0.5,0.25)); _=g.CR(0.7,0.1,3e-7,1e-2,1e-4,1e-4,1e-4,1e-4); _=g.CR(0.7,0.1,2e-7,1e-2,1e-4,1e-4,1e-4,1e-4)
np.random.seed(5); warm=g.CR(0.7,0.1,2e-7,1e-2,1e-4,1e-4,1e-4,1e-4)
g=Gates(GaussianPulse(0.5,0.25)); np.random.seed(5); cold=g.CR(0.7,0.1,2e-7,1e-2,1e-4,1e-4,1e-4,1e-4)
print('C10 warm==cold', np.array_equal(warm,cold))
