"""Prototype T2: trace circuit-class methods with symbolic qubit indices, symbolic phases and a recording gate set."""
import numpy as np, warnings, itertools
warnings.filterwarnings("ignore")
from tracer import E, V, lift, DEC
import quantum_gates._simulation.circuit as cm
cm.np=__import__('tracer').NP   # so np.pi stays a float here; fine for the prototype
class Idx:
    def __init__(s,name): s.name=name
    def __lt__(s,o): return DEC.decide(("lt",s.name,o.name))
    def __gt__(s,o): return DEC.decide(("lt",o.name,s.name))
    def __sub__(s,o): return IdxDiff(s,o)
    def __eq__(s,o): return isinstance(o,Idx) and o.name==s.name
    def __hash__(s): return hash(s.name)
    def __repr__(s): return s.name
class IdxDiff:
    def __init__(s,a,b): s.a=a; s.b=b
    def __abs__(s): return s
    def __eq__(s,o): DEC.assumed.append(("adjacent",s.a.name,s.b.name)); return True
class SymList:
    def __init__(s,tag): s.tag=tag; s.writes=[]; s.cur={}
    def __getitem__(s,i): return s.cur.get(i.name, V(f"{s.tag}[{i.name}]"))
    def __setitem__(s,i,v): s.cur[i.name]=v; s.writes.append((i.name,v))
class RecGates:
    def __init__(s): s.calls=[]
    def __getattr__(s,name):
        def f(*a):
            s.calls.append((name,[repr(lift(x)) if not isinstance(x,np.ndarray) else 'M' for x in a]))
            return np.zeros((4,4)) if name in('CNOT','CNOT_inv','ECR','ECR_inv') else np.zeros((2,2))
        return f
def run(C, method):
    out=[]
    for script in itertools.product([False,True],repeat=1):
        DEC.script=list(script); DEC.log=[]; DEC.assumed=[]
        g=RecGates()
        if C is cm.BinaryCircuit: circ=C(4,1,g)
        elif C is cm.Circuit: circ=C(4,3,g)
        else: circ=C(4,g,cm.EfficientBackend)
        circ.phi=SymList("phi")
        if hasattr(circ,'_mp'): circ._mp=SymList("_mp")
        if C is cm.Circuit:
            class Grid:
                def __init__(s): s.w=[]
                def __getitem__(s,i): 
                    g_=s
                    class Row:
                        def __setitem__(r,j,v): g_.w.append((i.name,j))
                    return Row()
            circ.circuit=Grid()
        if C is cm.BinaryCircuit:
            placed=[]
            circ.apply=lambda gate,i,j=-1: placed.append((repr(i),repr(j)))
        i,k=Idx("i"),Idx("k")
        getattr(circ,method)(i,k,V("t"),V("p_ik"),V("p_i"),V("p_k"),V("T1i"),V("T2i"),V("T1k"),V("T2k"))
        place = circ._mp.writes and [w[0] for w in circ._mp.writes] if hasattr(circ,'_mp') and isinstance(circ._mp,SymList) else (placed if C is cm.BinaryCircuit else circ.circuit.w)
        out.append((DEC.log[0][1], g.calls[0], [(n,repr(v)) for n,v in circ.phi.writes], place))
    return out
for C in (cm.AlternativeCircuit, cm.BinaryCircuit, cm.Circuit):
    for m in ("CNOT","ECR"):
        for lt,call,phiw,place in run(C,m):
            print(C.__name__,m,"i<k" if lt else "i>k",call[0],call[1][:2],call[1][4:], "phi:",phiw,"place:",place)
