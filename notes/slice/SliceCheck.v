From Coq Require Import ZArith QArith List String.
Require Import SliceExpr SliceGen.
Import ListNotations.
Open Scope Z_scope.
(* frames: P(phi) = diag(1, e^{i phi}); variables: 0 = phc, 1 = pht, 2 = ph *)
Definition Pd (e:P) : M := [[p1;p0];[p0;e]].
Definition CX : M := [[p1;p0;p0;p0];[p0;p1;p0;p0];[p0;p0;p0;p1];[p0;p0;p1;p0]].
Definition CXr : M := [[p1;p0;p0;p0];[p0;p0;p0;p1];[p0;p0;p1;p0];[p0;p1;p0;p0]].
Definition hP : P := pconst (dscale (1#2) (dadd (dxz 2) (dopp (dxz 6)))).   (* 1/sqrt 2 *)
Definition ECRb : M := mscale hP [[p0;p0;p1;pI];[p0;p0;pI;p1];[p1;popp pI;p0;p0];[popp pI;p1;p0;p0]].
Definition ECRr : M := mscale hP [[p0;p1;p0;pI];[p1;p0;popp pI;p0];[p0;pI;p0;p1];[popp pI;p0;p1;p0]].
Definition u := pvar 0 1. Definition u' := pvar 0 (-1). Definition v := pvar 1 1. Definition v' := pvar 1 (-1).
Definition xk (k:Z) : P := pconst (dxz k).
Definition chk (g : mexpr) (rhs : M) : bool := match mevalS g with Some m => meqb m rhs | None => false end.
(* CNOT = i (P(phc - pi/2) (x) P(pht))^dag CX (P(phc) (x) P(pht)) *)
Definition rhs_cnot := mscale pI (mmul (kron (Pd (pmul u' pI)) (Pd v')) (mmul CX (kron (Pd u) (Pd v)))).
(* CNOT_inv (slots (t,c)) = e^{-3i pi/4} (P(pht + pi/2) (x) P(phc + 3pi/2))^dag CXr (P(pht) (x) P(phc)) *)
Definition rhs_cnot_inv := mscale (xk (-6)) (mmul (kron (Pd (pmul v' (popp pI))) (Pd (pmul u' pI))) (mmul CXr (kron (Pd v) (Pd u)))).
Definition rhs_ecr := mmul (kron (Pd u') (Pd v')) (mmul ECRb (kron (Pd u) (Pd v))).
Definition rhs_ecr_inv := mmul (kron (Pd u') (Pd v')) (mmul ECRr (kron (Pd u) (Pd v))).
Time Eval vm_compute in (chk gen_CNOT rhs_cnot, chk gen_CNOT_inv rhs_cnot_inv, chk gen_ECR rhs_ecr, chk gen_ECR_inv rhs_ecr_inv).
Eval vm_compute in (match mevalS gen_X with Some m => m | None => [] end).
