"""Vertical-slice prototype: literal-lifted symbolic execution of the real NoiseFreeGates code -> Coq expr terms."""
import ast, sys, types, numpy as np, warnings
from fractions import Fraction
warnings.filterwarnings("ignore")

class E:
    __slots__=("op","args")
    def __init__(s,op,*args): s.op=op; s.args=args
    @staticmethod
    def bin(op,a,b):
        for x,y in ((a,b),(b,a)):
            if isinstance(y,np.ndarray):
                z=np.empty((),dtype=object); z[()]=x
                f={"add":np.add,"sub":np.subtract,"mul":np.multiply,"div":np.true_divide}[op]
                return f(z,y) if x is a else f(y,z)
        if isinstance(a,SymMat) or isinstance(b,SymMat): return NotImplemented
        a,b=lift(a),lift(b)
        if a.op=="q" and b.op=="q":   # exact folding of rational constants
            x,y=a.args[0],b.args[0]
            return E("q",{"add":x+y,"sub":x-y,"mul":x*y,"div":(x/y if y!=0 else None)}[op])
        return E(op,a,b)
    def __add__(s,o): return E.bin("add",s,o)
    def __radd__(s,o): return E.bin("add",o,s)
    def __sub__(s,o): return E.bin("sub",s,o)
    def __rsub__(s,o): return E.bin("sub",o,s)
    def __mul__(s,o): return E.bin("mul",s,o)
    def __rmul__(s,o): return E.bin("mul",o,s)
    def __truediv__(s,o): return E.bin("div",s,o)
    def __rtruediv__(s,o): return E.bin("div",o,s)
    def __neg__(s): return E("q",-s.args[0]) if s.op=="q" else E("neg",s)
    def __pos__(s): return s
    def __pow__(s,o):
        o=lift(o); assert o.op=="q" and o.args[0].denominator==1, "non-integer power"
        n=int(o.args[0])
        if s.op=="q": return E("q",s.args[0]**n)
        assert n>=0; return E("pow",s,n)
    def sin(s): return E("sin",s)
    def cos(s): return E("cos",s)
    def exp(s): return E("exp",s)
    def sqrt(s): return E("sqrt",s)
    def __index__(s):
        assert s.op=="q" and s.args[0].denominator==1; return int(s.args[0])
    def _cmp(s,o,f):
        o=lift(o)
        if s.op=="q" and o.op=="q": return f(s.args[0],o.args[0])
        raise TypeError("symbolic comparison (decision) not supported in this slice")
    def __ge__(s,o): return s._cmp(o,lambda a,b:a>=b)
    def __gt__(s,o): return s._cmp(o,lambda a,b:a>b)
    def __le__(s,o): return s._cmp(o,lambda a,b:a<=b)
    def __lt__(s,o): return s._cmp(o,lambda a,b:a<b)
    def __bool__(s): raise TypeError("symbolic bool")
    def __float__(s): raise TypeError("symbolic float")
def lift(x):
    if isinstance(x,E): return x
    if isinstance(x,bool): raise TypeError
    if isinstance(x,(int,np.integer)): return E("q",Fraction(int(x)))
    if isinstance(x,Fraction): return E("q",x)
    if isinstance(x,float) and float(x).is_integer(): return E("q",Fraction(int(x)))
    raise TypeError(("cannot lift",type(x),x))
def V(n): return E("var",n)
def LIT(x):
    if isinstance(x,complex):
        assert x.real==0; return E.bin("mul",E("I"),LIT(x.imag)) if x.imag!=1 else E("I")
    if isinstance(x,float): return E("q",Fraction(repr(x)))
    return E("q",Fraction(x))
class Lift(ast.NodeTransformer):
    def visit_Constant(self,node):
        if isinstance(node.value,(int,float,complex)) and not isinstance(node.value,bool):
            return ast.copy_location(ast.Call(func=ast.Name(id="__LIT__",ctx=ast.Load()),args=[node],keywords=[]),node)
        return node
def load_lifted(path, modname, package):
    src=open(path).read(); tree=Lift().visit(ast.parse(src)); ast.fix_missing_locations(tree)
    mod=types.ModuleType(modname); mod.__package__=package; mod.__file__=path; mod.__LIT__=LIT
    sys.modules[modname]=mod
    exec(compile(tree,path,"exec"),mod.__dict__)
    return mod
class SymMat:
    """matrix expression: eager entrywise ops on leaves, lazy mmul/kron (keeps generated terms small)"""
    def __init__(s,op,*args): s.op=op; s.args=args
    @staticmethod
    def leaf(rows): return SymMat("leaf",[[lift(x) for x in r] for r in rows])
    @property
    def shape(s):
        if s.op=="leaf": return (len(s.args[0]),len(s.args[0][0]))
        if s.op=="mmul": return (s.args[0].shape[0],s.args[1].shape[1])
        if s.op=="kron": return (s.args[0].shape[0]*s.args[1].shape[0],s.args[0].shape[1]*s.args[1].shape[1])
        if s.op=="scale": return s.args[1].shape
    def __matmul__(s,o): return SymMat("mmul",s,o)
    def _scale(s,c):
        c=lift(c)
        if s.op=="leaf": return SymMat.leaf([[E.bin("mul",c,x) for x in r] for r in s.args[0]])
        return SymMat("scale",c,s)
    def __mul__(s,c): return s._scale(c)
    def __rmul__(s,c): return s._scale(c)
    def __add__(s,o):
        assert s.op=="leaf" and o.op=="leaf"
        return SymMat.leaf([[E.bin("add",x,y) for x,y in zip(r,q)] for r,q in zip(s.args[0],o.args[0])])
    def __neg__(s): return s._scale(-1)
class NPshim:
    pi=E("pi")
    def __getattr__(s,k): return getattr(np,k)
    @staticmethod
    def array(x,*a,**k): return SymMat.leaf(x)
    @staticmethod
    def eye(n,*a,**k):
        n=int(lift(n).args[0]); return SymMat.leaf([[int(i==j) for j in range(n)] for i in range(n)])
    @staticmethod
    def kron(a,b): return SymMat("kron",a,b)
def coq(e):
    if not isinstance(e,E): e=lift(e)
    o=e.op
    if o=="q":
        f=e.args[0]; return f"(EQ ({f.numerator}#{f.denominator}))"
    if o=="pi": return "EPi"
    if o=="I": return "EI"
    if o=="var": return f'(EVar "{e.args[0]}")'
    if o=="pow": return f"(EPow {coq(e.args[0])} {e.args[1]})"
    if o=="neg": return f"(ENeg {coq(e.args[0])})"
    if o in("sin","cos","exp","sqrt"): return f"(E{o.capitalize()} {coq(e.args[0])})"
    return f"(E{o.capitalize()} {coq(e.args[0])} {coq(e.args[1])})"
def coqm(M):
    if M.op=="leaf": return "(MLeaf ["+"; ".join("["+"; ".join(coq(x) for x in r)+"]" for r in M.args[0])+"])"
    if M.op=="scale": return f"(MScale {coq(M.args[0])} {coqm(M.args[1])})"
    return f"(M{M.op.capitalize()} {coqm(M.args[0])} {coqm(M.args[1])})"
def coqmat(name,M): return f"Definition {name} : mexpr :=\n  {coqm(M)}.\n"
if __name__=="__main__":
    root=sys.argv[1]
    import quantum_gates._gates.pulse, quantum_gates._gates.integrator, quantum_gates._gates.factories
    g=load_lifted(root+"/src/quantum_gates/_gates/gates.py","quantum_gates._gates.gates_lifted","quantum_gates._gates")
    g.np=NPshim()
    nf=g.NoiseFreeGates()
    args=[V("phc"),V("pht"),V("t"),V("p2"),V("pc"),V("pt"),V("T1c"),V("T2c"),V("T1t"),V("T2t")]
    out=open(sys.argv[2],"w")
    out.write("(* generated by slice_trace.py from the real gates.py *)\nFrom Coq Require Import QArith String List.\nRequire Import SliceExpr.\nImport ListNotations.\nOpen Scope string_scope.\n")
    for nm in ("CNOT","CNOT_inv","ECR","ECR_inv"):
        M=getattr(nf,nm)(*args)
        out.write(coqmat("gen_"+nm,M))
    out.write(coqmat("gen_X",nf.X(V("ph"),0,0,0))); out.write(coqmat("gen_SX",nf.SX(V("ph"),0,0,0)))
    out.close(); print("wrote",sys.argv[2])
