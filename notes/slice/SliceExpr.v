From Coq Require Import ZArith QArith List String Lia.
Import ListNotations.
Open Scope Z_scope.

Inductive expr :=
| EQ (q:Q) | EPi | EI | EVar (v:string)
| EAdd (a b:expr) | ESub (a b:expr) | EMul (a b:expr) | EDiv (a b:expr) | ENeg (a:expr) | EPow (a:expr) (n:nat)
| ESin (a:expr) | ECos (a:expr) | EExp (a:expr) | ESqrt (a:expr).
Inductive mexpr := MLeaf (rows : list (list expr)) | MMmul (a b : mexpr) | MKron (a b : mexpr) | MScale (c:expr) (a:mexpr).

(* ---------- coefficient ring K16 = Q[x]/(x^8+1), x = e^{i pi/8} ---------- *)
Definition D := list Q.
Definition dzero : D := repeat 0%Q 8.
Definition dconst (q:Q) : D := Qred q :: repeat 0%Q 7.
Definition dadd (a b : D) : D := map (fun p => Qred (fst p + snd p)%Q) (combine a b).
Definition dopp (a : D) : D := map (fun q => Qred (- q)%Q) a.
Definition dshift (a : D) : D := match rev a with last :: rest => Qred (- last)%Q :: rev rest | [] => [] end.
Fixpoint dshiftn (n:nat) (a:D) : D := match n with O => a | S k => dshift (dshiftn k a) end.
Definition dscale (q:Q) (a:D) : D := map (fun c => Qred (q*c)%Q) a.
Definition dmul (a b : D) : D :=
  fst (fold_left (fun (acc : D * D) (c:Q) => (dadd (fst acc) (dscale c (snd acc)), dshift (snd acc))) a (dzero, b)).
Definition deqb (a b : D) : bool := forallb (fun p => Qeq_bool (fst p) (snd p)) (combine a b).
(* x^k for any integer k, using x^16 = 1 *)
Definition dxz (k:Z) : D := dshiftn (Z.to_nat (k mod 16)) (dconst 1%Q).
Definition di := dxz 4.

(* ---------- Laurent polynomials over K16 in NV phase variables ---------- *)
Definition NV := 3%nat.
Definition vars : list string := ["phc"; "pht"; "ph"]%string.
Definition mono := list Z.
Fixpoint mono_cmp (a b : mono) : comparison :=
  match a, b with
  | x::a', y::b' => match Z.compare x y with Eq => mono_cmp a' b' | c => c end
  | [], [] => Eq | [], _ => Lt | _, [] => Gt
  end.
Definition madd (a b : mono) : mono := map (fun p => fst p + snd p) (combine a b).
Definition P := list (mono * D).
Fixpoint padd1 (m:mono) (c:D) (p:P) : P :=
  match p with
  | [] => if deqb c dzero then [] else [(m,c)]
  | (m',c') :: r =>
      match mono_cmp m m' with
      | Eq => let s := dadd c c' in if deqb s dzero then r else (m,s)::r
      | Lt => if deqb c dzero then p else (m,c)::p
      | Gt => (m',c') :: padd1 m c r
      end
  end.
Definition padd (a b : P) : P := fold_left (fun acc mc => padd1 (fst mc) (snd mc) acc) a b.
Definition popp (a:P) : P := map (fun mc => (fst mc, dopp (snd mc))) a.
Definition pmul (a b : P) : P :=
  fold_left (fun acc mc => fold_left (fun acc' mc' => padd1 (madd (fst mc) (fst mc')) (dmul (snd mc) (snd mc')) acc') b acc) a [].
Definition mono0 : mono := repeat 0 NV.
Definition pconst (d:D) : P := padd1 mono0 d [].
Definition p0 : P := []. Definition p1 := pconst (dconst 1%Q). Definition pI := pconst di.
Fixpoint ppow (a:P) (n:nat) : P := match n with O => p1 | S k => pmul a (ppow a k) end.

(* ---------- real linear forms  cq + cpi*pi + sum cv*var ---------- *)
Record lform := { cq : Q; cpi : Q; cv : list Q (* length NV *) }.
Definition lzero := {| cq := 0; cpi := 0; cv := repeat 0%Q NV |}.
Definition ladd a b := {| cq := Qred (cq a + cq b); cpi := Qred (cpi a + cpi b); cv := map (fun p => Qred (fst p + snd p)%Q) (combine (cv a) (cv b)) |}.
Definition lscale (q:Q) a := {| cq := Qred (q * cq a); cpi := Qred (q * cpi a); cv := map (fun c => Qred (q*c)%Q) (cv a) |}.
Definition lis_zero a := Qeq_bool (cq a) 0 && Qeq_bool (cpi a) 0 && forallb (fun c => Qeq_bool c 0) (cv a).
Definition lis_const a := Qeq_bool (cpi a) 0 && forallb (fun c => Qeq_bool c 0) (cv a).
Fixpoint var_index (v:string) (l:list string) (i:nat) : option nat :=
  match l with [] => None | x::r => if String.eqb x v then Some i else var_index v r (S i) end.
Definition lvar (v:string) : option lform :=
  match var_index v vars 0 with
  | Some i => Some {| cq := 0; cpi := 0; cv := map (fun j => if Nat.eqb i j then 1%Q else 0%Q) (seq 0 NV) |}
  | None => None end.
(* complex linear form: (re, im) *)
Fixpoint cl (e:expr) : option (lform * lform) :=
  match e with
  | EQ q => Some ({| cq := Qred q; cpi := 0; cv := repeat 0%Q NV |}, lzero)
  | EPi => Some ({| cq := 0; cpi := 1; cv := repeat 0%Q NV |}, lzero)
  | EI => Some (lzero, {| cq := 1; cpi := 0; cv := repeat 0%Q NV |})
  | EVar v => match lvar v with Some l => Some (l, lzero) | None => None end
  | EAdd a b => match cl a, cl b with Some (ar,ai), Some (br,bi) => Some (ladd ar br, ladd ai bi) | _,_ => None end
  | ESub a b => match cl a, cl b with Some (ar,ai), Some (br,bi) => Some (ladd ar (lscale (-1) br), ladd ai (lscale (-1) bi)) | _,_ => None end
  | ENeg a => match cl a with Some (ar,ai) => Some (lscale (-1) ar, lscale (-1) ai) | None => None end
  | EMul a b =>
      match cl a, cl b with
      | Some (ar,ai), Some (br,bi) =>
          if lis_const ar && lis_const ai then
            Some (ladd (lscale (cq ar) br) (lscale (- cq ai) bi), ladd (lscale (cq ar) bi) (lscale (cq ai) br))
          else if lis_const br && lis_const bi then
            Some (ladd (lscale (cq br) ar) (lscale (- cq bi) ai), ladd (lscale (cq br) ai) (lscale (cq bi) ar))
          else None
      | _,_ => None end
  | EDiv a b =>
      match cl a, cl b with
      | Some (ar,ai), Some (br,bi) =>
          if lis_const br && lis_zero bi && negb (Qeq_bool (cq br) 0) then Some (lscale (/ cq br) ar, lscale (/ cq br) ai) else None
      | _,_ => None end
  | _ => None
  end.
Definition q_to_Z (q:Q) : option Z := let r := Qred q in if (Qden r =? 1)%positive then Some (Qnum r) else None.
Fixpoint all_Z (l : list Q) : option (list Z) :=
  match l with [] => Some [] | q::r => match q_to_Z q, all_Z r with Some z, Some zs => Some (z::zs) | _,_ => None end end.
(* e^{i a} for a real angle form with cq = 0, 8*cpi integer, integer variable coefficients *)
Definition phase (a:lform) : option P :=
  if negb (Qeq_bool (cq a) 0) then None else
  match q_to_Z (8 * cpi a)%Q, all_Z (cv a) with
  | Some k, Some ex => Some (padd1 ex (dxz k) [])
  | _,_ => None end.
Definition half : D := dconst (1#2).
Fixpoint interpS (e:expr) : option P :=
  match e with
  | EQ q => Some (pconst (dconst q))
  | EPi => None
  | EI => Some pI
  | EVar _ => None
  | EAdd a b => match interpS a, interpS b with Some x, Some y => Some (padd x y) | _,_ => None end
  | ESub a b => match interpS a, interpS b with Some x, Some y => Some (padd x (popp y)) | _,_ => None end
  | EMul a b => match interpS a, interpS b with Some x, Some y => Some (pmul x y) | _,_ => None end
  | ENeg a => match interpS a with Some x => Some (popp x) | None => None end
  | EPow a n => match interpS a with Some x => Some (ppow x n) | None => None end
  | EDiv a (EQ q) => if Qeq_bool q 0 then None else match interpS a with Some x => Some (pmul (pconst (dconst (/q))) x) | None => None end
  | EDiv _ _ => None
  | ECos a => match cl a with
              | Some (ar, ai) => if lis_zero ai then
                   match phase ar, phase (lscale (-1) ar) with Some p, Some m => Some (pmul (pconst half) (padd p m)) | _,_ => None end else None
              | None => None end
  | ESin a => match cl a with
              | Some (ar, ai) => if lis_zero ai then
                   match phase ar, phase (lscale (-1) ar) with
                   | Some p, Some m => Some (pmul (pmul (popp pI) (pconst half)) (padd p (popp m)))   (* (p - m)/(2i) = -i (p-m)/2 *)
                   | _,_ => None end else None
              | None => None end
  | EExp a => match cl a with Some (ar, ai) => if lis_zero ar then phase ai else None | None => None end
  | ESqrt _ => None
  end.

(* ---------- matrices ---------- *)
Definition M := list (list P).
Definition dot (r c : list P) : P := fold_left padd (map (fun p => pmul (fst p) (snd p)) (combine r c)) p0.
Fixpoint transpose (m : M) : M :=
  match m with [] => [] | [r] => map (fun x => [x]) r | r :: rest => map (fun p => fst p :: snd p) (combine r (transpose rest)) end.
Definition mmul (a b : M) : M := let bt := transpose b in map (fun r => map (fun c => dot r c) bt) a.
Definition kron (a b : M) : M := flat_map (fun ra => map (fun rb => flat_map (fun x => map (fun y => pmul x y) rb) ra) b) a.
Definition mscale (s:P) (a:M) : M := map (map (pmul s)) a.
Fixpoint optmap {A B} (f : A -> option B) (l : list A) : option (list B) :=
  match l with [] => Some [] | x::r => match f x, optmap f r with Some y, Some ys => Some (y::ys) | _,_ => None end end.
Fixpoint mevalS (m:mexpr) : option M :=
  match m with
  | MLeaf rows => optmap (optmap interpS) rows
  | MMmul a b => match mevalS a, mevalS b with Some x, Some y => Some (mmul x y) | _,_ => None end
  | MKron a b => match mevalS a, mevalS b with Some x, Some y => Some (kron x y) | _,_ => None end
  | MScale c a => match interpS c, mevalS a with Some s, Some x => Some (mscale s x) | _,_ => None end
  end.
Definition peqb (a b : P) : bool := match padd a (popp b) with [] => true | _ => false end.
Definition meqb (a b : M) : bool :=
  Nat.eqb (List.length a) (List.length b) &&
  forallb (fun rr => Nat.eqb (List.length (fst rr)) (List.length (snd rr)) && forallb (fun pq => peqb (fst pq) (snd pq)) (combine (fst rr) (snd rr))) (combine a b).
Definition pvar (i:nat) (k:Z) : P := [(map (fun j => if Nat.eqb i j then k else 0) (seq 0 NV), dconst 1%Q)].
