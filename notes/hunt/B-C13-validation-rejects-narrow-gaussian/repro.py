"""C13: validation (perform_checks=True) rejects valid, smooth, normalised pulses whose waveform is narrow - including the package's own GaussianPulse.
Reference: own Gauss-Legendre quadrature refined around loc, showing the pulse is non-negative, integrates to 1 and its parametrisation is the running integral."""
import sys, warnings
import numpy as np
from quantum_gates._gates.pulse import GaussianPulse, Pulse
xs, ws = np.polynomial.legendre.leggauss(40)
def integ(f, lo, hi, loc, scale):
    edges = np.unique(np.clip(np.concatenate([np.linspace(lo, hi, 2001), loc + scale*np.linspace(-12, 12, 2001)]), lo, hi))
    l, h = edges[:-1], edges[1:]; mid, half = (l+h)/2, (h-l)/2
    return np.sum(f(mid[:, None] + half[:, None]*xs[None, :])*ws[None, :]*half[:, None])
bad = 0
for loc, scale in [(0.3, 0.001), (0.5, 0.001), (0.11, 0.002), (0.5, 1e-8)]:
    p = GaussianPulse(loc=loc, scale=scale)               # accepted without checks
    f, F = p.get_pulse(), p.get_parametrization()
    total = integ(f, 0, 1, loc, scale) if scale > 1e-6 else float("nan")
    dev = max(abs(integ(f, 0, x, loc, scale) - F(x)) for x in np.linspace(1e-6, 1-1e-6, 10)) if scale > 1e-6 else float("nan")
    mono = bool(np.all(np.diff(F(np.linspace(0, 1, 5001))) >= 0))
    try:
        with warnings.catch_warnings():
            warnings.simplefilter("ignore")
            GaussianPulse(loc=loc, scale=scale, perform_checks=True)
        verdict = "accepted"
    except AssertionError as e:
        verdict = f"REJECTED ({e})"; bad += 1
    print(f"GaussianPulse(loc={loc}, scale={scale}): integral of waveform={total:.12g}, F(0)={F(0)}, F(1)={F(1)}, monotone={mono}, "
          f"max|running integral - F| at the 10 check points={dev:.1e}  -> expected: accepted, actual: {verdict}")
print("DEFECT PRESENT" if bad else "ok")
sys.exit(1 if bad else 0)
