"""C14: nqubit (and psi0) smaller than the number of qubits the circuit uses is not rejected; the four layered circuit
classes silently return a wrong table (BinaryCircuit dies with IndexError).

Run: cd /tmp/hunt/repoC && OMP_NUM_THREADS=1 OPENBLAS_NUM_THREADS=1 PYTHONPATH=/tmp/hunt/repoC/src IBM_TOKEN=x /venv/bin/python -W ignore <this file>
Exit code 1 = defect present.
"""
import sys
import numpy as np
from qiskit import QuantumCircuit
from quantum_gates._simulation.simulator import MrAndersonSimulator
from quantum_gates._simulation.circuit import Circuit, StandardCircuit, EfficientCircuit, OneCircuit, BinaryCircuit
from quantum_gates._gates.gates import noise_free_gates

n = 3
dp = {"T1": np.full(n, 1e-4), "T2": np.full(n, 1e-4), "p": np.full(n, 1e-4), "rout": np.full(n, 1e-2),
      "p_int": np.full((n, n), 1e-2), "t_int": np.full((n, n), 5e-7), "tm": np.full(n, 1e-6),
      "dt": np.array([2.2e-10]), "metadata": {}}

qc = QuantumCircuit(3, 2)          # uses qubits 0, 1, 2
qc.x(0); qc.x(1); qc.x(2)
qc.measure(0, 0); qc.measure(1, 1)

failed = False
print("circuit: x(0); x(1); x(2); measure(0->c0); measure(1->c1)   [3 used qubits]")
print("call   : run(qc, [0,1,2], psi0=|00> (length 4), shots=1, device_param (3 qubits), nqubit=2)")
print("expected: ValueError (inconsistent arguments), or at least the correct table {'11': 1}")
for cls in (Circuit, StandardCircuit, EfficientCircuit, OneCircuit, BinaryCircuit):
    psi0 = np.zeros(4, complex); psi0[0] = 1
    try:
        res = MrAndersonSimulator(gates=noise_free_gates, CircuitClass=cls).run(
            t_qiskit_circ=qc, qubits_layout=[0, 1, 2], psi0=psi0, shots=1, device_param=dp, nqubit=2)
    except ValueError as e:
        print(f"ok [{cls.__name__}] rejected with ValueError: {e}")
        continue
    except Exception as e:       # noqa
        failed = True
        print(f"VIOLATION [{cls.__name__}] raised {type(e).__name__}: {e}  (not a ValueError)")
        continue
    failed = True
    print(f"VIOLATION [{cls.__name__}] returned a result instead of rejecting:",
          {k: round(float(v), 9) for k, v in res.items()}, " (the circuit's ideal table is {'11': 1})")

# ---- variant 2: the second qubit is "used" only by a 2-qubit barrier (known observation: such a qubit counts as used);
# the user counts one qubit -> nqubit=1, psi0 of length 2. All five classes, BinaryCircuit included, return a wrong one-key table.
qc2 = QuantumCircuit(2, 1)
qc2.x(0); qc2.barrier(); qc2.measure(0, 0)
print("\ncircuit: x(0); barrier(0,1); measure(0->c0);  call: run(qc2, [0], psi0=|0> (length 2), shots=1, device_param, nqubit=1)")
print("expected: ValueError, or the correct table {'0': 0, '1': 1}")
for cls in (Circuit, StandardCircuit, EfficientCircuit, OneCircuit, BinaryCircuit):
    try:
        res = MrAndersonSimulator(gates=noise_free_gates, CircuitClass=cls).run(
            t_qiskit_circ=qc2, qubits_layout=[0], psi0=np.array([1, 0], complex), shots=1, device_param=dp, nqubit=1)
    except ValueError as e:
        print(f"ok [{cls.__name__}] rejected with ValueError: {e}")
        continue
    except Exception as e:       # noqa
        failed = True
        print(f"VIOLATION [{cls.__name__}] raised {type(e).__name__}: {e}  (not a ValueError)")
        continue
    if set(res) != {"0", "1"} or abs(res["1"] - 1) > 1e-9:
        failed = True
        print(f"VIOLATION [{cls.__name__}] returned", {k: round(float(v), 9) for k, v in res.items()}, "instead of {'0': 0, '1': 1}")
sys.exit(1 if failed else 0)
