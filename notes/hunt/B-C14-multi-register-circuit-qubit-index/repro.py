"""C14: circuits with more than one quantum register are mis-read (the simulator uses the register-local private Qubit._index): a valid 3-qubit circuit is rejected with
nqubit=3 and silently gives a wrong table with nqubit=2. Reference: qiskit Statevector of the same circuit."""
import sys
import numpy as np
from qiskit import QuantumCircuit, QuantumRegister, ClassicalRegister, transpile
from qiskit.quantum_info import Statevector
from quantum_gates._simulation.simulator import MrAndersonSimulator
from quantum_gates._simulation.circuit import BinaryCircuit
from quantum_gates._gates.gates import noise_free_gates
a, b, c = QuantumRegister(1, "a"), QuantumRegister(2, "b"), ClassicalRegister(3, "c")
src = QuantumCircuit(a, b, c); src.x(a[0]); src.h(b[0]); src.cx(b[0], b[1]); src.measure([a[0], b[0], b[1]], [0, 1, 2])
qc = transpile(src, basis_gates=["rz", "sx", "x", "cx"], optimization_level=0)     # native basis, registers are kept
print("registers:", qc.qregs, " ops:", [(i.operation.name, [qc.find_bit(q).index for q in i.qubits]) for i in qc.data])
ideal = {}
noM = qc.remove_final_measurements(inplace=False)
for k, v in Statevector(noM).probabilities_dict().items():
    ideal[k[::-1]] = ideal.get(k[::-1], 0) + v        # key char k = qubit k (measured in ascending order)
ideal = {k: round(float(v), 12) for k, v in ideal.items() if v > 1e-12}
print("ideal outcome (keys q0 q1 q2):", ideal)
dp = {"T1": np.zeros(3), "T2": np.zeros(3), "p": np.zeros(3), "rout": np.zeros(3), "p_int": np.zeros((3, 3)), "t_int": np.full((3, 3), 3e-7), "tm": np.ones(3)*1e-6,
      "dt": np.array([2.2e-10]), "metadata": {}}
sim = MrAndersonSimulator(gates=noise_free_gates, CircuitClass=BinaryCircuit)
bad = 0
for nq in (3, 2):
    psi0 = np.zeros(2**nq); psi0[0] = 1
    try:
        res = sim.run(t_qiskit_circ=qc, qubits_layout=list(range(nq)), psi0=psi0, shots=1, device_param=dp, nqubit=nq)
        res = {k: round(float(v), 12) for k, v in res.items() if v > 1e-12}
        print(f"nqubit={nq}: actual {res}"); ok = (res == ideal)
    except Exception as e:
        print(f"nqubit={nq}: actual {type(e).__name__}: {e}"); ok = False
    bad += (nq == 3 and not ok) or (nq == 2 and 'res' in dir() and not ok)
print("DEFECT PRESENT" if bad else "ok")
sys.exit(1 if bad else 0)
