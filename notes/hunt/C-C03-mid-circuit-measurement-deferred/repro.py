"""C03: a measurement that is followed by further gates on the measured qubit is silently moved to the end of the circuit.

Run: cd /tmp/hunt/repoC && OMP_NUM_THREADS=1 OPENBLAS_NUM_THREADS=1 PYTHONPATH=/tmp/hunt/repoC/src IBM_TOKEN=x /venv/bin/python -W ignore <this file>
Exit code 1 = defect present.
"""
import sys
import numpy as np
from qiskit import QuantumCircuit
from quantum_gates._simulation.simulator import MrAndersonSimulator
from quantum_gates._simulation.circuit import Circuit, StandardCircuit, EfficientCircuit, OneCircuit, BinaryCircuit
from quantum_gates._gates.gates import noise_free_gates

X = np.array([[0, 1], [1, 0]], complex)
SX = 0.5 * np.array([[1 + 1j, 1 - 1j], [1 - 1j, 1 + 1j]])
CX = np.eye(4)[[0, 1, 3, 2]].astype(complex)           # big-endian: first qubit = control
MATS = {"x": X, "sx": SX, "cx": CX}


def ideal_classical_distribution(qc):
    """Independent reference: exact distribution of the classical bits of a circuit with projective
    measurements anywhere (branching on every measurement outcome). Key character k = k-th measure instruction."""
    n = qc.num_qubits
    branches = [(1.0, np.eye(2 ** n)[0].astype(complex).reshape([2] * n), "")]
    for ins in qc.data:
        name = ins.operation.name
        qs = [qc.find_bit(q).index for q in ins.qubits]
        new = []
        for prob, psi, key in branches:
            if name == "measure":
                q = qs[0]
                for outcome in (0, 1):
                    proj = np.take(psi, outcome, axis=q)
                    p = float(np.sum(np.abs(proj) ** 2))
                    if p > 1e-15:
                        post = np.zeros_like(psi)
                        idx = [slice(None)] * n
                        idx[q] = outcome
                        post[tuple(idx)] = proj / np.sqrt(p)
                        new.append((prob * p, post, key + str(outcome)))
            elif name in MATS:
                U = MATS[name]
                if len(qs) == 1:
                    psi2 = np.moveaxis(np.tensordot(U, psi, axes=([1], qs)), 0, qs[0])
                else:
                    psi2 = np.moveaxis(np.tensordot(U.reshape(2, 2, 2, 2), psi, axes=([2, 3], qs)), [0, 1], qs)
                new.append((prob, psi2, key))
            else:
                new.append((prob, psi, key))
        branches = new
    out = {}
    for prob, _, key in branches:
        out[key] = out.get(key, 0.0) + prob
    return out


def device(n):
    return {"T1": np.full(n, 1e-4), "T2": np.full(n, 1e-4), "p": np.full(n, 1e-4), "rout": np.full(n, 1e-2),
            "p_int": np.full((n, n), 1e-2), "t_int": np.full((n, n), 5e-7), "tm": np.full(n, 1e-6),
            "dt": np.array([2.2e-10]), "metadata": {}}


def build(kind):
    if kind == "x; measure; x":
        qc = QuantumCircuit(1, 1); qc.x(0); qc.measure(0, 0); qc.x(0)
    elif kind == "measure; x":
        qc = QuantumCircuit(1, 1); qc.measure(0, 0); qc.x(0)
    else:  # x(0); measure(0->c0); cx(0,1); x(0); measure(1->c1)
        qc = QuantumCircuit(2, 2); qc.x(0); qc.measure(0, 0); qc.cx(0, 1); qc.x(0); qc.measure(1, 1)
    return qc


failed = False
for kind in ["x; measure; x", "measure; x", "x0; measure0; cx01; x0; measure1"]:
    qc = build(kind)
    n = qc.num_qubits
    expected = ideal_classical_distribution(qc)
    for cls in (Circuit, StandardCircuit, EfficientCircuit, OneCircuit, BinaryCircuit):
        sim = MrAndersonSimulator(gates=noise_free_gates, CircuitClass=cls)
        psi0 = np.zeros(2 ** n, complex); psi0[0] = 1
        res = sim.run(t_qiskit_circ=qc, qubits_layout=list(range(n)), psi0=psi0, shots=1, device_param=device(n), nqubit=n)
        dev = max(abs(res.get(k, 0.0) - expected.get(k, 0.0)) for k in set(res) | set(expected))
        if dev > 1e-9:
            failed = True
            print(f"VIOLATION [{cls.__name__}] circuit '{kind}' (noise-free gate set, psi0=|0..0>):")
            print("   expected (ideal circuit):", {k: round(v, 9) for k, v in expected.items() if v > 1e-12})
            print("   simulator returned      :", {k: round(float(v), 9) for k, v in res.items() if v > 1e-12})
if failed:
    sys.exit(1)
print("no deviation: mid-circuit measurements are honoured")
