"""C11 (adjacent): BinaryCircuit cannot be constructed with the documented argument type qubit_layout: np.array (more than one element)."""
import sys
import numpy as np
from quantum_gates._simulation.circuit import BinaryCircuit
from quantum_gates._gates.gates import noise_free_gates
bad = 0
for lay in ([0, 1, 2], np.array([0, 1, 2]), np.array([4, 7, 9])):
    try:
        c = BinaryCircuit(nqubit=3, depth=1, gates=noise_free_gates, qubit_layout=lay)
        c.X(0, 0, 0, 0); c.CNOT(0, 2, 3e-7, 0, 0, 0, 0, 0, 0, 0); c.I(1)
        psi = c.statevector(np.eye(8)[0]); c.reset()
        print(f"qubit_layout={lay!r}: constructed, |psi|^2 = {np.round(np.abs(psi)**2, 6)}")
    except Exception as e:
        print(f"qubit_layout={lay!r}: expected a circuit object, actual {type(e).__name__}: {e}"); bad += 1
print("DEFECT PRESENT" if bad else "ok")
sys.exit(1 if bad else 0)
