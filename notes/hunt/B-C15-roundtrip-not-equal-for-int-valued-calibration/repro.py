"""C15: device parameters imported from FakeBrussels / FakeStrasbourg do not compare equal to themselves after a save/load round trip (JSON and text)."""
import sys, io, contextlib, tempfile
import numpy as np
from qiskit_ibm_runtime.fake_provider import FakeBrussels, FakeStrasbourg
from quantum_gates._utility.device_parameters import DeviceParameters
bad = 0
for B in (FakeBrussels, FakeStrasbourg):
    layout = list(range(127))
    dp = DeviceParameters(layout)
    with contextlib.redirect_stdout(io.StringIO()):
        dp.load_from_backend(B())
    ints = [(k, i, v) for k in ("T1", "T2", "p", "rout", "tm") for i, v in enumerate(getattr(dp, k)) if isinstance(v, int)]
    for fmt in ("json", "text"):
        loc = tempfile.mkdtemp() + "/"
        new = DeviceParameters(layout)
        with contextlib.redirect_stdout(io.StringIO()):
            (dp.save_to_json if fmt == "json" else dp.save_to_texts)(loc)
            (new.load_from_json if fmt == "json" else new.load_from_texts)(loc)
        same_values = all(np.array_equal(np.asarray(getattr(dp, k), dtype=float), np.asarray(getattr(new, k), dtype=float)) for k in ("T1", "T2", "p", "rout", "p_int", "t_int", "tm", "dt"))
        eq = (new == dp)
        print(f"{B.__name__} full layout, {fmt}: arrays numerically identical={same_values}; expected new == original: True, actual: {eq}; int-typed entries in the original: {ints[:3]}")
        bad += not eq
# minimal synthetic version
dp = DeviceParameters([0, 1]); dp.T1 = [1e-4, 2e-4]; dp.T2 = [1e-4, 2e-4]; dp.p = [2e-4, 1]; dp.rout = [0.01, 0.02]; dp.tm = [1e-6, 1e-6]; dp.dt = [2.2e-10]
dp.p_int = np.zeros((2, 2)); dp.t_int = np.zeros((2, 2)); dp.metadata = {}
loc = tempfile.mkdtemp() + "/"; new = DeviceParameters([0, 1])
with contextlib.redirect_stdout(io.StringIO()):
    dp.save_to_json(loc); new.load_from_json(loc)
print("synthetic p=[2e-4, 1]: expected equal, actual", new == dp); bad += not (new == dp)
print("DEFECT PRESENT" if bad else "ok")
sys.exit(1 if bad else 0)
