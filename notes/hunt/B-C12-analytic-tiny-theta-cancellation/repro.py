"""C12: the closed forms of the analytic lookup lose all significance for tiny |theta| (catastrophic cancellation) and for subnormal theta.
Reference: leading Taylor terms (exact to 1e-16 relative for |theta| <= 1e-6) / the theta -> 0 limit."""
import sys
import numpy as np
from quantum_gates._gates.integrator import Integrator
from quantum_gates._gates.pulse import ConstantPulse, ConstantPulseNumerical
np.seterr(all="ignore")
ana, num = Integrator(ConstantPulse()), Integrator(ConstantPulseNumerical())
bad = 0
# (a) "sin(theta/a)": int_0^a sin(theta t/a) dt = a(1-cos theta)/theta = a*theta/2 * (1 - theta^2/12 + ...)
for th in [1e-8, -1e-8, 1e-9, 1.5e-8, 1e-7, 1e-6]:
    for a in [1, 7.3]:
        exp = a*th/2*(1 - th*th/12)
        got = ana.integrate("sin(theta/a)", th, a); n = num.integrate("sin(theta/a)", th, a)
        rel = abs(got-exp)/abs(exp)
        flag = rel > 1e-6
        bad += flag
        print(f"'sin(theta/a)' theta={th:g} a={a}: expected {exp:.10e}, analytic {got:.10e} (rel.err {rel:.1e}), numerical {n:.10e}{'   <-- WRONG' if flag else ''}")
# (b) subnormal theta: value must equal the theta=0 limit a*g(0)
for name, lim in [("cos(theta/a)**2", 1.0), ("cos(theta/(2*a))**2", 1.0)]:
    for a in [7.3, 1e-3]:
        th = 5e-324
        got = ana.integrate(name, th, a); exp = a*lim
        flag = abs(got-exp)/a > 1e-9
        bad += flag
        print(f"{name!r} theta={th} a={a}: expected {exp}, analytic {got}, numerical {num.integrate(name, th, a)}{'   <-- WRONG' if flag else ''}")
print("DEFECT PRESENT" if bad else "ok")
sys.exit(1 if bad else 0)
