"""C12: Integrator(GaussianPulse(loc, scale)) returns a wrong integral for narrow pulses (scale <= 0.005) at theta = pi
(the X gate angle), a = 1; and for tiny durations a the error relative to a grows because quad's absolute tolerance wins.
Reference: own composite Gauss-Legendre quadrature with an erfc-based truncated-normal CDF (no package code)."""
import sys, warnings
import numpy as np
from scipy.special import erfc
from quantum_gates._gates.integrator import Integrator
from quantum_gates._gates.pulse import GaussianPulse

G = {"cos(theta/a)**2": lambda x: np.cos(x)**2, "sin(theta/a)**2": lambda x: np.sin(x)**2, "sin(theta/a)": np.sin}

def F_ref(s, loc, scale):
    z = lambda x: (x - loc) / (scale * np.sqrt(2))
    if loc > 0.5:
        P = lambda x: 0.5 * erfc(-z(x)); return (P(s) - P(0.0)) / (P(1.0) - P(0.0))
    Q = lambda x: 0.5 * erfc(z(x)); return (Q(0.0) - Q(s)) / (Q(0.0) - Q(1.0))

xs, ws = np.polynomial.legendre.leggauss(40)
def ref(name, theta, a, loc, scale):
    edges = np.unique(np.clip(np.concatenate([np.linspace(0, 1, 4001), loc + scale*np.linspace(-12, 12, 2001)]), 0, 1))
    lo, hi = edges[:-1], edges[1:]; mid, half = (lo+hi)/2, (hi-lo)/2
    S = mid[:, None] + half[:, None]*xs[None, :]
    return a*np.sum(G[name](theta*F_ref(S, loc, scale))*ws[None, :]*half[:, None])   # int_0^a g(theta F(t/a)) dt

TOL = 1e-7   # relative to a; scipy.quad's own target is 1.5e-8, the property asks for "the integral"
cases = [("cos(theta/a)**2", np.pi, 1, 0.19, 0.005), ("sin(theta/a)", np.pi, 1, 0.77, 0.003), ("sin(theta/a)**2", np.pi, 3.3, 0.3, 0.001),
         ("sin(theta/a)", 7.0, 1e-9, 0.3, 0.02)]
bad = 0
for name, theta, a, loc, scale in cases:
    with warnings.catch_warnings(record=True) as w:
        warnings.simplefilter("always")
        got = Integrator(GaussianPulse(loc=loc, scale=scale)).integrate(name, theta, a)
    exp = ref(name, theta, a, loc, scale)
    err = abs(got-exp)/a
    print(f"GaussianPulse(loc={loc}, scale={scale}), integrand={name!r}, theta={theta!r}, a={a!r}: expected {exp:.12g}, actual {got:.12g}, |err|/a = {err:.2e}, warnings={len(w)}")
    bad += err > TOL
print("DEFECT PRESENT" if bad else "ok")
sys.exit(1 if bad else 0)
