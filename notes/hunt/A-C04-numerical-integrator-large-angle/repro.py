"""C04: for gate sets that integrate numerically (numerical_gates, Gaussian pulses) the Ito covariances and the
relaxation drift are wrong for rotation angles |theta| >~ 450 rad (quad runs out of subdivisions silently).

Run: cd /tmp/hunt/repoA && PYTHONPATH=/tmp/hunt/repoA/src IBM_TOKEN=x /venv/bin/python -W ignore repro.py
Exits 1 when the defect is present.
"""
import sys
import numpy as np
import scipy.linalg
from quantum_gates._gates.gates import Gates, numerical_gates, standard_gates
from quantum_gates._gates.pulse import GaussianPulse

tg = 35e-9
failed = False

# --- 1. covariance entries used by the single-qubit gate, constant pulse, a = 1: exact closed forms ----------------
def exact(theta):
    s, c, s2 = np.sin(theta), np.cos(theta), np.sin(2 * theta)
    return {
        "sin(theta/a)**2": 0.5 - s2 / (4 * theta),                       # Var(I1)
        "sin(theta/(2*a))**4": 3 / 8 - s / (2 * theta) + s2 / (16 * theta),  # Var(I2)
        "sin(theta/a)*sin(theta/(2*a))**2": np.sin(theta / 2) ** 4 / theta,  # Cov(I1, I2)
        "sin(theta/a)": (1 - c) / theta,                                 # Cov(I1, W)  and drift det2
        "sin(theta/(2*a))**2": 0.5 - s / (2 * theta),                    # Cov(I2, W)  and drift det1
        "cos(theta/a)**2": 0.5 + s2 / (4 * theta),
        "sin(theta/a)*cos(theta/a)": s ** 2 / (2 * theta),
        "cos(theta/(2*a))**2": 0.5 + s / (2 * theta),
    }
for theta in (100.0, 400.0, 500.0, 1000.0, -1000.0, 1e4):
    worst = max((abs(numerical_gates.integrator.integrate(k, theta, 1) - v), k) for k, v in exact(theta).items())
    print(f"numerical_gates theta={theta:>8}: worst |integral - exact| = {worst[0]:.3e}  ({worst[1]})")
    if worst[0] > 1e-7:   # quad's own default tolerance is 1.5e-8; rounding would be 1e-16
        failed = True

# --- 2. effect on a sampled gate: freeze the Gaussian draws at 0 so that G = U exp(drift) -------------------------
theta, phi, T1 = 1e4, 0.3, 5e-6
orig = np.random.multivariate_normal
np.random.multivariate_normal = lambda mean, cov, size: np.zeros((size, len(mean)))
try:
    G = numerical_gates.single_qubit_gate(theta, phi, 0.0, T1, 2 * T1)
    G_ref_pkg = standard_gates.single_qubit_gate(theta, phi, 0.0, T1, 2 * T1)     # analytic gate set, same pulse
finally:
    np.random.multivariate_normal = orig
e1sq = tg / T1
ex = exact(theta)
D = -e1sq / 2 * np.array([[ex["sin(theta/(2*a))**2"], 0.5j * np.exp(-1j * phi) * ex["sin(theta/a)"]],
                          [-0.5j * np.exp(1j * phi) * ex["sin(theta/a)"], ex["cos(theta/(2*a))**2"]]])
U = np.array([[np.cos(theta / 2), -1j * np.sin(theta / 2) * np.exp(-1j * phi)],
              [-1j * np.sin(theta / 2) * np.exp(1j * phi), np.cos(theta / 2)]])
G_exact = U @ scipy.linalg.expm(D)
print(f"theta=1e4, T1=5us, zero draws: |G_numerical - U exp(drift_exact)| = {np.abs(G - G_exact).max():.3e} "
      f"(analytic gate set: {np.abs(G_ref_pkg - G_exact).max():.1e})")
if np.abs(G - G_exact).max() > 1e-9:
    failed = True

# --- 3. Gaussian pulse against a dense Simpson rule ---------------------------------------------------------------
import scipy.integrate as si
gp = GaussianPulse(0.5, 0.25); gI = Gates(gp).integrator
t = np.linspace(0, 1, 2_000_001)
from quantum_gates._gates.integrator import Integrator
P = gp.get_parametrization()(t)
for theta in (400.0, 500.0):
    worst = (0, None)
    for k, f in Integrator._INTEGRAL_LOOKUP.items():
        ref = si.simpson(f(theta * P, 1), x=t)
        got = gI.integrate(k, theta, 1)
        worst = max(worst, (abs(got - ref), k))
    print(f"GaussianPulse(0.5,0.25) theta={theta}: worst |integral - dense Simpson| = {worst[0]:.3e} ({worst[1]})")
    if worst[0] > 1e-7:
        failed = True
if failed:
    print("DEFECT PRESENT")
    sys.exit(1)
print("ok")
