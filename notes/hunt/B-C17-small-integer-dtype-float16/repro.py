"""C17: for degenerate (0/1) distributions given as bool / int8 / uint8 / int16 arrays or lists of bools the distance is computed in float16/float32: disjoint supports give 0.99989 instead of 1."""
import sys
import numpy as np
from quantum_gates._utility.simulations_utility import compute_Hellinger_distance as H
def ref(p, q):
    p = np.asarray(p, dtype=float); q = np.asarray(q, dtype=float)
    return float(np.sqrt(max(0.0, 1 - np.sum(np.sqrt(p*q)))))
bad = 0
for label, p, q in [("list of bool", [True, False], [False, True]), ("int8", np.array([1, 0], dtype=np.int8), np.array([0, 1], dtype=np.int8)),
                    ("uint8", np.array([0, 0, 1, 0], dtype=np.uint8), np.array([1, 0, 0, 0], dtype=np.uint8)), ("int16", np.array([1, 0], dtype=np.int16), np.array([0, 1], dtype=np.int16)),
                    ("int8 vs float", np.array([1, 0], dtype=np.int8), np.array([0.5, 0.5])), ("int64 (control)", np.array([1, 0]), np.array([0, 1]))]:
    n = int(np.log2(len(p)))
    got = H(p, q, n); exp = ref(p, q)
    flag = abs(float(got) - exp) > 1e-9
    bad += flag
    print(f"{label}: p={list(p)}, q={list(q)}: expected {exp!r}, actual {got!r} (dtype {getattr(got, 'dtype', type(got))}){'   <-- WRONG' if flag else ''}")
print("DEFECT PRESENT" if bad else "ok")
sys.exit(1 if bad else 0)
