"""C14: with the calibration data of bundled fake backends (FakeAlgiers pair (10,12), FakeWashingtonV2 (38,37), FakeBrisbane (94,95), ...) a run does not return a
distribution: every shot is nan and run() dies with AssertionError. The derived cross-resonance error p_cr is negative when the two-qubit error is smaller than
roughly p_ctr + p_trg/2, and sqrt(p_cr) is nan."""
import sys, io, contextlib
import numpy as np
from qiskit import QuantumCircuit
from qiskit_ibm_runtime.fake_provider import FakeAlgiers, FakeWashingtonV2, FakeBrisbane
from quantum_gates._utility.device_parameters import DeviceParameters
from quantum_gates._simulation.simulator import MrAndersonSimulator
from quantum_gates._simulation.circuit import BinaryCircuit
from quantum_gates._gates.gates import standard_gates
np.seterr(all="ignore")
bad = 0
for B, pair, gate in [(FakeAlgiers, (10, 12), "cx"), (FakeWashingtonV2, (38, 37), "cx"), (FakeBrisbane, (94, 95), "ecr")]:
    b = B()
    dp = DeviceParameters(list(range(max(pair)+1)))
    with contextlib.redirect_stdout(io.StringIO()):
        dp.load_from_backend(b)
    d = dp.__dict__()
    qc = QuantumCircuit(b.num_qubits, 2)
    qc.sx(pair[0]); getattr(qc, gate)(*pair); qc.measure(pair[0], 0); qc.measure(pair[1], 1)
    i, j = pair
    ratio = (1-.75*d["p_int"][i][j])**2/((1-.75*d["p"][i])**2*(1-.75*d["p"][j]))
    p_cr = (4/3)*(1-np.sqrt(np.sqrt(ratio)))
    print(f"{B.__name__} pair {pair}: {gate} error={d['p_int'][i][j]:.6f}, x error ctr={d['p'][i]:.6f}, trg={d['p'][j]:.6f} -> derived p_cr={p_cr:.3e}")
    try:
        res = MrAndersonSimulator(gates=standard_gates, CircuitClass=BinaryCircuit).run(
            t_qiskit_circ=qc, qubits_layout=sorted(pair), psi0=np.array([1.0, 0, 0, 0]), shots=2, device_param=d, nqubit=2)
        vals = np.array(list(res.values()))
        ok = np.all(vals >= 0) and abs(vals.sum()-1) < 1e-9
        print("   expected: 4 non-negative probabilities summing to 1; actual:", res)
        bad += not ok
    except AssertionError as e:
        print("   expected: 4 non-negative probabilities summing to 1; actual: AssertionError:", e); bad += 1
G = standard_gates.CNOT(0.0, 0.0, 3.5e-7, 0.0102, 0.0120, 0.0005, 1e-4, 1e-4, 1e-4, 1e-4)
print("standard_gates.CNOT(0,0,3.5e-7, p_cnot=0.0102, p_ctr=0.0120, p_trg=0.0005, ...) contains nan:", bool(np.isnan(G).any()))
print("DEFECT PRESENT" if bad else "ok")
sys.exit(1 if bad else 0)
