"""C08: BinaryCircuit cannot be constructed with its documented `qubit_layout (np.array)` argument.

Run: cd /tmp/hunt/repoA && PYTHONPATH=/tmp/hunt/repoA/src IBM_TOKEN=x /venv/bin/python -W ignore repro.py
Exits 1 when the defect is present.
"""
import sys
import numpy as np
from quantum_gates._simulation.circuit import BinaryCircuit
from quantum_gates._gates.gates import noise_free_gates

failed = False
psi0 = np.zeros(8); psi0[0] = 1
expected = np.zeros(8, dtype=complex); expected[0b101] = 1          # X on internal qubits 0 and 2 (global phase removed below)
for layout in ([0, 1, 2], (0, 1, 2), np.array([0, 1, 2]), np.array([5, 9, 11])):
    try:
        c = BinaryCircuit(nqubit=3, depth=1, gates=noise_free_gates, qubit_layout=layout)
        c.X(0, 0, 0, 0); c.X(2, 0, 0, 0); c.I(1)
        out = c.statevector(psi0)
        ok = np.allclose(np.abs(out), np.abs(expected))
        print(f"qubit_layout={layout!r}: |psi| = {np.round(np.abs(out), 3).tolist()}  ok={ok}")
        failed |= not ok
    except Exception as e:
        print(f"qubit_layout={layout!r}: raised {type(e).__name__}: {e}   (expected |101>)")
        failed = True
if failed:
    print("DEFECT PRESENT")
    sys.exit(1)
print("ok")
