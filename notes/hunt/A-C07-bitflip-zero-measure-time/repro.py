"""C07: with every noise parameter (and the measurement duration) set to zero the readout gate is nan / raises.

Run: cd /tmp/hunt/repoA && PYTHONPATH=/tmp/hunt/repoA/src IBM_TOKEN=x /venv/bin/python -W ignore repro.py
Exits 1 when the defect is present.
"""
import sys
import numpy as np
from qiskit import QuantumCircuit
from quantum_gates._gates.gates import Gates, ScaledNoiseGates, standard_gates, numerical_gates, noise_free_gates
from quantum_gates._gates.pulse import GaussianPulse
from quantum_gates._simulation.simulator import MrAndersonSimulator
from quantum_gates._simulation.circuit import BinaryCircuit

failed = False
expected = noise_free_gates.bitflip(0.0, 0.0)           # the noise-free readout gate: identity
gate_sets = {"standard_gates": standard_gates, "numerical_gates": numerical_gates,
             "Gates(GaussianPulse(0.5,0.25))": Gates(GaussianPulse(0.5, 0.25)), "ScaledNoiseGates(0.5)": ScaledNoiseGates(0.5)}
for name, g in gate_sets.items():
    for tm, rout in [(0.0, 0.0), (np.float64(0.0), np.float64(0.0)), (0, 0)]:
        try:
            got = g.bitflip(tm, rout)
            ok = np.all(np.isfinite(got)) and np.allclose(got, expected, atol=1e-14)
            print(f"{name}.bitflip(tm={tm!r}, rout={rout!r}) ->", np.asarray(got).tolist(), "" if ok else "   != identity")
            failed |= not ok
        except Exception as e:
            print(f"{name}.bitflip(tm={tm!r}, rout={rout!r}) raised {type(e).__name__}: {e}   (expected identity)")
            failed = True

# The same through the simulator: the "everything off" device table for a one-qubit circuit.
qc = QuantumCircuit(1, 1); qc.sx(0); qc.measure(0, 0)
dev = dict(T1=np.zeros(1), T2=np.zeros(1), p=np.zeros(1), rout=np.zeros(1), p_int=np.zeros((1, 1)),
           t_int=np.zeros((1, 1)), tm=np.zeros(1), dt=np.array([2.2e-10]))
try:
    res = MrAndersonSimulator(gates=standard_gates, CircuitClass=BinaryCircuit).run(
        t_qiskit_circ=qc, qubits_layout=[0], psi0=np.array([1., 0.]), shots=1, device_param=dev, nqubit=1)
    print("simulator, all-zero device table ->", res, " expected {'0': 0.5, '1': 0.5}")
    failed |= not (abs(res.get('0', 0) - .5) < 1e-12 and abs(res.get('1', 0) - .5) < 1e-12)
except Exception as e:
    print(f"simulator, all-zero device table raised {type(e).__name__}: {e}   expected {{'0': 0.5, '1': 0.5}}")
    failed = True
# control: any positive tm gives the identity, i.e. the gate does not depend on tm at all
print("control standard_gates.bitflip(1e-300, 0.0) ->", standard_gates.bitflip(1e-300, 0.0).tolist())
if failed:
    print("DEFECT PRESENT")
    sys.exit(1)
print("ok")
