"""C01: EfficientBackend with optimal_chunk_size=1 raises for n >= 14 qubits instead of returning the layered product.

Run: cd /tmp/hunt/repoA && PYTHONPATH=/tmp/hunt/repoA/src IBM_TOKEN=x /venv/bin/python -W ignore repro.py
Exits 1 when the defect is present.
"""
import sys
import numpy as np
from quantum_gates._simulation.backend import EfficientBackend

rng = np.random.default_rng(0)
def reference(layer, psi, n):
    t = psi.reshape((2,) * n)
    for q, m in enumerate(layer):
        t = np.moveaxis(np.tensordot(m, t, axes=([1], [q])), 0, q)
    return t.reshape(-1)

failed = False
for n, mn, opt in [(13, 1, 1), (14, 1, 1), (14, 0, 1), (15, 1, 1)]:
    layer = [rng.normal(size=(2, 2)) + 1j * rng.normal(size=(2, 2)) for _ in range(n)]
    psi = rng.normal(size=2 ** n) + 1j * rng.normal(size=2 ** n)
    ref = reference(layer, psi, n)
    try:
        out = EfficientBackend(n, mn, opt).statevector([layer], psi)
        ok = np.allclose(out, ref, atol=1e-9 * np.abs(ref).max())
        print(f"EfficientBackend({n},{mn},{opt}): returned, matches kron reference: {ok}")
        failed |= not ok
    except Exception as e:
        print(f"EfficientBackend({n},{mn},{opt}): raised {type(e).__name__}: {e}   (expected the vector kron(layer) @ psi, norm {np.linalg.norm(ref):.6g})")
        failed = True
# control: the default settings on the same input work
layer = [rng.normal(size=(2, 2)) for _ in range(14)]; psi = rng.normal(size=2 ** 14)
print("control EfficientBackend(14) default chunks ok:", np.allclose(EfficientBackend(14).statevector([layer], psi), reference(layer, psi, 14)))
if failed:
    print("DEFECT PRESENT")
    sys.exit(1)
print("ok")
