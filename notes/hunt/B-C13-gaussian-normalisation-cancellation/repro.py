"""C13 (borderline domain): GaussianPulse objects the constructor accepts whose waveform does not integrate to 1 / is not the derivative of the parametrisation,
because cdf(1)-cdf(0) is formed by subtracting two numbers close to 1 (loc < 0) or close to 0.5 (huge scale). Mirror images (loc -> 1-loc) are exact.
Reference: own Gauss-Legendre quadrature of the returned waveform."""
import sys
import numpy as np
from quantum_gates._gates.pulse import GaussianPulse
xs, ws = np.polynomial.legendre.leggauss(40)
def integ(f, lo, hi, n=400):
    e = np.linspace(lo, hi, n+1); l, h = e[:-1], e[1:]; mid, half = (l+h)/2, (h-l)/2
    return np.sum(f(mid[:, None] + half[:, None]*xs[None, :])*ws[None, :]*half[:, None])
bad = 0
for loc, scale, mirror in [(-1.0, 0.13, 2.0), (-6.0, 1.0, 7.0), (-8.0, 1.0, 9.0), (0.5, 1e10, None), (0.5, 1e12, None), (0.5, 1e14, None), (0.5, 1e15, None)]:
    p = GaussianPulse(loc=loc, scale=scale); f, F = p.get_pulse(), p.get_parametrization()
    tot = integ(f, 0, 1); dev = max(abs(integ(f, 0, x) - F(x)) for x in (0.25, 0.5, 0.75))
    msg = f"GaussianPulse(loc={loc}, scale={scale}) accepted: integral of waveform on [0,1] = {tot:.10f} (expected 1), max|running integral - F| = {dev:.2e}"
    if mirror is not None:
        q = GaussianPulse(loc=mirror, scale=scale); msg += f";  mirror loc={mirror}: integral = {integ(q.get_pulse(), 0, 1):.10f}"
    flag = abs(tot-1) > 1e-6 or dev > 1e-6
    bad += flag
    print(msg + ("   <-- WRONG" if flag else ""))
print("DEFECT PRESENT" if bad else "ok")
sys.exit(1 if bad else 0)
