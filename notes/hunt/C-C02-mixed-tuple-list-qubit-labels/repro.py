"""C02: one-qubit items whose qubit label is given once as the tuple (q,) and once as the list [q] are not merged by
optimisation level 1 (tuple == list is False); level 2 then fuses them into the neighbouring two-qubit gate in the
wrong order. BinaryBackend.statevector (always level 4) returns a wrong vector without any message.

Run: cd /tmp/hunt/repoC && OMP_NUM_THREADS=1 OPENBLAS_NUM_THREADS=1 PYTHONPATH=/tmp/hunt/repoC/src IBM_TOKEN=x /venv/bin/python -W ignore <this file>
Exit code 1 = defect present.
"""
import sys
import copy
import numpy as np
from quantum_gates._utility.circ_optimizer import Optimizer
from quantum_gates._simulation.backend import BinaryBackend

rng = np.random.RandomState(0)
A = rng.randn(2, 2) + 1j * rng.randn(2, 2)
B = rng.randn(2, 2) + 1j * rng.randn(2, 2)
C = rng.randn(4, 4) + 1j * rng.randn(4, 4)
n = 2


def operator(items):
    """independent reference: apply the items one after another with tensordot"""
    U = np.eye(2 ** n, dtype=complex).reshape([2] * n + [2 ** n])
    for M, q in items:
        q = [int(x) for x in q if x != -1]
        if len(q) == 1:
            U = np.moveaxis(np.tensordot(M, U, axes=([1], q)), 0, q[0])
        else:
            U = np.moveaxis(np.tensordot(M.reshape(2, 2, 2, 2), U, axes=([2, 3], q)), [0, 1], q)
    return U.reshape(2 ** n, 2 ** n)


variants = {
    "[C,[0,1]], [A,(0,)], [B,[0]]   (tuple then list)": [[C, [0, 1]], [A, (0,)], [B, [0]]],
    "[C,[0,1]], [A,[0]], [B,(0,)]   (list then tuple)": [[C, [0, 1]], [A, [0]], [B, (0,)]],
    "[C,(0,1)], [A,(0,-1)], [B,[0]] (tuples that ARE normalised: control)": [[C, (0, 1)], [A, (0, -1)], [B, [0]]],
    "[C,[0,1]], [A,(0,)], [B,(0,)]  (tuples only: control)": [[C, [0, 1]], [A, (0,)], [B, (0,)]],
}
failed = False
psi0 = rng.randn(4) + 1j * rng.randn(4)
for name, items in variants.items():
    ref = operator(items)
    for level in (2, 3, 4):
        out = Optimizer(level_opt=level, circ_list=copy.deepcopy(items), qubit_list=[0, 1]).optimize()
        err = np.abs(operator(out) - ref).max()
        if err > 1e-9:
            failed = True
            print(f"VIOLATION level {level}: {name}: optimised list is not equivalent, max |dU| = {err:.3g} "
                  f"(it equals B-then-A: {np.abs(operator(out) - operator([items[0], items[2], items[1]])).max():.1g})")
    got = BinaryBackend(n).statevector(copy.deepcopy(items), psi0)
    err = np.abs(got - ref @ psi0).max()
    if err > 1e-9:
        failed = True
        print(f"VIOLATION BinaryBackend.statevector: {name}: max deviation from item-by-item application {err:.3g}")
    else:
        print(f"ok: {name}")
sys.exit(1 if failed else 0)
