"""C03 / C08: the simulator addresses qubits by the private, register-local Qubit._index. For a circuit with ONE register
whose bit order differs from the circuit's qubit order (QuantumCircuit.reverse_bits(), or bits added by hand) the
multi-register repair (simulator.py:99-102) does not trigger and every gate is simulated on the wrong qubit.

Run: cd /tmp/hunt/repoC && OMP_NUM_THREADS=1 OPENBLAS_NUM_THREADS=1 PYTHONPATH=/tmp/hunt/repoC/src IBM_TOKEN=x /venv/bin/python -W ignore <this file>
Exit code 1 = defect present.
"""
import sys
import numpy as np
from qiskit import QuantumCircuit, QuantumRegister, ClassicalRegister
from qiskit.circuit import Qubit
from qiskit.quantum_info import Statevector
from quantum_gates._simulation.simulator import MrAndersonSimulator
from quantum_gates._simulation.circuit import Circuit, StandardCircuit, EfficientCircuit, OneCircuit, BinaryCircuit
from quantum_gates._gates.gates import NoiseFreeGates, noise_free_gates

failed = False


def device(n):
    # pairwise distinct per-qubit values
    return {"T1": 1e-4 * (1 + np.arange(n)), "T2": 0.7e-4 * (1 + np.arange(n)), "p": 1e-4 * (1 + np.arange(n)),
            "rout": 1e-2 * (1 + np.arange(n)), "p_int": np.full((n, n), 1e-2), "t_int": np.full((n, n), 5e-7),
            "tm": 1e-6 * (1 + np.arange(n)), "dt": np.array([2.2e-10]), "metadata": {}}


# ---------------------------------------------------------------- part 1: C03, reverse_bits()
base = QuantumCircuit(2, 2)
base.x(0)
base.measure([0, 1], [0, 1])
qc = base.reverse_bits()           # one register 'q', X now sits on circuit qubit 1
assert len(qc.qregs) == 1 and len(qc.cregs) == 1
x_ins = qc.data[0]
assert x_ins.operation.name == "x"
circuit_index = qc.find_bit(x_ins.qubits[0]).index          # public API: 1
register_index = x_ins.qubits[0]._index                     # private attribute used by the simulator: 0

# initial state |q0 q1> = |1 0>  (tensor factors by ascending qubit index, most significant first)
psi0 = np.zeros(4, complex)
psi0[0b10] = 1

# independent reference with qiskit (little-endian: amplitude index = q1*2 + q0)
psi0_le = np.zeros(4, complex)
psi0_le[0b01] = 1                                            # q0 = 1, q1 = 0
final = Statevector(psi0_le).evolve(qc.remove_final_measurements(inplace=False))
probs_le = final.probabilities()
# key character k = bit of the k-th measured qubit
meas_qubits = [qc.find_bit(i.qubits[0]).index for i in qc.data if i.operation.name == "measure"]
expected = {}
for idx, p in enumerate(probs_le):
    bits = {q: (idx >> q) & 1 for q in range(2)}
    key = "".join(str(bits[q]) for q in meas_qubits)
    expected[key] = expected.get(key, 0.0) + float(p)

print(f"circuit: reverse_bits() of [x(0); measure]: X acts on circuit qubit {circuit_index} (Qubit._index = {register_index})")
for cls in (Circuit, StandardCircuit, EfficientCircuit, OneCircuit, BinaryCircuit):
    res = MrAndersonSimulator(gates=noise_free_gates, CircuitClass=cls).run(
        t_qiskit_circ=qc, qubits_layout=[0, 1], psi0=psi0.copy(), shots=1, device_param=device(2), nqubit=2)
    dev = max(abs(res.get(k, 0.0) - expected.get(k, 0.0)) for k in set(res) | set(expected))
    if dev > 1e-9:
        failed = True
        print(f"VIOLATION C03 [{cls.__name__}] psi0=|q0=1,q1=0>: expected",
              {k: round(v, 9) for k, v in expected.items() if v > 1e-12}, "got",
              {k: round(float(v), 9) for k, v in res.items() if v > 1e-12})


# ---------------------------------------------------------------- part 2: C08, calibration row of the wrong qubit
class Recording(NoiseFreeGates):
    log = []

    def X(self, phi, p, T1, T2):
        Recording.log.append(("X", p, T1, T2))
        return super().X(phi, p, T1, T2)


dp = device(2)
Recording.log = []
MrAndersonSimulator(gates=Recording(), CircuitClass=BinaryCircuit).run(
    t_qiskit_circ=qc, qubits_layout=[0, 1], psi0=psi0.copy(), shots=1, device_param=dp, nqubit=2)
name, p_used, T1_used, T2_used = Recording.log[0]
if not (p_used == dp["p"][circuit_index] and T1_used == dp["T1"][circuit_index]):
    failed = True
    print(f"VIOLATION C08: X on circuit qubit {circuit_index} sampled with p={p_used}, T1={T1_used} "
          f"(row {list(dp['p']).index(p_used)} of the device table); expected p={dp['p'][circuit_index]}, T1={dp['T1'][circuit_index]}")

# ---------------------------------------------------------------- part 3: one register + one loose qubit -> TypeError
qc3 = QuantumCircuit(QuantumRegister(2, "q"), [Qubit()], ClassicalRegister(3, "c"))
qc3.x(2)
qc3.measure([0, 1, 2], [0, 1, 2])
try:
    psi = np.zeros(8, complex); psi[0] = 1
    res = MrAndersonSimulator(gates=noise_free_gates, CircuitClass=BinaryCircuit).run(qc3, [0, 1, 2], psi, 1, device(3), 3)
    if abs(res.get("001", 0) - 1) > 1e-9:
        failed = True
        print("VIOLATION C03: register + loose qubit: expected {'001': 1}, got", res)
except Exception as e:   # noqa
    failed = True
    print(f"VIOLATION C03: QuantumCircuit(QuantumRegister(2), [Qubit()], c) with x(2): run raised {type(e).__name__}: {e}; expected {{'001': 1}}")

sys.exit(1 if failed else 0)
