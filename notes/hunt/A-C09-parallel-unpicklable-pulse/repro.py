"""C09: parallel mode cannot run a gate set built from the Pulse example of the package docs (lambdas) although
sequential mode can.

Run: cd /tmp/hunt/repoA && PYTHONPATH=/tmp/hunt/repoA/src IBM_TOKEN=x /venv/bin/python -W ignore repro.py
Exits 1 when the defect is present.
"""
import sys, io, contextlib
import numpy as np
from qiskit import QuantumCircuit
from quantum_gates._gates.gates import Gates
from quantum_gates._gates.pulse import Pulse
from quantum_gates._simulation.simulator import MrAndersonSimulator
from quantum_gates._simulation.circuit import BinaryCircuit


def main():
    # exactly the example of the Pulse docstring (pulse.py:33-40)
    pulse = Pulse(pulse=lambda x: 1, parametrization=lambda x: x, perform_checks=False)
    gates = Gates(pulse)
    qc = QuantumCircuit(2, 2); qc.sx(0); qc.cx(0, 1); qc.measure([0, 1], [0, 1])
    N = 2
    dev = dict(T1=np.full(N, 1e-4), T2=np.full(N, 1e-4), p=np.full(N, 1e-3), rout=np.full(N, 1e-2),
               p_int=np.full((N, N), 1e-2), t_int=np.full((N, N), 3e-7), tm=np.full(N, 1e-6), dt=np.array([2.2e-10]))
    kw = dict(t_qiskit_circ=qc, qubits_layout=[0, 1], psi0=np.array([1., 0, 0, 0]), shots=4, device_param=dev, nqubit=2)
    np.random.seed(0)
    seq = MrAndersonSimulator(gates=gates, CircuitClass=BinaryCircuit, parallel=False).run(**kw)
    print("sequential:", {k: round(float(v), 6) for k, v in sorted(seq.items())})
    try:
        with contextlib.redirect_stdout(io.StringIO()):
            par = MrAndersonSimulator(gates=gates, CircuitClass=BinaryCircuit, parallel=True).run(**kw)
        print("parallel  :", {k: round(float(v), 6) for k, v in sorted(par.items())})
    except Exception as e:
        print(f"parallel  : raised {type(e).__name__}: {e}   (expected a mean over 4 independent shots like the sequential run)")
        print("DEFECT PRESENT")
        sys.exit(1)
    print("ok")


if __name__ == "__main__":
    main()
