"""C03 / C08: a native-basis circuit with more than one quantum register is simulated on the wrong qubits.

Run: cd /tmp/hunt/repoA && PYTHONPATH=/tmp/hunt/repoA/src IBM_TOKEN=x /venv/bin/python -W ignore repro.py
Exits 1 when the defect is present.
"""
import sys
import numpy as np
from qiskit import QuantumCircuit, QuantumRegister, ClassicalRegister
from qiskit.quantum_info import Statevector
from quantum_gates._simulation.simulator import MrAndersonSimulator
from quantum_gates._simulation.circuit import BinaryCircuit, EfficientCircuit
from quantum_gates._gates.gates import noise_free_gates

# Three qubits in two registers a[0], a[1], b[0] = circuit qubits 0, 1, 2. Only b[0] is flipped.
a = QuantumRegister(2, 'a'); b = QuantumRegister(1, 'b'); c = ClassicalRegister(3, 'c')
qc = QuantumCircuit(a, b, c)
qc.x(b[0])
qc.measure(a[0], 0); qc.measure(a[1], 1); qc.measure(b[0], 2)

# Independent reference (qiskit): key char k = bit of k-th measured qubit -> '001' with probability 1.
sv = Statevector.from_label('000').evolve(qc.remove_final_measurements(inplace=False))
probs = sv.probabilities_dict()                       # little endian: key[-1-q] is qubit q
expected = {}
for key, p in probs.items():
    k = ''.join(key[-1 - q] for q in (0, 1, 2))
    expected[k] = expected.get(k, 0) + p
expected = {k: v for k, v in expected.items() if v > 1e-12}
print("expected (ideal circuit)          :", expected)

N = 3
dev = dict(T1=np.zeros(N), T2=np.zeros(N), p=np.zeros(N), rout=np.zeros(N), p_int=np.zeros((N, N)),
           t_int=np.full((N, N), 3e-7), tm=np.full(N, 1e-6), dt=np.array([2.2e-10]))
failed = False
for Cls in (BinaryCircuit, EfficientCircuit):
    sim = MrAndersonSimulator(gates=noise_free_gates, CircuitClass=Cls)
    # (1) the natural call: three qubits are used, nqubit = 3
    try:
        psi0 = np.zeros(8); psi0[0] = 1
        res = sim.run(t_qiskit_circ=qc, qubits_layout=[0, 1, 2], psi0=psi0, shots=1, device_param=dev, nqubit=3)
        res = {k: v for k, v in res.items() if v > 1e-12}
        print(f"{Cls.__name__}: nqubit=3 ->", res)
        if set(res) != set(expected) or any(abs(res[k] - expected[k]) > 1e-9 for k in expected):
            failed = True
    except Exception as e:
        print(f"{Cls.__name__}: nqubit=3 raised {type(e).__name__}: {e}")
        failed = True
    # (2) what the simulator believes: only two qubits (register-local indices 0, 1) are used
    try:
        psi0 = np.zeros(4); psi0[0] = 1
        res = sim.run(t_qiskit_circ=qc, qubits_layout=[0, 1, 2], psi0=psi0, shots=1, device_param=dev, nqubit=2)
        res = {k: v for k, v in res.items() if v > 1e-12}
        print(f"{Cls.__name__}: nqubit=2 ->", res, "(silently wrong)" if res != expected else "")
    except Exception as e:
        print(f"{Cls.__name__}: nqubit=2 raised {type(e).__name__}: {e}")

print("register-local indices seen by the simulator:",
      [(x.operation.name, [q._index for q in x.qubits], [qc.find_bit(q).index for q in x.qubits]) for x in qc.data])
if failed:
    print("DEFECT PRESENT: the multi-register circuit is not simulated as the ideal circuit")
    sys.exit(1)
print("ok")
