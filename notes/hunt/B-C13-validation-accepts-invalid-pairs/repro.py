"""C13: validation accepts pairs that violate the listed conditions (not normalised / parametrisation not the running integral)."""
import sys, warnings
import numpy as np
from quantum_gates._gates.pulse import Pulse
cases = {
 "f=1, F=x+0.03*sin(9*pi*x): F monotone, F(0)=0, F(1)=1, but max|F - running integral of f| = 0.03":
     (lambda x: 1.0, lambda x: x + 0.03*np.sin(9*np.pi*x)),
 "f=1+spike of mass 0.5 (gaussian, width 1e-4 at 0.3), F=x: waveform integrates to 1.5, F is not its running integral (jump 0.5)":
     (lambda x: 1.0 + 0.5*np.exp(-0.5*((x-0.3)/1e-4)**2)/(1e-4*np.sqrt(2*np.pi)), lambda x: x),
}
bad = 0
for label, (f, F) in cases.items():
    try:
        with warnings.catch_warnings():
            warnings.simplefilter("ignore")
            Pulse(pulse=f, parametrization=F, perform_checks=True)
        print(label, "\n   expected: AssertionError, actual: ACCEPTED"); bad += 1
    except AssertionError as e:
        print(label, "\n   rejected as expected:", e)
print("DEFECT PRESENT" if bad else "ok")
sys.exit(1 if bad else 0)
