"""C10: a gate sampled with theta = 0.5 (Python float) depends on whether a gate with the numerically equal
np.float32 / np.float16 angle was requested before on the same gate set (integration cache conflates the keys and
keeps the low-precision value).

Run: cd /tmp/hunt/repoA && PYTHONPATH=/tmp/hunt/repoA/src IBM_TOKEN=x /venv/bin/python -W ignore repro.py
Exits 1 when the defect is present.
"""
import sys
import numpy as np
from quantum_gates._gates.gates import Gates
from quantum_gates._gates.pulse import constant_pulse, constant_pulse_numerical, GaussianPulse

ARGS = dict(phi=0.1, p=1e-2, T1=5e-6, T2=7e-6)      # strong but valid noise so that the effect is visible in the matrix
failed = False
for pname, mk in [("constant (analytic)", lambda: Gates(constant_pulse)),
                  ("constant (numerical)", lambda: Gates(constant_pulse_numerical)),
                  ("GaussianPulse(0.5,0.25)", lambda: Gates(GaussianPulse(0.5, 0.25)))]:
    # reference: fresh gate set, seeded generator
    np.random.seed(1)
    cold = mk().single_qubit_gate(0.5, **ARGS)
    exact_integral = mk().integrator.integrate("sin(theta/a)**2", 0.5, 1)
    for prior in (np.float32(0.5), np.float16(0.5)):
        g = mk()
        g.single_qubit_gate(prior, **ARGS)           # an earlier request with an equal angle of lower precision
        np.random.seed(1)                            # same generator state as for the reference
        warm = g.single_qubit_gate(0.5, **ARGS)      # same arguments as the reference
        dev = np.abs(warm - cold).max()
        integral = g.integrator.integrate("sin(theta/a)**2", 0.5, 1)
        print(f"{pname:26s} prior angle {type(prior).__name__}(0.5): max|G_warm - G_cold| = {dev:.3e};  "
              f"integral sin^2 returned for theta=0.5: {float(integral)!r} ({type(integral).__name__}) vs cold {float(exact_integral)!r}")
        if dev > 1e-13:                              # same seed, same arguments: must be bit-identical (we allow 1e-13)
            failed = True
    # control: an int angle equal to a float angle shares the key but the value is computed in double precision
    g = mk(); g.single_qubit_gate(1, **ARGS); np.random.seed(1); w = g.single_qubit_gate(1.0, **ARGS)
    np.random.seed(1); c = mk().single_qubit_gate(1.0, **ARGS)
    print(f"{pname:26s} control int(1) then 1.0: max dev = {np.abs(w-c).max():.1e}")
if failed:
    print("DEFECT PRESENT: the sampled gate depends on the history of earlier requests")
    sys.exit(1)
print("ok")
