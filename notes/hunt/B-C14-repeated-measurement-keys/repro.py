"""C14: measuring one qubit twice yields keys that are neither the 2^m strings of the m measured qubits nor complete."""
import sys
import numpy as np
from qiskit import QuantumCircuit
from quantum_gates._simulation.simulator import MrAndersonSimulator
from quantum_gates._simulation.circuit import BinaryCircuit, EfficientCircuit
from quantum_gates._gates.gates import standard_gates
dp = {"T1": np.full(2, 1e-4), "T2": np.full(2, 1e-4), "p": np.full(2, 1e-3), "rout": np.full(2, 2e-2), "p_int": np.full((2, 2), 1e-2), "t_int": np.full((2, 2), 3e-7),
      "tm": np.ones(2)*1e-6, "dt": np.array([2.2e-10]), "metadata": {}}
bad = 0
for clbits in [(0, 1), (0, 0)]:
    qc = QuantumCircuit(2, 2); qc.sx(0); qc.cx(0, 1); qc.measure(0, clbits[0]); qc.measure(0, clbits[1])
    for C in (BinaryCircuit, EfficientCircuit):
        res = MrAndersonSimulator(gates=standard_gates, CircuitClass=C).run(qc, [0, 1], np.array([1.0, 0, 0, 0]), 2, dp, 2)
        keys = sorted(res)
        ok = keys == ["0", "1"] or keys == ["00", "01", "10", "11"]
        print(f"measure(0,{clbits[0]}); measure(0,{clbits[1]}) [{C.__name__}]: expected keys ['0','1'] (m=1 measured qubit) or all four 2-bit strings; actual keys {keys}")
        bad += not ok
print("DEFECT PRESENT" if bad else "ok")
sys.exit(1 if bad else 0)
