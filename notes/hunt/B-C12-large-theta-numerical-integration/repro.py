"""C12: for |theta| >~ 500 the numerical integrator (ConstantPulseNumerical, and every non-constant pulse) disagrees with the exact integral.
Reference: the elementary antiderivatives of sin^2, sin, sin*cos (written here independently, cancellation free)."""
import sys, warnings
import numpy as np
from quantum_gates._gates.integrator import Integrator
from quantum_gates._gates.pulse import ConstantPulseNumerical, ConstantPulse

def exact(name, th, a):   # int_0^a g(th*t/a) dt
    if name == "sin(theta/a)**2": return a*(0.5 - np.sin(2*th)/(4*th))
    if name == "sin(theta/a)*cos(theta/a)": return a*np.sin(th)**2/(2*th)
    if name == "sin(theta/a)": return a*2*np.sin(th/2)**2/th
TOL = 1e-7
bad = 0
for name, th, a in [("sin(theta/a)**2", 700.0, 1), ("sin(theta/a)*cos(theta/a)", 1000.0, 1), ("sin(theta/a)", -1e4, 7.3), ("sin(theta/a)**2", 500.0, 1)]:
    with warnings.catch_warnings(record=True) as w:
        warnings.simplefilter("always")
        num = Integrator(ConstantPulseNumerical()).integrate(name, th, a)
    ana = Integrator(ConstantPulse()).integrate(name, th, a)
    exp = exact(name, th, a)
    print(f"integrand={name!r} theta={th} a={a}: expected {exp:.12g}, analytic lookup {ana:.12g}, numerical {num:.12g}, |num-exp|/a={abs(num-exp)/a:.2e} "
          f"(scipy IntegrationWarning raised and ignored: {any('Integration' in type(x.message).__name__ for x in w)})")
    bad += abs(num-exp)/a > TOL
print("DEFECT PRESENT" if bad else "ok")
sys.exit(1 if bad else 0)
