"""C19: merging result files that hold a single number fails and leaves an empty target behind, which blocks every later attempt."""
import sys, os, tempfile
import numpy as np
from quantum_gates._utility.simulations_utility import post_process_split
d = tempfile.mkdtemp()
src = [os.path.join(d, f"s{i}.txt") for i in range(4)]
for f, v in zip(src, [0.25, 0.75, 0.5, 1.0]):
    np.savetxt(f, np.array([v]))
tgt = [os.path.join(d, "t0.txt"), os.path.join(d, "t1.txt")]
bad = 0
try:
    post_process_split(src, tgt, 2)
    got = [float(np.loadtxt(t)) for t in tgt]
    print("expected targets [0.5, 0.75]; actual", got); bad += got != [0.5, 0.75]
except Exception as e:
    left = {os.path.basename(t): os.path.getsize(t) for t in tgt if os.path.exists(t)}
    print(f"sources: four files holding one number each, split=2, two fresh targets.\nexpected: t0 = mean(0.25, 0.75) = 0.5, t1 = mean(0.5, 1.0) = 0.75\n"
          f"actual: {type(e).__name__}: {e}; files left behind (name: size) = {left}")
    bad += 1
    try:
        post_process_split(src, tgt, 2)
    except AssertionError as e2:
        print("second attempt:", type(e2).__name__, e2)
print("DEFECT PRESENT" if bad else "ok")
sys.exit(1 if bad else 0)
