From Coq Require Import ZArith QArith List Lia.
Import ListNotations.
Open Scope Z_scope.

(* ---- D16 = Q[x]/(x^8+1), x = e^{i pi/8}; element = 8 rationals ---- *)
Definition D := list Q.  (* length 8 *)
Definition dzero : D := repeat 0%Q 8.
Definition dconst (q:Q) : D := q :: repeat 0%Q 7.
Definition dadd (a b : D) : D := map (fun p => Qred (fst p + snd p)%Q) (combine a b).
Definition dopp (a : D) : D := map (fun q => Qred (- q)%Q) a.
(* multiply by x: rotate with sign *)
Definition dshift (a : D) : D :=
  match rev a with
  | last :: rest => Qred (- last)%Q :: rev rest
  | [] => []
  end.
Fixpoint dshiftn (n:nat) (a:D) : D := match n with O => a | S k => dshift (dshiftn k a) end.
Definition dscale (q:Q) (a:D) : D := map (fun c => Qred (q*c)%Q) a.
Definition dmul (a b : D) : D :=
  fst (fold_left (fun (acc : D * D) (c:Q) => (dadd (fst acc) (dscale c (snd acc)), dshift (snd acc))) a (dzero, b)).
Definition deqb (a b : D) : bool := forallb (fun p => Qeq_bool (fst p) (snd p)) (combine a b).
Definition dx (k:nat) : D := dshiftn k (dconst 1%Q).   (* x^k *)
Definition di := dx 4.
Definition dcos8 := dscale (1#2) (dadd (dx 1) (dopp (dx 7))).      (* (x + x^-1)/2 , x^-1 = -x^7 *)
Definition dsin8 := dmul (dopp di) (dscale (1#2) (dadd (dx 1) (dx 7))). (* (x - x^-1)/(2i) = -i (x + x^7)/2 *)
Definition dh := dscale (1#2) (dadd (dx 2) (dopp (dx 6))).          (* cos(pi/4) *)

(* ---- Laurent polynomials in u=e^{i phi_c}, v=e^{i phi_t} over D: assoc list ((Z*Z) -> D) ---- *)
Definition mono := (Z * Z)%type.
Definition mono_eqb (a b : mono) := (fst a =? fst b) && (snd a =? snd b).
Definition mono_ltb (a b : mono) := (fst a <? fst b) || ((fst a =? fst b) && (snd a <? snd b)).
Definition P := list (mono * D).
Fixpoint padd1 (m:mono) (c:D) (p:P) : P :=
  match p with
  | [] => if deqb c dzero then [] else [(m,c)]
  | (m',c') :: r =>
      if mono_eqb m m' then let s := dadd c c' in if deqb s dzero then r else (m,s)::r
      else if mono_ltb m m' then (if deqb c dzero then p else (m,c)::p)
      else (m',c') :: padd1 m c r
  end.
Definition padd (a b : P) : P := fold_left (fun acc mc => padd1 (fst mc) (snd mc) acc) a b.
Definition popp (a:P) : P := map (fun mc => (fst mc, dopp (snd mc))) a.
Definition pmul (a b : P) : P :=
  fold_left (fun acc mc => fold_left (fun acc' mc' =>
     padd1 (fst (fst mc) + fst (fst mc'), snd (fst mc) + snd (fst mc')) (dmul (snd mc) (snd mc')) acc') b acc) a [].
Definition pconst (d:D) : P := padd1 (0,0) d [].
Definition pmon (a b : Z) : P := [((a,b), dconst 1%Q)].
Definition p0 : P := [].
Definition p1 := pconst (dconst 1%Q).
Definition pI := pconst di.

(* ---- matrices as list of rows ---- *)
Definition M := list (list P).
Definition dot (r c : list P) : P := fold_left padd (map (fun p => pmul (fst p) (snd p)) (combine r c)) p0.
Fixpoint transpose (m : M) : M :=
  match m with
  | [] => []
  | [r] => map (fun x => [x]) r
  | r :: rest => map (fun p => fst p :: snd p) (combine r (transpose rest))
  end.
Definition mmul (a b : M) : M := let bt := transpose b in map (fun r => map (fun c => dot r c) bt) a.
Definition kron (a b : M) : M :=
  flat_map (fun ra => map (fun rb => flat_map (fun x => map (fun y => pmul x y) rb) ra) b) a.
Definition mscale (s:P) (a:M) : M := map (map (pmul s)) a.

(* U(theta,phi) with c = cos(theta/2), s = sin(theta/2) in D, e^{i phi} = E, e^{-i phi} = E' *)
Definition U1 (c s : D) (E E' : P) : M :=
  [[pconst c; pmul (popp pI) (pmul (pconst s) E')];
   [pmul (popp pI) (pmul (pconst s) E); pconst c]].
Definition CR (c s : D) (E E' : P) : M :=
  [[pconst c; pmul (popp pI) (pmul (pconst s) E'); p0; p0];
   [pmul (popp pI) (pmul (pconst s) E); pconst c; p0; p0];
   [p0; p0; pconst c; pmul pI (pmul (pconst s) E')];
   [p0; p0; pmul pI (pmul (pconst s) E); pconst c]].
Definition Id2 : M := [[p1;p0];[p0;p1]].
Definition d0 := dzero. Definition d1 := dconst 1%Q.
(* CNOT noise free: first_cr = CR(-pi/4, -phi_t); second_cr = CR(pi/4,-phi_t); x = X(-phi_c+pi/2); sx = SX(-phi_t);
   Y_Rz = U(-pi, -phi_c + pi) *)
Definition u := pmon 1 0. Definition u' := pmon (-1) 0. Definition v := pmon 0 1. Definition v' := pmon 0 (-1).
Definition first_cr := CR dcos8 (dopp dsin8) v' v.          (* e^{i(-phi_t)} = v' *)
Definition second_cr := CR dcos8 dsin8 v' v.
Definition x_gate := U1 d0 d1 (pmul u' pI) (pmul u (popp pI)).      (* e^{i(-phi_c+pi/2)} = u' * i ; conj = u * (-i) *)
Definition sx_gate := U1 dh dh v' v.
Definition Y_Rz := U1 d0 (dopp d1) (pmul u' (popp p1)) (pmul u (popp p1)).  (* e^{i(-phi_c+pi)} = -u' *)
Definition CNOT_nf := mmul first_cr (mmul (kron x_gate Id2) (mmul second_cr (kron Y_Rz sx_gate))).
Definition CX : M := [[p1;p0;p0;p0];[p0;p1;p0;p0];[p0;p0;p0;p1];[p0;p0;p1;p0]].
Definition Pd (E:P) : M := [[p1;p0];[p0;E]].
(* RHS = i * (P(phi_c - pi/2) (x) P(phi_t))^dagger * CX * (P(phi_c) (x) P(phi_t)) ; conj of e^{i(phi_c - pi/2)} = u' * i *)
Definition RHS := mscale pI (mmul (kron (Pd (pmul u' pI)) (Pd v')) (mmul CX (kron (Pd u) (Pd v)))).
Definition meqb (a b : M) : bool :=
  forallb (fun rr => forallb (fun pq => 
     let d := padd (fst pq) (popp (snd pq)) in match d with [] => true | _ => false end) (combine (fst rr) (snd rr))) (combine a b).
Time Eval vm_compute in meqb CNOT_nf RHS.
Time Eval vm_compute in (nth 0 (nth 2 CNOT_nf []) p0, nth 3 (nth 2 CNOT_nf []) p0).
Eval vm_compute in deqb (dadd (dmul dcos8 dcos8) (dmul dsin8 dsin8)) d1.
