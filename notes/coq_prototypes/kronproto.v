From Coq Require Import List Arith Lia Ring PeanoNat.
Import ListNotations.
Section K.
Variable R : Type.
Variables (rO rI : R) (radd rmul rsub : R -> R -> R) (ropp : R -> R).
Variable Rth : ring_theory rO rI radd rmul rsub ropp eq.
Add Ring Rr : Rth.
Infix "+" := radd. Infix "*" := rmul.
Notation "0" := rO.

Fixpoint bsum (n : nat) (f : nat -> R) : R :=
  match n with O => 0 | S k => bsum k f + f k end.

Lemma bsum_ext n f g : (forall i, (i < n)%nat -> f i = g i) -> bsum n f = bsum n g.
Proof. induction n as [|n IH]; intros H; simpl; auto. rewrite IH, H; auto. Qed.
Lemma bsum_scale n c f : bsum n (fun i => c * f i) = c * bsum n f.
Proof. induction n as [|n IH]; simpl. ring. rewrite IH. ring. Qed.
Lemma bsum_plus n f g : bsum n (fun i => f i + g i) = bsum n f + bsum n g.
Proof. induction n as [|n IH]; simpl. ring. rewrite IH. ring. Qed.
Lemma bsum_app m n f : bsum (m + n)%nat f = bsum m f + bsum n (fun i => f (m + i)%nat).
Proof. induction n as [|n IH]; simpl. rewrite Nat.add_0_r. ring.
  rewrite Nat.add_succ_r. simpl. rewrite IH. ring. Qed.

(* sum over a product index = double sum *)
Lemma bsum_prod m p f : bsum (m * p)%nat f = bsum m (fun b => bsum p (fun c => f (b * p + c)%nat)).
Proof. induction m as [|m IH]; simpl; auto.
  rewrite Nat.add_comm, bsum_app, IH. reflexivity. Qed.

Definition mat := nat -> nat -> R.
Definition kron (p : nat) (A B : mat) : mat := fun x y => A (x / p)%nat (y / p)%nat * B (x mod p)%nat (y mod p)%nat.
Definition mv (n : nat) (M : mat) (v : nat -> R) : nat -> R := fun x => bsum n (fun y => M x y * v y).

(* einsum "ab,cd,bd->ac" on the row-major reshape: one contraction step *)
Lemma kron_step m p A B v x : (0 < p)%nat ->
  mv (m * p) (kron p A B) v x =
  bsum m (fun b => A (x / p)%nat b * mv p B (fun c => v (b * p + c)%nat) (x mod p)%nat).
Proof.
  intros Hp. unfold mv, kron. rewrite bsum_prod. apply bsum_ext. intros b Hb.
  rewrite <- bsum_scale. apply bsum_ext. intros c Hc.
  assert (E1 : ((b * p + c) / p = b)%nat).
  { rewrite Nat.add_comm, Nat.div_add by lia. rewrite Nat.div_small by lia. lia. }
  assert (E2 : ((b * p + c) mod p = c)%nat).
  { rewrite Nat.add_comm, Nat.mod_add by lia. apply Nat.mod_small; lia. }
  rewrite E1, E2. ring.
Qed.
End K.
Print Assumptions kron_step.
