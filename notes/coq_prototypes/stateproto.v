From Coq Require Import List Bool Arith Lia Ring.
Import ListNotations.
Section S.
Variable R : Type.
Variables (rO rI : R) (radd rmul rsub : R -> R -> R) (ropp : R -> R).
Variable Rth : ring_theory rO rI radd rmul rsub ropp eq.
Add Ring Rr : Rth.
Infix "+" := radd. Infix "*" := rmul.

Definition bits := list bool.
Fixpoint upd (b : bits) (q : nat) (v : bool) : bits :=
  match b, q with
  | [], _ => []
  | _ :: t, O => v :: t
  | h :: t, S q' => h :: upd t q' v
  end.
Definition get (b : bits) (q : nat) : bool := nth q b false.
Definition state := bits -> R.
Definition m2 := bool -> bool -> R.
Definition apply1 (q : nat) (A : m2) (psi : state) : state :=
  fun b => A (get b q) false * psi (upd b q false) + A (get b q) true * psi (upd b q true).
Definition mul2 (A B : m2) : m2 := fun r c => A r false * B false c + A r true * B true c.

Lemma upd_upd b q v w : upd (upd b q v) q w = upd b q w.
Proof. revert q; induction b as [|h t IH]; intros [|q]; simpl; auto. now rewrite IH. Qed.
Lemma get_upd b q v : q < length b -> get (upd b q v) q = v.
Proof. revert q; induction b as [|h t IH]; intros [|q] H; simpl in *; try lia; auto. apply IH; lia. Qed.
Lemma get_upd_ne b q r v : q <> r -> get (upd b q v) r = get b r.
Proof. revert q r; induction b as [|h t IH]; intros [|q] [|r] H; simpl; auto; try congruence. apply IH; lia. Qed.
Lemma upd_comm b q r v w : q <> r -> upd (upd b q v) r w = upd (upd b r w) q v.
Proof. revert q r; induction b as [|h t IH]; intros [|q] [|r] H; simpl; auto; try congruence. now rewrite IH by lia. Qed.

Lemma fuse11 q A B psi b : q < length b ->
  apply1 q A (apply1 q B psi) b = apply1 q (mul2 A B) psi b.
Proof.
  intros H. unfold apply1, mul2. rewrite !upd_upd, !get_upd by assumption. ring.
Qed.

Lemma commute11 q r A B psi b : q <> r ->
  apply1 q A (apply1 r B psi) b = apply1 r B (apply1 q A psi) b.
Proof.
  intros H. unfold apply1.
  rewrite !(get_upd_ne b q r), !(get_upd_ne b r q) by auto.
  rewrite (upd_comm b q r false false), (upd_comm b q r false true), (upd_comm b q r true false), (upd_comm b q r true true) by auto.
  ring.
Qed.
End S.
Print Assumptions fuse11.
