Require Import Nsatz.
Require Import Algebra_syntax Ncring Cring Integral_domain.
Section Dom.
Context {R:Type} `{Rid:Integral_domain R}.
Variables i h u u' : R.
Hypothesis Hi : i*i + 1 == 0.
Hypothesis Hh : (1+1)*h*h == 1.
Hypothesis Hu : u*u' == 1.
Lemma sx2_01 : h * (- (i*h*u')) + (- (i*h*u')) * h == - (i * u').
Proof. nsatz. Qed.
Lemma sx2_00 : h*h + (-(i*h*u'))*(-(i*h*u)) == 0.
Proof. nsatz. Qed.
End Dom.
Check @sx2_00.
