From Coq Require Import Reals Lra Lia.
From Coquelicot Require Import Coquelicot.
Open Scope R_scope.

Lemma int_sin2 (theta a : R) : theta <> 0 -> 0 < a ->
  is_RInt (fun t => (sin (theta * t / a))^2) 0 a (a * (2*theta - sin (2*theta)) / (4*theta)).
Proof.
  intros Hth Ha.
  assert (Ha' : a <> 0) by lra.
  pose (G := fun t : R => t/2 - a * sin (2 * theta * t / a) / (4*theta)).
  replace (a * (2*theta - sin (2*theta)) / (4*theta)) with (G a - G 0).
  2:{ unfold G. replace (2*theta*a/a) with (2*theta) by (field; lra).
      replace (2*theta*0/a) with 0 by (field; lra). rewrite sin_0. field. lra. }
  apply (is_RInt_derive G).
  - intros t _. unfold G. auto_derive. { exact I. }
    replace (2 * theta * t * / a) with (2 * (theta * t / a)) by (field; lra).
    rewrite cos_2a_sin. field. lra.
  - intros t _.
    apply (ex_derive_continuous (fun t => (sin (theta * t / a))^2)). auto_derive. exact I.
Qed.
Print Assumptions int_sin2.
