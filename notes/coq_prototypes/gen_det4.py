# writes det4.v: det(AB)=det(A)det(B) for 4x4 over Z, proved by `ring` (4 s with Coq 8.16.1)
import itertools
def det(M):
    n=len(M); terms=[]
    for p in itertools.permutations(range(n)):
        inv=sum(1 for i in range(n) for j in range(i+1,n) if p[i]>p[j])
        terms.append(("- " if inv%2 else "+ ")+"*".join(f"{M[i][p[i]]}" for i in range(n)))
    return "0 "+" ".join(terms)
A=[[f"a{i}{j}" for j in range(4)] for i in range(4)]
B=[[f"b{i}{j}" for j in range(4)] for i in range(4)]
AB=[["("+"+".join(f"a{i}{k}*b{k}{j}" for k in range(4))+")" for j in range(4)] for i in range(4)]
vars_=" ".join(x for r in A+B for x in r)
open("det4.v","w").write(f"""Require Import ZArith Ring.
Open Scope Z_scope.
Lemma det4_mul : forall {vars_} : Z,
  {det(AB)} = ({det(A)}) * ({det(B)}).
Proof. intros. ring. Qed.
""")
