(* Prototype: coefficient ring Q[x]/(x^8+1) as plain coefficient lists, with a sound evaluation into C at x = e^{i pi/8}. *)
From Coq Require Import Reals QArith Qreals List Lra Lia.
From Coquelicot Require Import Coquelicot.
Import ListNotations.
Open Scope C_scope.

Definition Cexp (t : R) : C := (cos t, sin t).
Lemma Cexp_add a b : Cexp (a + b) = Cexp a * Cexp b.
Proof. unfold Cexp, Cmult; simpl. rewrite cos_plus, sin_plus. f_equal; ring. Qed.
Lemma Cexp_0 : Cexp 0 = 1. Proof. unfold Cexp. now rewrite cos_0, sin_0. Qed.
Lemma Cexp_PI : Cexp PI = Copp (RtoC 1).
Proof. unfold Cexp. rewrite cos_PI, sin_PI. unfold Copp, RtoC; simpl. f_equal; ring. Qed.

Definition zeta : C := Cexp (PI/8).
Fixpoint Cpown (z : C) (n : nat) : C := match n with O => 1 | S k => z * Cpown z k end.
Lemma Cpown_add z m n : Cpown z (m + n) = Cpown z m * Cpown z n.
Proof. induction m; simpl. ring. rewrite IHm. ring. Qed.
Lemma Cexp_pown t n : Cpown (Cexp t) n = Cexp (INR n * t).
Proof. induction n. simpl. replace (0 * t)%R with 0%R by ring. now rewrite Cexp_0.
  rewrite S_INR. simpl Cpown. rewrite IHn, <- Cexp_add. f_equal. ring. Qed.
Lemma zeta8 : Cpown zeta 8 = Copp (RtoC 1).
Proof. unfold zeta. rewrite Cexp_pown. replace (INR 8 * (PI/8))%R with PI by (simpl; field). apply Cexp_PI. Qed.

Definition QC (q : Q) : C := RtoC (Q2R q).
Lemma QC_plus a b : QC (a + b) = QC a + QC b. Proof. unfold QC. rewrite Q2R_plus. now rewrite RtoC_plus. Qed.
Lemma QC_mult a b : QC (a * b) = QC a * QC b. Proof. unfold QC. rewrite Q2R_mult. now rewrite RtoC_mult. Qed.
Lemma QC_opp a : QC (- a) = - QC a. Proof. unfold QC. rewrite Q2R_opp. now rewrite RtoC_opp. Qed.
Lemma QC_0 : QC 0 = 0. Proof. unfold QC, Q2R; simpl. f_equal. lra. Qed.
Lemma QC_eq a b : Qeq a b -> QC a = QC b. Proof. intros H. unfold QC. now rewrite (Qeq_eqR _ _ H). Qed.

(* polynomials: coefficient lists, low degree first *)
Definition poly := list Q.
Fixpoint peval (p : poly) (z : C) : C := match p with [] => 0 | c :: r => QC c + z * peval r z end.
Fixpoint padd (a b : poly) : poly :=
  match a, b with [], _ => b | _, [] => a | x :: a', y :: b' => (x + y)%Q :: padd a' b' end.
Definition pscale (q : Q) (a : poly) : poly := map (fun c => (q * c)%Q) a.
Fixpoint pmul (a b : poly) : poly := match a with [] => [] | x :: a' => padd (pscale x b) (0%Q :: pmul a' b) end.
Lemma peval_add a b z : peval (padd a b) z = peval a z + peval b z.
Proof. revert b; induction a as [|x a IH]; intros [|y b]; simpl; try ring. rewrite IH, QC_plus. ring. Qed.
Lemma peval_scale q a z : peval (pscale q a) z = QC q * peval a z.
Proof. induction a as [|x a IH]; simpl. ring. rewrite IH, QC_mult. ring. Qed.
Lemma peval_mul a b z : peval (pmul a b) z = peval a z * peval b z.
Proof. induction a as [|x a IH]; simpl. ring. rewrite peval_add, peval_scale. simpl. rewrite IH, QC_0. ring. Qed.

(* reduction modulo x^8 + 1: fold the tail back with a sign *)
Fixpoint split8 (n : nat) (p : poly) : poly * poly :=
  match n, p with O, _ => ([], p) | S k, [] => ([], []) | S k, c :: r => let '(a, b) := split8 k r in (c :: a, b) end.
Lemma split8_eval n p z : let '(a, b) := split8 n p in peval p z = peval a z + Cpown z (min n (length p)) * peval b z.
Proof. revert p; induction n as [|n IH]; intros p; simpl. ring.
  destruct p as [|c r]; simpl. ring.
  specialize (IH r). destruct (split8 n r) as [a b]. simpl. rewrite IH. ring. Qed.
Lemma split8_len n p : snd (split8 n p) <> [] -> (n <= length p)%nat.
Proof. revert p; induction n as [|n IH]; intros p H; simpl in *. lia.
  destruct p as [|c r]; simpl in *. congruence.
  specialize (IH r). destruct (split8 n r) as [a b]. simpl in *. apply IH in H. lia. Qed.
Fixpoint reduce (fuel : nat) (p : poly) : poly :=
  match fuel with
  | O => p
  | S f => let '(a, b) := split8 8 p in match b with [] => a | _ => reduce f (padd a (pscale (-1) b)) end
  end.
Lemma QC_m1 : QC (-1) = Copp (RtoC 1).
Proof. unfold QC. replace (Q2R (-1)) with (-1)%R by (unfold Q2R; simpl; lra). unfold Copp, RtoC; simpl. f_equal; ring. Qed.
Lemma reduce_sound fuel p : peval (reduce fuel p) zeta = peval p zeta.
Proof. revert p; induction fuel as [|f IH]; intros p; cbn [reduce]; auto.
  pose proof (split8_eval 8 p zeta) as H. pose proof (split8_len 8 p) as L.
  destruct (split8 8 p) as [a b]. destruct b as [|b0 b'].
  - rewrite H. cbn [peval]. ring.
  - rewrite IH, peval_add, peval_scale, H.
    rewrite Nat.min_l by (apply L; simpl; congruence). rewrite zeta8, QC_m1. ring.
Qed.
Print Assumptions reduce_sound.
(* decidable equality modulo x^8+1, sound for the evaluation *)
Fixpoint pzero (p : poly) : bool := match p with [] => true | c :: r => Qeq_bool c 0 && pzero r end.
Lemma pzero_sound p z : pzero p = true -> peval p z = 0.
Proof. induction p as [|c r IH]; simpl; auto. intros H. apply andb_prop in H as [H1 H2].
  rewrite IH by exact H2. apply Qeq_bool_eq in H1. rewrite (QC_eq _ _ H1), QC_0. ring. Qed.
Definition deq (a b : poly) : bool := pzero (reduce 64 (padd a (pscale (-1) b))).
Theorem deq_sound a b : deq a b = true -> peval a zeta = peval b zeta.
Proof. unfold deq. intros H. apply pzero_sound with (z := zeta) in H.
  rewrite reduce_sound, peval_add, peval_scale, QC_m1 in H.
  assert (E : peval a zeta = (peval a zeta + Copp (RtoC 1) * peval b zeta) + peval b zeta) by ring.
  rewrite E. rewrite H. ring. Qed.
(* example: (x + x^-1)^2/4 + ((x - x^-1)/(2i))^2 = 1 with x^-1 = -x^7, i = x^4 : cos^2 + sin^2 *)
Definition X (k : nat) : poly := repeat 0%Q k ++ [1%Q].
Definition c8 := pscale (1#2) (padd (X 1) (pscale (-1) (X 7))).
Definition s8 := pmul (pscale (-1) (X 4)) (pscale (1#2) (padd (X 1) (X 7))).
Example cos2_sin2 : peval (padd (pmul c8 c8) (pmul s8 s8)) zeta = peval [1%Q] zeta.
Proof. apply deq_sound. vm_compute. reflexivity. Qed.
