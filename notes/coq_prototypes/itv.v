From Coq Require Import Reals.
From Interval Require Import Tactic.
Open Scope R_scope.
Definition res (theta a : R) := a*(2*theta - sin (2*theta))/(4*theta).
Goal Rabs (res (7/10) (13/10) - 1924697682196435 / 10000000000000000) <= 1/10^14.
Proof. unfold res. interval with (i_prec 80). Qed.
