(* Spec-side vocabulary and the headline statements, type-checked only (phase 1).
   Models (opt, eff, ones, fix_counts_model, ...) are section variables here; they become Definitions in Model/. *)
From Coq Require Import List Bool Arith ZArith Lia.
Import ListNotations.

Section Spec.
(* ---- scalars: any commutative ring with involution ---- *)
Variable R : Type.
Variables (rO rI : R) (radd rmul rsub : R -> R -> R) (ropp : R -> R) (conj : R -> R).
Variable Rth : ring_theory rO rI radd rmul rsub ropp eq.
Infix "+" := radd. Infix "*" := rmul.

(* ---- states over bit lists; qubit 0 = first list element = most significant ---- *)
Definition bits := list bool.
Definition state := bits -> R.
Fixpoint upd (b : bits) (q : nat) (v : bool) : bits :=
  match b, q with [], _ => [] | _ :: t, O => v :: t | h :: t, S q' => h :: upd t q' v end.
Definition get (b : bits) (q : nat) : bool := nth q b false.
Definition m2 := bool -> bool -> R.                       (* 2x2: row bit, column bit *)
Definition m4 := bool * bool -> bool * bool -> R.         (* 4x4: (first qubit bit, second qubit bit) *)
Definition apply1 (q : nat) (A : m2) (psi : state) : state :=
  fun b => A (get b q) false * psi (upd b q false) + A (get b q) true * psi (upd b q true).
Definition apply2 (q1 q2 : nat) (G : m4) (psi : state) : state :=
  fun b => let r := (get b q1, get b q2) in
    G r (false,false) * psi (upd (upd b q1 false) q2 false) + G r (false,true) * psi (upd (upd b q1 false) q2 true)
  + G r (true,false)  * psi (upd (upd b q1 true)  q2 false) + G r (true,true)  * psi (upd (upd b q1 true)  q2 true).
Inductive item := It1 (A : m2) (q : nat) | It2 (G : m4) (q1 q2 : nat).
Definition apply_item (it : item) : state -> state :=
  match it with It1 A q => apply1 q A | It2 G q1 q2 => apply2 q1 q2 G end.
Definition sem (items : list item) (psi : state) : state := fold_left (fun s it => apply_item it s) items psi.
Definition wf_item (n : nat) (it : item) : Prop :=
  match it with It1 _ q => q < n | It2 _ q1 q2 => q1 < n /\ q2 < n /\ q1 <> q2 end.
Definition state_eq (n : nat) (s t : state) : Prop := forall b, length b = n -> s b = t b.

(* ---- C02: the optimizer model returns a result or the Python exception it would raise ---- *)
Inductive res (A : Type) := Ok (a : A) | IndexErr | ValueErr.
Arguments Ok {A}. Arguments IndexErr {A}. Arguments ValueErr {A}.
Variable opt : nat (*level*) -> nat (*n*) -> list item -> res (list item).
Definition C02_optimize_sound : Prop :=
  forall level n items, level <= 4 -> Forall (wf_item n) items ->
  exists out, opt level n items = Ok out /\ length out <= length items /\
              Forall (wf_item n) out /\ forall psi, state_eq n (sem out psi) (sem items psi).
Variable bin_statevector : nat -> list item -> state -> res state.
Definition C02_bin_spec : Prop :=
  forall n items psi, items <> [] -> Forall (wf_item n) items ->
  exists out, bin_statevector n items psi = Ok out /\ state_eq n out (sem items psi).

(* ---- C01: layers; first entry acts on the most significant qubit ---- *)
Inductive entry := En2 (A : m2) | En4 (G : m4) | EnOne.
Inductive wf_layer : nat -> list entry -> Prop :=
| wfl_nil : wf_layer 0 []
| wfl_2 n A l : wf_layer n l -> wf_layer (S n) (l ++ [En2 A])
| wfl_4a n G l : wf_layer n l -> wf_layer (S (S n)) (l ++ [En4 G; EnOne])
| wfl_4b n G l : wf_layer n l -> wf_layer (S (S n)) (l ++ [EnOne; En4 G]).
(* slot semantics of a layer: entry k of the list sits on qubit k (a 4x4 block on the two qubits it spans) *)
Fixpoint layer_items (q : nat) (l : list entry) : list item :=
  match l with
  | [] => []
  | En2 A :: r => It1 A q :: layer_items (S q) r
  | En4 G :: EnOne :: r => It2 G q (S q) :: layer_items (S (S q)) r
  | EnOne :: En4 G :: r => It2 G q (S q) :: layer_items (S (S q)) r
  | _ :: r => layer_items (S q) r
  end.
Definition layers_sem (ls : list (list entry)) : state -> state := sem (concat (map (layer_items 0) ls)).
Variable eff : nat (*n*) -> nat (*min chunk*) -> nat (*opt chunk*) -> list (list entry) -> state -> res state.
Definition C01_eff_spec : Prop :=
  forall n mn op ls psi, 1 <= n -> 1 <= mn -> 1 <= op -> ls <> [] -> Forall (wf_layer n) ls ->
  (8 <= n -> 2 * op <= n -> 2 * (n / op + 1) <= 26) ->       (* the code's 26-letter assertion *)
  exists out, eff n mn op ls psi = Ok out /\ state_eq n out (layers_sem ls psi).
(* The Kronecker form of the same spec (the property's wording) is connected by
   kron_is_slots : mv (2^n) (kronL l) (vec_of psi) = vec_of (sem (layer_items 0 l) psi)   in Mat.v. *)

(* ---- Born weights, frames (C03) ---- *)
Definition born (psi : state) : state := fun b => psi b * conj (psi b).
Definition unit_scalar (d : R) : Prop := d * conj d = rI.
Definition frame := nat -> R.            (* per-qubit diagonal entry for bit 1; entry for bit 0 is 1 *)
Fixpoint frame_amp (f : frame) (q : nat) (b : bits) : R :=
  match b with [] => rI | h :: t => (if h then f q else rI) * frame_amp f (S q) t end.
Definition framed (g : R) (f : frame) (psi : state) : state := fun b => g * frame_amp f 0 b * psi b.
Definition C03_frame_invisible : Prop :=
  forall n g f psi, unit_scalar g -> (forall q, unit_scalar (f q)) ->
  (forall x y, conj (x * y) = conj x * conj y) ->
  state_eq n (born (framed g f psi)) (born psi).
End Spec.

(* ---- C16 over bit-string keys (values in any type with a zero) ---- *)
Section FixCounts.
Variable V : Type. Variable vzero : V.
Definition key := list bool.
Fixpoint lookup (k : key) (t : list (key * V)) : option V :=
  match t with [] => None | (k', v) :: r => if list_eq_dec Bool.bool_dec k k' then Some v else lookup k r end.
Fixpoint all_keys (n : nat) : list key :=           (* ascending binary order *)
  match n with O => [[]] | S m => map (cons false) (all_keys m) ++ map (cons true) (all_keys m) end.
Variable fix_counts_model : list (key * V) -> nat -> res (list (key * V)).
Definition C16_spec : Prop :=
  forall n t, 1 <= n -> t <> [] -> NoDup (map fst t) -> Forall (fun kv => length (fst kv) = n) t ->
  exists out, fix_counts_model t n = Ok _ out /\
    map fst out = all_keys n /\
    forall k, In k (all_keys n) ->
      lookup k out = Some (match lookup (rev k) t with Some v => v | None => vzero end).
End FixCounts.
