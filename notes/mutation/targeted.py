import numpy as np, warnings, sys
warnings.filterwarnings("ignore")
from quantum_gates._simulation.backend import BackendForOnes
from oracle_suite import pperm, apply_ref
rng=np.random.default_rng(0)
bad=0
for run,n in ((11,13),(12,13),(14,16),(8,10)):
    layer=[pperm(2) for _ in range(run)]+[np.eye(2)]+[pperm(2) for _ in range(n-run-1)]
    psi=(rng.integers(-2,3,2**n)+0j)
    ref=apply_ref([[m,[q]] for q,m in enumerate(layer)],psi,n)
    out=BackendForOnes(n).statevector([layer],psi)
    print(run,n,'OK' if np.array_equal(out,ref) else 'WRONG')
