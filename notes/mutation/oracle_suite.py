"""Compact direct oracles (one per property family) -> prints JSON {oracle: 'ok'|'FAIL: ...'}"""
import numpy as np, warnings, json, sys, os, io, contextlib, tempfile, itertools, copy, traceback
warnings.filterwarnings("ignore")
rng=np.random.default_rng(123)
R={}
def oracle(f):
    def w():
        try:
            r=f(); R[f.__name__]='ok' if r in (None,True) else 'FAIL: '+str(r)
        except Exception as e:
            R[f.__name__]='FAIL(raise): '+type(e).__name__+' '+str(e)[:80]
    return w
def pperm(d):
    M=np.zeros((d,d),complex)
    for i,j in enumerate(rng.permutation(d)): M[i,j]=rng.choice([1,-1,1j,-1j])
    return M
def apply_ref(items, psi, n):
    psi = psi.copy().reshape([2]*n)
    for M,q in items:
        q=[x for x in q if x!=-1]
        if len(q)==1: psi = np.moveaxis(np.tensordot(M, psi, axes=([1],[q[0]])),0,q[0])
        else: psi = np.moveaxis(np.tensordot(M.reshape(2,2,2,2), psi, axes=([2,3],[q[0],q[1]])),[0,1],[q[0],q[1]])
    return psi.reshape(-1)
@oracle
def C01_backends():
    from quantum_gates._simulation.backend import StandardBackend, EfficientBackend, BackendForOnes
    for n in list(range(1,11))+[12,13]:
        for t in range(6):
            layers=[];slots=[]
            for d in range(2):
                layer=[];sl=[];q=0
                while q<n:
                    if q+1<n and rng.random()<0.25:
                        M=pperm(4); layer+= ([M,1] if rng.random()<.5 else [1,M]); sl.append((M,[q,q+1])); q+=2
                    else:
                        M=np.eye(2) if rng.random()<(0.1 if t%2 else 0.5) else pperm(2); layer.append(M); sl.append((M,[q])); q+=1
                layers.append(layer); slots+= [[m,list(qq)] for m,qq in sl]
            psi=(rng.integers(-2,3,2**n)+1j*rng.integers(-2,3,2**n)).astype(complex)
            ref=apply_ref(slots,psi,n)
            for B in ([StandardBackend] if n<=9 else [])+[EfficientBackend,BackendForOnes]:
                out=np.asarray(B(n).statevector(layers,psi),complex)
                if not np.array_equal(out,ref): return f"{B.__name__} n={n}"
@oracle
def C02_optimizer():
    from quantum_gates._utility.circ_optimizer import Optimizer
    from quantum_gates._simulation.backend import BinaryBackend
    n=3; pats=[[q] for q in range(n)]+[[a,b] for a in range(n) for b in range(n) if a!=b]
    for L in (3,4):
        for combo in itertools.product(pats,repeat=L):
            items=[[pperm(2**len(q)),list(q)] for q in combo]
            psi=(rng.integers(-2,3,8)+0j); ref=apply_ref(items,psi,n)
            for lvl in (2,4):
                out=Optimizer(lvl,copy.deepcopy(items),list(range(n))).optimize()
                if len(out)>len(items) or not np.array_equal(apply_ref(out,psi,n),ref): return f"lvl{lvl} {combo}"
    for t in range(200):
        nn=int(rng.integers(2,6)); L=int(rng.integers(3,14)); pp=[[q] for q in range(nn)]+[[a,b] for a in range(nn) for b in range(nn) if a!=b]
        items=[[pperm(2**len(q)),list(q)] for q in (pp[rng.integers(len(pp))] if rng.random()<.6 else pp[nn+rng.integers(2)] for _ in range(L))]
        psi=(rng.integers(-2,3,2**nn)+0j); ref=apply_ref(items,psi,nn)
        out=np.asarray(BinaryBackend(nn).statevector(copy.deepcopy(items),psi)).ravel()
        if not np.array_equal(out,ref): return "binary backend"
def devparam(nmax):
    return {"T1":np.full(nmax,1e-4),"T2":np.full(nmax,1e-4),"p":np.full(nmax,1e-4),"rout":np.full(nmax,1e-2),
            "p_int":np.full((nmax,nmax),1e-2),"t_int":np.full((nmax,nmax),3e-7),"tm":np.full(nmax,1e-6),"dt":np.array([2.2e-10])}
@oracle
def C03_noise_free():
    from qiskit import QuantumCircuit
    from qiskit.quantum_info import Statevector
    from quantum_gates._simulation.simulator import MrAndersonSimulator
    from quantum_gates._simulation.circuit import Circuit, StandardCircuit, EfficientCircuit, OneCircuit, BinaryCircuit
    from quantum_gates._gates.gates import noise_free_gates
    for trial in range(40):
        n=int(rng.integers(1,5)); qc=QuantumCircuit(n,n)
        for q in rng.permutation(n): qc.rz(float(rng.uniform(-1,1)),int(q))
        for _ in range(int(rng.integers(1,14))):
            r=rng.random()
            if r<.3: qc.rz(float(rng.uniform(-3,3)),int(rng.integers(n)))
            elif r<.5: qc.sx(int(rng.integers(n)))
            elif r<.6: qc.x(int(rng.integers(n)))
            elif r<.65: qc.delay(int(rng.integers(1,99)),int(rng.integers(n)))
            elif n>1:
                a=int(rng.integers(n-1)); b=a+1
                if rng.random()<.5: a,b=b,a
                getattr(qc,rng.choice(['cx','ecr']))(a,b)
        meas=sorted(set(int(q) for q in rng.choice(n,int(rng.integers(1,n+1)),replace=False)))
        for k,q in enumerate(meas): qc.measure(q,k)
        psi0=rng.normal(size=2**n)+1j*rng.normal(size=2**n); psi0/=np.linalg.norm(psi0)
        q2=QuantumCircuit(n)
        for inst in qc.data:
            if inst.operation.name in('measure','delay'): continue
            q2.append(inst.operation,[n-1-q._index for q in inst.qubits])
        p=np.abs(Statevector(psi0).evolve(q2).data)**2; ideal={}
        for i,v in enumerate(p):
            bits=format(i,f'0{n}b'); key=''.join(bits[q] for q in meas); ideal[key]=ideal.get(key,0)+v
        for C in (Circuit,StandardCircuit,EfficientCircuit,OneCircuit,BinaryCircuit):
            res=MrAndersonSimulator(gates=noise_free_gates,CircuitClass=C).run(t_qiskit_circ=qc,qubits_layout=list(range(n)),psi0=psi0,shots=1,device_param=devparam(n),nqubit=n)
            if set(res)!=set(ideal) or any(abs(res[k]-ideal[k])>1e-9 for k in ideal): return C.__name__
@oracle
def C05_det_law():
    from quantum_gates._gates.gates import standard_gates, noise_free_gates, Gates
    from quantum_gates._gates.pulse import GaussianPulse
    tg=35e-9
    for g in (standard_gates,Gates(GaussianPulse(0.5,0.25))):
        for t in range(4):
            T1c,T2c,T1t,T2t=rng.uniform(2e-5,9e-5,4); pc,pt=rng.uniform(1e-3,5e-3,2); p2=0.3; tt=rng.uniform(2e-7,5e-7); a,b=rng.uniform(-3,3,2)
            pred=lambda dim,l: np.exp(-(dim/4)*sum(x/y for x,y in l))
            chk=[(g.X(a,pc,T1c,T2c),noise_free_gates.X(a,0,0,0),pred(2,[(tg,T1c)])),
                 (g.single_qubit_gate(b,a,pc,T1c,T2c),np.eye(2),pred(2,[(tg,T1c)])),
                 (g.CR(0.7,a,tt,0.02,T1c,T2c,T1t,T2t),np.eye(4),pred(4,[(tt,T1c),(tt,T1t)])),
                 (g.relaxation(tt,T1c,T2c),np.eye(2),pred(2,[(tt,T1c)])),(g.depolarizing(tt,pc),np.eye(2),1),(g.bitflip(tt,0.03),np.eye(2),1)]
            for nm,tc,tt_ in (('CNOT',tt,tt),('CNOT_inv',tt,tt),('ECR',tt-tg,tt-tg),('ECR_inv',tt+tg,tt+tg)):
                chk.append((getattr(g,nm)(a,b,tt,p2,pc,pt,T1c,T2c,T1t,T2t),getattr(noise_free_gates,nm)(a,b,tt,0,0,0,0,0,0,0),pred(4,[(tc,T1c),(tt_,T1t)])))
            for i,(G,G0,pr) in enumerate(chk):
                if abs(np.linalg.det(G)/np.linalg.det(G0)/pr-1)>1e-10: return f"gate#{i}"
@oracle
def C07_zero_and_unitary():
    from quantum_gates._gates.gates import standard_gates, noise_free_gates as nf, Gates
    from quantum_gates._gates.pulse import GaussianPulse
    for g in (standard_gates,Gates(GaussianPulse(0.3,0.2))):
        for t in range(5):
            a,b=rng.uniform(-7,7,2); th=rng.choice([0.0,rng.uniform(-7,7)]); tt=rng.uniform(2e-7,5e-7)
            pairs=[(g.X(a,0,0,0),nf.X(a,0,0,0)),(g.SX(a,0,0,0),nf.SX(a,0,0,0)),(g.single_qubit_gate(th,a,0,0,0),nf.single_qubit_gate(th,a,0,0,0))]
            for nm in ('CNOT','CNOT_inv','ECR','ECR_inv'): pairs.append((getattr(g,nm)(a,b,tt,0,0,0,0,0,0,0),getattr(nf,nm)(a,b,tt,0,0,0,0,0,0,0)))
            for i,(x,y) in enumerate(pairs):
                if not np.abs(x-y).max()<1e-12: return f"zero#{i}"
            for nm in ('CNOT','CNOT_inv','ECR','ECR_inv'):
                G=getattr(g,nm)(a,b,tt,0.3,0.01,0.02,0,3e-5,0,5e-5)
                if not np.abs(G.conj().T@G-np.eye(4)).max()<1e-12: return "unitary "+nm
@oracle
def C04_blocks_cov_drift():
    import scipy.linalg, scipy.integrate
    import quantum_gates._gates.factories as fac
    from quantum_gates._gates.gates import Gates
    from quantum_gates._gates.pulse import GaussianPulse
    X=np.array([[0,1],[1,0]],complex);Y=np.array([[0,-1j],[1j,0]]);Z=np.diag([1.,-1]).astype(complex);I2=np.eye(2,dtype=complex);Sm=np.array([[0,1],[0,0]],complex)
    def U1(th,ph): return np.array([[np.cos(th/2),-1j*np.sin(th/2)*np.exp(-1j*ph)],[-1j*np.sin(th/2)*np.exp(1j*ph),np.cos(th/2)]])
    def UCR(th,ph):
        M=np.zeros((4,4),complex); M[:2,:2]=U1(th,ph); M[2:,2:]=U1(-th,ph); return M
    cap=[];calls=[];queue=[];orig=scipy.linalg.expm
    class FR:
        def multivariate_normal(s,mean,cov,n): calls.append(np.array(cov,float)); v=queue.pop(0) if queue else [0]*len(mean); return np.array([v],float)
        def normal(s,m,sd): calls.append(float(sd)); v=queue.pop(0) if queue else [0]; return float(v[0])
    import numpy as _np
    NP=type('NP',(),{})()
    for k in dir(_np):
        try: setattr(NP,k,getattr(_np,k))
        except Exception: pass
    NP.random=FR(); old_np=fac.np; fac.np=NP; fac.scipy.linalg.expm=lambda A:(cap.append(np.array(A)),orig(A))[1]
    try:
        tg=35e-9; pulse=GaussianPulse(0.4,0.3); F=pulse.get_parametrization(); g=Gates(pulse)
        Qd=lambda f,a: scipy.integrate.quad(f,0,a,epsabs=1e-12,epsrel=1e-12)[0]
        for t in range(3):
            th0=rng.uniform(-3,3); ph=rng.uniform(-3,3); theta=rng.uniform(0.3,3)
            s3=[np.sin(th0),np.sin(th0/2)**2,1.0]; s2=[np.cos(th0),np.sin(th0)]; z3=[0,0,0]; z2=[0,0]
            for name,L,act,(p,T1,T2),st in [('X',X,0,(0.04,0,0),np.sqrt(.01)),('Y',Y,1,(0.04,0,0),np.sqrt(.01)),('Z',Z,2,(0.04,0,0),np.sqrt(.01)),('sm',Sm,3,(0,1e-6,0),np.sqrt(tg/1e-6)),('Zp',Z,4,(0,0,1e-6),np.sqrt(.5*tg/1e-6))]:
                queue[:]=[s3 if act==0 else z3,s3 if act==1 else z3,s2 if act==2 else z2,s3 if act==3 else z3,s2 if act==4 else z2]
                cap.clear();calls.clear(); g.single_qubit_gate(theta,ph,p,T1,T2)
                if np.abs(cap[1]/1j-st*(U1(th0,ph).conj().T@L@U1(th0,ph))).max()>1e-12: return "1q block "+name
            thf=lambda x: theta*F(x); g3=[lambda x:np.sin(thf(x)),lambda x:np.sin(thf(x)/2)**2,lambda x:1.0]; g2=[lambda x:np.cos(thf(x)),lambda x:np.sin(thf(x))]
            for cov in calls:
                gs=g3 if len(cov)==3 else g2
                if np.abs(np.array([[Qd(lambda x:u(x)*v(x),1) for v in gs] for u in gs])-cov).max()>1e-8: return "1q cov"
            c2=[np.cos(th0),np.sin(th0)]; w=[1.0]; t_cr=2.5e-7; a=t_cr/tg
            blocks=[(np.kron(Sm,I2),c2,'e1c'),(np.kron(I2,Sm),s3,'e1t'),(np.kron(Z,I2),w,'epc'),(np.kron(I2,Z),c2,'ept'),(np.kron(X,I2),c2,'ed'),(np.kron(Y,I2),c2,'ed'),(np.kron(Z,I2),w,'ed'),(np.kron(I2,X),s3,'ed'),(np.kron(I2,Y),s3,'ed'),(np.kron(I2,Z),c2,'ed')]
            p_cr,T1c,T2c,T1t,T2t=0.03,2e-6,1.5e-6,3e-6,2.5e-6
            sts={'ed':np.sqrt(p_cr/(4*a)),'e1c':np.sqrt(tg/T1c),'e1t':np.sqrt(tg/T1t),'epc':np.sqrt(.5*(tg/T2c-tg/T1c/2)),'ept':np.sqrt(.5*(tg/T2t-tg/T1t/2))}
            for k,(L,samp,sk) in enumerate(blocks):
                queue[:]=[(samp if j==k else [0]*len(bb[1])) for j,bb in enumerate(blocks)]
                cap.clear();calls.clear(); g.CR(theta,ph,t_cr,p_cr,T1c,T2c,T1t,T2t)
                if np.abs(cap[1]/1j-sts[sk]*(UCR(th0,ph).conj().T@L@UCR(th0,ph))).max()>1e-12: return f"CR block {k}"
            thc=lambda x: theta*F(x/a); g3=[lambda x:np.sin(thc(x)),lambda x:np.sin(thc(x)/2)**2,lambda x:1.0]; g2=[lambda x:np.cos(thc(x)),lambda x:np.sin(thc(x))]
            for cov in calls:
                if isinstance(cov,float):
                    if abs(cov-np.sqrt(a))>1e-12: return "CR wiener std"
                else:
                    gs=g3 if len(cov)==3 else g2
                    if np.abs(np.array([[Qd(lambda x:u(x)*v(x),a) for v in gs] for u in gs])-cov).max()>1e-7: return "CR cov"
            Lc=np.kron(Sm,I2);Lt=np.kron(I2,Sm); exp_d=np.zeros((4,4),complex)
            for i in range(4):
                for j in range(4):
                    f=lambda x:(-sts['e1c']**2/2*(UCR(thc(x),ph).conj().T@(Lc.conj().T@Lc)@UCR(thc(x),ph))-sts['e1t']**2/2*(UCR(thc(x),ph).conj().T@(Lt.conj().T@Lt)@UCR(thc(x),ph)))[i,j]
                    exp_d[i,j]=Qd(lambda x:f(x).real,a)+1j*Qd(lambda x:f(x).imag,a)
            if np.abs(exp_d-cap[0]).max()>1e-9: return "CR drift"
    finally:
        fac.np=old_np; fac.scipy.linalg.expm=orig
@oracle
def C08_own_params():
    from qiskit import QuantumCircuit
    from quantum_gates._simulation.simulator import MrAndersonSimulator
    from quantum_gates._simulation.circuit import EfficientCircuit, BinaryCircuit, Circuit
    LOG=[]
    class Spy:
        def __deepcopy__(s,m): return s
        def __getattr__(s,name):
            def f(*a): LOG.append((name,)+tuple(float(x) for x in a)); return np.eye(4 if name in('CNOT','CNOT_inv','ECR','ECR_inv') else 2,dtype=complex)
            return f
    def dev(n):
        q=np.arange(n); return {"T1":100.+q,"T2":200.+q,"p":300.+q,"rout":400.+q,"p_int":500+10*q[:,None]+q[None,:]+0.,"t_int":700+10*q[:,None]+q[None,:]+0.,"tm":900.+q,"dt":np.array([0.5])}
    for C,labels in ((EfficientCircuit,[0,1,2]),(Circuit,[0,1,2]),(BinaryCircuit,[0,1,2]),(BinaryCircuit,[1,4,6])):
        n=3; nph=max(labels)+1; qc=QuantumCircuit(nph,n)
        for q in labels[::-1]: qc.rz(0.01*(q+1),q)
        a,b,c=labels
        qc.sx(a); qc.x(c); qc.delay(10,b); qc.cx(a,b); qc.cx(c,b); qc.ecr(b,c); qc.ecr(b,a)
        for k,q in enumerate(labels): qc.measure(q,k)
        LOG.clear(); psi0=np.zeros(8); psi0[0]=1
        MrAndersonSimulator(gates=Spy(),CircuitClass=C).run(t_qiskit_circ=qc,qubits_layout=labels,psi0=psi0,shots=1,device_param=dev(nph),nqubit=n)
        P=lambda q:(300.+q,100.+q,200.+q)
        exp=[('SX',-0.01*(a+1))+P(a),('X',-0.01*(c+1))+P(c),('relaxation',5.0,100.+b,200.+b),
             ('CNOT',0.01*(a+1),0.01*(b+1),700.+10*a+b,500.+10*a+b,300.+a,300.+b,100.+a,200.+a,100.+b,200.+b),
             ('CNOT_inv',0.01*(c+1),0.01*(b+1),700.+10*c+b,500.+10*c+b,300.+c,300.+b,100.+c,200.+c,100.+b,200.+b)]
        got=[l for l in LOG if l[0] not in('bitflip',)]
        for e,gk in zip(exp,got[:5]):
            if e[0]!=gk[0] or not np.allclose(e[1:],gk[1:]): return f"{C.__name__} {labels} {gk}"
        e1=got[5]; 
        if e1[0]!='ECR' or not np.allclose(e1[3:],(700.+10*b+c,500.+10*b+c,300.+b,300.+c,100.+b,200.+b,100.+c,200.+c)): return f"{C.__name__} ECR {e1}"
        e2=got[6]
        if e2[0]!='ECR_inv' or not np.allclose(e2[3:],(700.+10*b+a,500.+10*b+a,300.+a,300.+b,100.+a,200.+a,100.+b,200.+b)): return f"{C.__name__} ECR_inv {e2}"
        bf=[l for l in LOG if l[0]=='bitflip']
        if not np.allclose([x[1:] for x in bf],[(900.+q,400.+q) for q in labels]): return "bitflip"
@oracle
def C09_C10_shots():
    from qiskit import QuantumCircuit
    from quantum_gates._simulation.simulator import MrAndersonSimulator
    from quantum_gates._simulation.circuit import EfficientCircuit
    from quantum_gates._gates.gates import standard_gates
    seen=[]
    class Rec(EfficientCircuit):
        def statevector(s,psi0):
            psi=super().statevector(psi0); seen.append(np.abs(psi)**2); return psi
    qc=QuantumCircuit(2,2); qc.sx(0); qc.sx(1); qc.cx(0,1); qc.measure(0,0); qc.measure(1,1)
    psi0=np.zeros(4); psi0[0]=1; d=devparam(2); d['p']=np.full(2,1e-2); d['p_int']=np.full((2,2),.1)
    np.random.seed(5); r1=MrAndersonSimulator(gates=standard_gates,CircuitClass=Rec).run(t_qiskit_circ=qc,qubits_layout=[0,1],psi0=psi0,shots=7,device_param=d,nqubit=2)
    if len(seen)!=7 or len({a.tobytes() for a in seen})!=7: return "shots not distinct / count"
    m=np.mean(seen,axis=0); m/=m.sum(); keys=['00','01','10','11']
    if any(abs(r1[k]-m[i])>1e-12 for i,k in enumerate(keys)): return "not the normalised mean"
    seen.clear(); np.random.seed(5); r2=MrAndersonSimulator(gates=standard_gates,CircuitClass=Rec).run(t_qiskit_circ=qc,qubits_layout=[0,1],psi0=psi0,shots=7,device_param=d,nqubit=2)
    if any(r1[k]!=r2[k] for k in r1): return "seeded rerun differs"
@oracle
def C12_integrator():
    import scipy.integrate
    from quantum_gates._gates.integrator import Integrator
    from quantum_gates._gates.pulse import GaussianPulse, constant_pulse, constant_pulse_numerical
    g={"sin(theta/a)**2":lambda x:np.sin(x)**2,"sin(theta/(2*a))**4":lambda x:np.sin(x/2)**4,"sin(theta/a)*sin(theta/(2*a))**2":lambda x:np.sin(x)*np.sin(x/2)**2,"sin(theta/(2*a))**2":lambda x:np.sin(x/2)**2,"cos(theta/a)**2":lambda x:np.cos(x)**2,"sin(theta/a)*cos(theta/a)":lambda x:np.sin(x)*np.cos(x),"sin(theta/a)":lambda x:np.sin(x),"cos(theta/(2*a))**2":lambda x:np.cos(x/2)**2}
    for pulse in (constant_pulse,constant_pulse_numerical,GaussianPulse(0.5,0.25)):
        F=pulse.get_parametrization(); I=Integrator(pulse)
        for a in (1.0,3.3):
            for th in (0.0,-0.7,2.0):
                for k,f in g.items():
                    ref=scipy.integrate.quad(lambda t:f(th*F(t/a)),0,a,epsabs=1e-12,epsrel=1e-12)[0]
                    v=I.integrate(k,th,a)
                    if not abs(v-ref)<1e-7: return f"{k} th={th} a={a}"
                    if I.integrate(k,th,a)!=v: return "cache"
        # history: same theta different a
        I=Integrator(pulse); v1=I.integrate("sin(theta/a)**2",0.9,1.0); v2=I.integrate("sin(theta/a)**2",0.9,2.0)
        if not abs(v2-scipy.integrate.quad(lambda t:np.sin(0.9*F(t/2.0))**2,0,2.0)[0])<1e-7: return "cache key (a)"
@oracle
def C13_pulse():
    import scipy.integrate
    from quantum_gates._gates.pulse import GaussianPulse, Pulse
    for loc,sc in ((0.5,0.25),(-0.5,0.4),(1.2,2.0)):
        gp=GaussianPulse(loc,sc,perform_checks=True); f=gp.get_pulse(); F=gp.get_parametrization()
        if abs(scipy.integrate.quad(f,0,1)[0]-1)>1e-8 or abs(F(0))>1e-12 or abs(F(1)-1)>1e-12: return "norm"
        if max(abs(scipy.integrate.quad(f,0,x)[0]-F(x)) for x in np.linspace(0,1,7))>1e-8: return "compat"
    for f,F,ok in ((lambda x:2.0,lambda x:x,False),(lambda x:1.0,lambda x:2*x,False),(lambda x:1.0,lambda x:x**2,False),(lambda x:2*x,lambda x:x**2,True)):
        try: Pulse(f,F,perform_checks=True); acc=True
        except AssertionError: acc=False
        if acc!=ok: return "validation"
@oracle
def C15_C20_devparams():
    from quantum_gates._utility.device_parameters import DeviceParameters
    from qiskit_ibm_runtime import fake_provider
    from qiskit_ibm_runtime.models import BackendProperties
    for nm,lay in (('FakeManilaV2',[0]),('FakeManilaV2',[3]),('FakeManilaV2',[2,0]),('FakeKyiv',[5,1,9])):
        b=getattr(fake_provider,nm)(); dp=DeviceParameters(lay)
        with contextlib.redirect_stdout(io.StringIO()): dp.load_from_backend(b)
        b._set_props_dict_from_json(); prop=BackendProperties.from_dict(b._props_dict)
        d=dp.__dict__()
        if not all(d['T1'][i]==prop.t1(q) and d['T2'][i]==prop.t2(q) and d['p'][i]==prop.gate_error('x',[q]) and d['rout'][i]==prop.readout_error(q) and d['tm'][i]==prop.readout_length(q) for i,q in enumerate(lay)): return "C20 per-qubit"
        gp=prop.gate_property('ecr' if nm=='FakeKyiv' else 'cx'); m=max(lay)+1
        for (i,j),v in gp.items():
            if i<m and j<m and (d['p_int'][i,j]!=v['gate_error'][0] or d['t_int'][i,j]!=v['gate_length'][0]): return "C20 tables"
        if d['p_int'].shape!=(m,m): return "C20 shape"
        for fmt in ('json','txt'):
            T=tempfile.mkdtemp()+'/'
            with contextlib.redirect_stdout(io.StringIO()):
                (dp.save_to_json if fmt=='json' else dp.save_to_texts)(T); d2=DeviceParameters(lay); (d2.load_from_json if fmt=='json' else d2.load_from_texts)(T)
            for k in ('T1','T2','p','rout','tm','p_int','t_int','dt'):
                if np.shape(getattr(dp,k))!=np.shape(getattr(d2,k)) or np.asarray(getattr(dp,k),float).tobytes()!=np.asarray(getattr(d2,k),float).tobytes(): return f"C15 {fmt} {k} {lay}"
            if not dp==d2: return "C15 eq"
@oracle
def C16_C17_utils():
    from quantum_gates._utility.simulations_utility import fix_counts, compute_Hellinger_distance
    for n in (1,2,3):
        keys=[format(i,f'0{n}b') for i in range(2**n)]
        for r in range(1,2**n+1):
            for sub in itertools.combinations(keys,r):
                tab={k:(i+1)*1.5 for i,k in enumerate(sub)}; out=fix_counts(dict(tab),n); exp={k:0 for k in keys}
                for k,v in tab.items(): exp[k[::-1]]=v
                if list(out.keys())!=keys or out!=exp: return f"C16 {sub}"
    for t in range(200):
        n=int(rng.integers(1,5)); N=2**n; p=rng.random(N); q=rng.random(N)*(rng.random(N)<.6); q[0]+=1e-3; p/=p.sum(); q/=q.sum()
        if abs(compute_Hellinger_distance(p,q,n)-np.sqrt(max(0,1-np.sum(np.sqrt(p*q)))))>1e-12: return "C17"
@oracle
def C18_benchmarks():
    from qiskit.quantum_info import Statevector, Operator
    from quantum_gates._utility.quantum_algorithms import hadamard_reverse_qft_circ, ghz_circ, qft_circ
    for n in range(1,7):
        p=np.abs(Statevector.from_instruction(hadamard_reverse_qft_circ(n).remove_final_measurements(inplace=False)).data)**2
        if abs(p[0]-1)>1e-9: return "hrqft"
        pg=np.abs(Statevector.from_instruction(ghz_circ(n).remove_final_measurements(inplace=False)).data)**2
        if abs(pg[0]-.5)>1e-9 or abs(pg[-1]-.5)>1e-9: return "ghz"
        U=Operator(qft_circ(n).remove_final_measurements(inplace=False)).data; N=2**n
        rev=lambda y:int(format(y,f'0{n}b')[::-1],2)
        if np.abs(U-np.array([[np.exp(2j*np.pi*x*rev(y)/N)/np.sqrt(N) for x in range(N)] for y in range(N)])).max()>1e-9: return "qft"
        for gen in (hadamard_reverse_qft_circ,ghz_circ,qft_circ):
            if [(i.qubits[0]._index,i.clbits[0]._index) for i in gen(n).data if i.operation.name=='measure']!=[(q,q) for q in range(n)]: return "measure"
@oracle
def C19_merge():
    from quantum_gates._utility.simulations_utility import post_process_split
    for k,split in ((1,2),(2,3),(3,4)):
        T=tempfile.mkdtemp(); src=[os.path.join(T,f"s{i}.txt") for i in range(k*split)]; arrs=[rng.integers(0,50,6)*split*1.0 for _ in src]
        for s,a in zip(src,arrs): np.savetxt(s,a)
        tg=[os.path.join(T,f"t{j}.txt") for j in range(k)]
        post_process_split(src,tg,split)
        for j in range(k):
            if not np.array_equal(np.loadtxt(tg[j]),sum(arrs[j*split:(j+1)*split])/split): return "mean"
        if k>1:
            os.remove(tg[0])
            try: post_process_split(src,tg,split); return "no refusal"
            except AssertionError: pass
if __name__=="__main__":
    sel=sys.argv[1:] 
    for name,f in list(globals().items()):
        if name.startswith('C') and callable(f) and (not sel or any(name.startswith(s) for s in sel)): f()
    print("RESULT "+json.dumps(R))
