"""C03, grid class: exact correspondence of coq/Model/GridBackend.v (grid_statevector: Circuit.statevector, circuit.py:90-105) with the
real class quantum_gates._simulation.circuit.Circuit.

Implementation side: the real Circuit driven DIRECTLY with Gaussian-integer token matrices (entries 0, +-1, +-i; exact in floating point).
  family `filled`: Circuit(n, depth, None), the grid self.circuit[qubit][column] filled entry by entry (2x2 / 4x4 arrays, the placeholder 1
      left in place) over every tiling of n <= 3 qubits per column, random tilings, ill-formed columns (partial columns, all-placeholder
      columns, [G, G], [A, G]), nqubit = 0 / depth = 0, psi0 of another length; statevector(psi0) -> vector or exception class.
      Model side: GridBackend.grid_statevector on the same grid (vm_compute over Base/ZI.v), compared inside Coq.
  family `built`: Circuit(n, depth, gates) with a gate set that returns the token of the moment, driven through the real public methods
      (apply / I / X / CNOT / ECR / Rz, also apply with a non-(2,2) array, out-of-range and negative indices, distant pairs) in the
      discipline of the simulator (one call per qubit and column, nothing for the target of a two-qubit gate) and outside it (depth too
      small / too large, a partial last column, random call order); then statevector(psi0).
      Model side: Builders.gexec (C11's gstep) on the same operations with the tokens, then GridBackend.grid_statevector_cols on the columns
      -- the chain nf_perform_grid / C03_end_to_end_grid speak about.
Direct oracle (independent of the model and of np.kron): np.tensordot slot application of the columns in order (checks/c01.py: apply_ref)
on every case whose columns are well-formed; a difference there is a failing input of the property itself."""
import random
import numpy as np
import checks.c01 as c1
from vlib.common import coq_list

PRELUDE = c1.PRELUDE + r"""
Require Import QG.Model.GridBackend QG.Model.Builders.
(* ---- the grid class: tokens are encoded matrices; idT is the array I(i) creates ---- *)
Inductive tokm := T2 (l : list ZI) | T4 (l : list ZI).
Definition idT : tokm := T2 [(1,0); (0,0); (0,0); (1,0)].
Definition tden1 (t : tokm) : Backends.entry ZI := match t with T2 l => Backends.En2 (mk2 l) | T4 l => Backends.En4 (mk4 l) end.
Definition tden (e : Builders.entry tokm) : Backends.entry ZI :=
  match e with Builders.En2 t => tden1 t | Builders.En4 t => tden1 t | Builders.EnOne => Backends.EnOne end.
Inductive gexpect := GV (v : list ZI) | GE (e : err).
Definition gcmp (npsi : nat) (r : res (bits -> ZI)) (x : gexpect) : bool :=
  match r, x with
  | Ok s, GV v => veq (to_list npsi s) v
  | Err a, GE b => Nat.eqb (err_code a) (err_code b)
  | _, _ => false
  end.
Definition check_filled (c : nat * nat * list (list ecode) * list ZI * gexpect) : bool :=
  let '(npsi, depth, grid, psi, x) := c in
  gcmp npsi (grid_statevector ZI zi1 ziadd zimul npsi depth (map (map dec) grid) (st_of npsi psi)) x.
Definition run_built (n depth : nat) (ops : list (op tokm)) (npsi : nat) (psi : list ZI) : res (bits -> ZI) :=
  r <- gexec tokm idT (g_init tokm n depth) ops ;;
  grid_statevector_cols ZI zi1 ziadd zimul npsi (map (map tden) (g_content tokm (fst r))) (st_of npsi psi).
Definition check_built (c : nat * nat * list (op tokm) * nat * list ZI * gexpect) : bool :=
  let '(n, depth, ops, npsi, psi, x) := c in gcmp npsi (run_built n depth ops npsi psi) x.
Fixpoint gbad {X} (f : X -> bool) (i : nat) (cs : list X) : list nat :=
  match cs with [] => [] | c :: r => if f c then gbad f (S i) r else i :: gbad f (S i) r end.
"""


# ------------------------------------------------------------------ implementation side
class TokGates:
    """a gate set whose every factory returns the token set for the call of the moment"""
    cur = None

    def _t(self, *a, **k):
        return self.cur
    X = SX = CNOT = CNOT_inv = ECR = ECR_inv = bitflip = relaxation = depolarizing = _t


def circuit_class():
    from quantum_gates._simulation.circuit import Circuit
    return Circuit


def vec_result(out, npsi):
    try:
        arr = np.asarray(out, dtype=complex)
    except Exception as e:  # noqa
        return ("other", "result not convertible to complex: %s" % type(e).__name__)
    if arr.shape != (2 ** npsi,):
        return ("other", "result shape %s" % (arr.shape,))
    if not c1.integral(arr):
        return ("other", "non-integral result")
    return ("vec", c1.ints_of(arr))


def run_filled(case):
    """('vec', ints) | ('err', name) | ('other', what)"""
    Circuit = circuit_class()
    n, depth = case["n"], case["depth"]
    try:
        c = Circuit(n, depth, None)
        for i, row in enumerate(case["grid"]):
            for j, e in enumerate(row):
                if e[0] != "1":
                    c.circuit[i][j] = c1.np_entry(e)
        out = c.statevector(c1.np_psi(case["psi"]))
    except Exception as e:  # noqa
        return ("err", type(e).__name__)
    return vec_result(out, case["npsi"])


def run_built(case):
    Circuit = circuit_class()
    g = TokGates()
    try:
        c = Circuit(case["n"], case["depth"], g)
        for o in case["ops"]:
            kind = o[0]
            if kind == "apply":
                c.apply(c1.np_entry(o[1]), o[2])
            elif kind == "apply_bad":
                c.apply([[1, 0], [0, 1]] if o[1] is None else c1.np_entry(o[1]), o[2])
            elif kind == "I":
                c.I(o[1])
            elif kind == "X":
                g.cur = c1.np_entry(o[1]); (c.X if o[3] else c.SX)(o[2], 0.0, 1.0, 1.0)
            elif kind == "bitflip":
                g.cur = c1.np_entry(o[1]); c.bitflip(o[2], 1.0, 0.0)
            elif kind in ("CNOT", "ECR"):
                g.cur = c1.np_entry(o[1]); getattr(c, kind)(o[2], o[3], 1.0, 0.0, 0.0, 0.0, 1.0, 1.0, 1.0, 1.0)
            elif kind == "Rz":
                c.Rz(o[1], 0.5)
        out = c.statevector(c1.np_psi(case["psi"]))
    except Exception as e:  # noqa
        return ("err", type(e).__name__)
    return vec_result(out, case["npsi"])


# ------------------------------------------------------------------ reference (tensordot; no kron)
def wf_column(col):
    """the column tiles its qubits by 2x2 entries and [G, 1] / [1, G] pairs"""
    k = 0
    while k < len(col):
        if col[k][0] == "2": k += 1
        elif k + 1 < len(col) and {col[k][0], col[k + 1][0]} == {"4", "1"}: k += 2
        else: return False
    return True


def columns_of(grid, depth):
    return [[row[j] for row in grid] for j in range(depth)]


def reference(cols, psi, n):
    return c1.ints_of(c1.apply_ref(c1.slots_of(cols), c1.np_psi(psi), n))


def built_columns(case):
    """the columns a disciplined history fills (recorded by the generator); None when the history is outside the discipline"""
    return case.get("cols")


# ------------------------------------------------------------------ generators
def psi_of(rng, npsi):
    return [(rng.randint(-2, 2), rng.randint(-2, 2)) for _ in range(2 ** npsi)]


def grid_of_columns(cols, n, depth):
    return [[cols[j][i] if j < len(cols) else ["1"] for j in range(depth)] for i in range(n)]


def bad_column(rng, n):
    """an ill-formed column over n rows"""
    r = rng.random()
    if r < 0.25: return [["1"]] * n                                                   # untouched
    if r < 0.5:                                                                      # partial
        k = rng.randint(0, n - 1) if n > 1 else 0
        return [c1.entry2(rng) for _ in range(k)] + [["1"]] * (n - k)
    if r < 0.75 and n >= 2:                                                          # 4x4 blocks without their placeholder
        return [c1.entry4(rng) if rng.random() < 0.6 else c1.entry2(rng) for _ in range(n)]
    col = [c1.entry2(rng) for _ in range(n)]; col[rng.randrange(n)] = ["1"]          # a lone placeholder
    return col


def filled_cases(rng, quick):
    cases = []

    def add(fam, n, depth, grid, npsi=None, dom=None):
        npsi = n if npsi is None else npsi
        cols = columns_of(grid, depth) if n > 0 else []
        wf = n >= 1 and depth >= 1 and npsi == n and all(len(r) == depth for r in grid) and all(wf_column(c) for c in cols)
        cases.append({"kind": "filled", "family": fam, "n": n, "depth": depth, "grid": grid, "npsi": npsi, "psi": psi_of(rng, npsi),
                      "domain": wf if dom is None else dom, "cols": cols if wf else None})
    # every tiling of n <= 3 qubits, as the only column and as second / first column next to a random one
    for n in (1, 2, 3):
        shapes = c1.all_shapes(n)
        for sh in shapes:
            add("filled_exhaustive", n, 1, grid_of_columns([c1.layer_of_shape(rng, sh)], n, 1))
            for sh2 in (shapes if n < 3 or not quick else [rng.choice(shapes)]):
                add("filled_exhaustive", n, 2, grid_of_columns([c1.layer_of_shape(rng, sh), c1.layer_of_shape(rng, sh2)], n, 2))
    # random tilings, more columns, up to 4 qubits
    for _ in range(40 if quick else 400):
        n = rng.randint(1, 4); depth = rng.randint(1, 4 if n < 4 else 2)
        cols = [c1.layer_of_shape(rng, c1.rand_shape(rng, n, 0.5), kind=rng.choice(["dense", "perm"])) for _ in range(depth)]
        add("filled_random", n, depth, grid_of_columns(cols, n, depth))
    # ill-formed: a bad column anywhere (untouched last columns = a depth that is too large; partial last column), wrong psi0 length
    for _ in range(60 if quick else 500):
        n = rng.randint(1, 3); depth = rng.randint(1, 3)
        cols = [c1.layer_of_shape(rng, c1.rand_shape(rng, n, 0.4)) for _ in range(depth)]
        r = rng.random()
        if r < 0.35: cols[-1] = bad_column(rng, n)
        elif r < 0.7: cols[rng.randrange(depth)] = bad_column(rng, n)
        npsi = n if r < 0.7 else rng.choice([k for k in (0, n - 1, n + 1) if k >= 0])
        add("filled_malformed", n, depth, grid_of_columns(cols, n, depth), npsi=npsi)
    # no row / no column
    for n, depth in ((0, 1), (0, 2), (1, 0), (2, 0), (0, 0)):
        add("filled_malformed", n, depth, [[["1"]] * depth for _ in range(n)], npsi=max(n, 1) if n else 1)
    # nothing written at all; one row: the columns reduce to the Python int 1 itself, and 1 @ 1 is a TypeError (ValueError everywhere else)
    for n, depth in ((1, 1), (1, 2), (1, 3), (2, 1), (2, 2), (3, 2)):
        add("filled_malformed", n, depth, [[["1"]] * depth for _ in range(n)])
    for cols in ([["A"], ["1"], ["1"]], [["1"], ["A"], ["1"]], [["1"], ["1"], ["A"]], [["A"], ["1"]], [["1"], ["A"]]):
        add("filled_malformed", 1, len(cols), grid_of_columns([[c1.entry2(rng) if e == "A" else ["1"] for e in c] for c in cols], 1, len(cols)),
            npsi=rng.choice([0, 1]))
    return cases


def column_calls(rng, col, shuffle=False):
    """the calls that fill one column the way the simulator does: k = 0..n-1, the gate on its qubit, nothing for the target"""
    ops = []; k = 0
    while k < len(col):
        e = col[k]
        if e[0] == "2":
            r = rng.random()
            if e[1] == c1.ID2 and r < 0.5: ops.append(("I", k))
            elif r < 0.4: ops.append(("apply", e, k))
            elif r < 0.7: ops.append(("X", e, k, rng.random() < 0.5))
            else: ops.append(("bitflip", e, k))
            k += 1
        elif e[0] == "4":     # [G, 1]: control k, target k + 1
            ops.append((rng.choice(["CNOT", "ECR"]), e, k, k + 1)); k += 2
        else:                 # [1, G]: control k + 1, target k
            ops.append((rng.choice(["CNOT", "ECR"]), col[k + 1], k + 1, k)); k += 2
    if shuffle: rng.shuffle(ops)
    return ops


def built_cases(rng, quick):
    cases = []

    def add(fam, n, depth, ops, cols=None, npsi=None):
        npsi = n if npsi is None else npsi
        cases.append({"kind": "built", "family": fam, "n": n, "depth": depth, "ops": ops, "npsi": npsi, "psi": psi_of(rng, npsi),
                      "domain": cols is not None, "cols": cols})
    # the simulator's discipline, depth = number of columns; every tiling of n <= 3 in the last column
    for n in (1, 2, 3):
        for sh in c1.all_shapes(n):
            for pre in range(0, 3 if not quick or n < 3 else 2):
                cols = [c1.layer_of_shape(rng, c1.rand_shape(rng, n, 0.5), pid=0.3) for _ in range(pre)] + [c1.layer_of_shape(rng, sh, pid=0.3)]
                ops = []
                for c in cols:
                    ops += column_calls(rng, c)
                    if rng.random() < 0.3: ops.append(("Rz", rng.randrange(n)))
                add("built_exhaustive", n, len(cols), ops, cols)
    for _ in range(40 if quick else 400):
        n = rng.randint(1, 4); d = rng.randint(1, 4 if n < 4 else 2)
        cols = [c1.layer_of_shape(rng, c1.rand_shape(rng, n, 0.5), pid=0.3, kind=rng.choice(["dense", "perm"])) for _ in range(d)]
        ops = [o for c in cols for o in column_calls(rng, c, shuffle=rng.random() < 0.3)]
        add("built_random", n, d, ops, cols)
    # outside: depth too small (IndexError inside the builder) / too large (untouched last columns), a partial last column, distant pairs,
    # non-(2,2) arrays, indices out of range / negative, calls in any order and number
    for _ in range(70 if quick else 600):
        n = rng.randint(1, 3); d = rng.randint(1, 3)
        cols = [c1.layer_of_shape(rng, c1.rand_shape(rng, n, 0.5), pid=0.3) for _ in range(d)]
        ops = [o for c in cols for o in column_calls(rng, c)]
        r = rng.random(); depth = d; npsi = n
        if r < 0.2: depth = d + rng.randint(1, 2)
        elif r < 0.35: depth = d - 1
        elif r < 0.5: ops = ops[:rng.randint(0, max(0, len(ops) - 1))]
        elif r < 0.6 and n >= 3: ops.insert(rng.randrange(len(ops) + 1), (rng.choice(["CNOT", "ECR"]), c1.entry4(rng), *rng.choice([(0, 2), (2, 0)])))
        elif r < 0.7: ops.insert(rng.randrange(len(ops) + 1), ("apply_bad", rng.choice([None, c1.entry4(rng)]), rng.randrange(n)))
        elif r < 0.85:
            i = rng.choice([-1, -n, n, n + 1, -n - 1])
            ops.insert(rng.randrange(len(ops) + 1), rng.choice([("apply", c1.entry2(rng), i), ("I", i), ("X", c1.entry2(rng), i, True), ("Rz", i),
                                                                   ("CNOT", c1.entry4(rng), i, i + 1), ("ECR", c1.entry4(rng), i + 1, i)]))
        else:
            ops = [rng.choice([("apply", c1.entry2(rng), rng.randrange(n)), ("I", rng.randrange(n)),
                               ("CNOT", c1.entry4(rng), *rng.choice([(q, q + 1) for q in range(max(1, n - 1))] + [(q + 1, q) for q in range(max(1, n - 1))]))])
                   for _ in range(rng.randint(0, 3 * n))]
        add("built_malformed", n, depth, ops, None, npsi)
    return cases


# ------------------------------------------------------------------ Coq encoding
def enc_expect(res):
    if res[0] == "vec":
        return "GV %s" % coq_list([c1.zi(p) for p in res[1]])
    if res[0] == "err":
        return "GE %s" % (res[1] if res[1] in c1.ERRS else "OutOfFuel")
    return "GE OutOfFuel"     # never equal to a model answer on a vector: reported as a mismatch


def enc_tok(e):
    return ("(T2 %s)" if e[0] == "2" else "(T4 %s)") % coq_list([c1.zi(x) for x in e[1]])


def enc_op(o):
    k = o[0]
    if k == "apply": return "OApply tokm K2 %s (%d)" % (enc_tok(o[1]), o[2])
    if k == "apply_bad": return ("OApply tokm KNotArray idT (%d)" % o[2]) if o[1] is None else "OApply tokm K4 %s (%d)" % (enc_tok(o[1]), o[2])
    if k == "I": return "OI tokm (%d)" % o[1]
    if k == "X": return "OX tokm %s (%d)" % (enc_tok(o[1]), o[2])
    if k == "bitflip": return "OApply tokm K2 %s (%d)" % (enc_tok(o[1]), o[2])
    if k == "CNOT": return "OCNOT tokm %s (%d) (%d)" % (enc_tok(o[1]), o[2], o[3])
    if k == "ECR": return "OECR tokm %s (%d) (%d)" % (enc_tok(o[1]), o[2], o[3])
    if k == "Rz": return "ORz tokm (%d) (1, 0)" % o[1]
    raise ValueError(k)


def enc_case(case, res):
    psi = coq_list([c1.zi(p) for p in case["psi"]])
    if case["kind"] == "filled":
        grid = coq_list([coq_list([c1.enc_entry(e) for e in row]) for row in case["grid"]])
        return "(%d%%nat, %d%%nat, %s, %s, %s)" % (case["npsi"], case["depth"], grid, psi, enc_expect(res))
    ops = coq_list([enc_op(o) for o in case["ops"]])
    return "(%d%%nat, %d%%nat, %s, %d%%nat, %s, %s)" % (case["n"], case["depth"], ops, case["npsi"], psi, enc_expect(res))


def shard(kind, terms):
    ty = ("nat * nat * list (list ecode) * list ZI * gexpect" if kind == "filled" else "nat * nat * list (op tokm) * nat * list ZI * gexpect")
    return (PRELUDE + "Definition cases : list (%s) :=\n [" % ty + ";\n  ".join(terms) + "].\n"
            "Definition result := gbad check_%s 0%%nat cases.\nEval vm_compute in result.\n" % kind)


def parse_bad(out):
    import re
    m = re.search(r"=\s*\[([^\]]*)\]", out.replace("%nat", ""))
    if not m: return None
    return [int(x) for x in m.group(1).replace(";", " ").split()]


def jsonable(case):
    d = {k: case[k] for k in ("kind", "family", "n", "depth", "npsi")}
    d["psi"] = [list(p) for p in case["psi"]]
    if case["kind"] == "filled": d["grid"] = case["grid"]
    else: d["ops"] = [list(o) for o in case["ops"]]
    d["family"] = "grid_statevector"; d["sub"] = case["family"]
    return d


def replay(doc):
    case = dict(doc); case["psi"] = [tuple(p) for p in doc["psi"]]
    if doc["kind"] == "filled":
        res = run_filled(case); cols = columns_of(case["grid"], case["depth"]) if case["n"] else []
    else:
        case["ops"] = [tuple(o) for o in doc["ops"]]
        res = run_built(case); cols = doc.get("cols")
    print("replay: Circuit.statevector ->", res)
    if cols and case["npsi"] == case["n"] and all(wf_column(c) for c in cols):
        print("replay: tensordot reference ->", reference(cols, case["psi"], case["n"]))


# ------------------------------------------------------------------ the correspondence run
def run(ck):
    """returns a report tuple for ck.report or None"""
    rng = random.Random(ck.seed * 7919 + 303)
    quick = ck.tier == "quick"
    cases = filled_cases(rng, quick) + built_cases(rng, quick)
    results = []; oracle_bad = None
    for case in cases:
        res = run_filled(case) if case["kind"] == "filled" else run_built(case)
        results.append(res)
        ck.count("grid_statevector" if case["domain"] else "grid_statevector_outside", 1,
                 key=(case["kind"], case["n"], case["depth"], repr(case.get("grid") or case.get("ops")), repr(case["psi"])),
                 sample={"family": case["family"], "n": case["n"], "depth": case["depth"], "result": res[0] if res[0] != "err" else res[1]})
        if case["domain"] and oracle_bad is None:
            ref = reference(case["cols"], case["psi"], case["n"])
            if res[0] != "vec" or res[1] != ref:
                doc = jsonable(case); doc["cols"] = case["cols"]
                doc["what"] = ("Circuit.statevector returned %s instead of the columns applied in order (tensordot reference)"
                               % (res[1] if res[0] != "vec" else "another vector"))
                oracle_bad = doc
    per = 150; shards = []
    for kind in ("filled", "built"):
        idx = [i for i, c in enumerate(cases) if c["kind"] == kind]
        for s0 in range(0, len(idx), per):
            part = idx[s0:s0 + per]
            shards.append(("c03_grid_%s_%d" % (kind, s0 // per), shard(kind, [enc_case(cases[i], results[i]) for i in part]), part))
    bad = []; build = None
    for (name, rc, out), (_, _, part) in zip(ck.coq_eval_many([(a, b) for a, b, _ in shards]), shards):
        ids = parse_bad(out) if rc == 0 else None
        if ids is None:
            build = build or (name, out[-600:]); continue
        for i in ids:
            if cases[part[i]]["domain"]: bad.append(part[i])
            else: ck.notes.append("GridBackend model and Circuit.statevector differ on the out-of-domain input %s n=%d depth=%d (not a violation)"
                                  % (cases[part[i]]["family"], cases[part[i]]["n"], cases[part[i]]["depth"]))
    ndom = sum(1 for c in cases if c["domain"])
    ck.oblige("correspondence: Circuit.statevector on Gaussian-integer grids (filled directly and built through the real apply / I / X / CNOT / ECR) == "
              "GridBackend.grid_statevector after Builders.gexec in Coq, vector or exception class (%d cases, %d well-formed)" % (len(cases), ndom),
              not bad and build is None)
    ck.oblige("oracle: Circuit.statevector == the columns applied in order by tensordot (%d well-formed grids)" % ndom, oracle_bad is None)
    if oracle_bad:
        return ("oracle:grid_statevector", "Circuit n=%d depth=%d: %s" % (oracle_bad["n"], oracle_bad["depth"], oracle_bad["what"]), oracle_bad, True)
    if bad:
        doc = jsonable(cases[bad[0]]); doc["correspondence"] = "C03 grid_statevector (%s)" % cases[bad[0]]["family"]; doc["impl"] = list(results[bad[0]])
        return ("corr:grid_statevector", "Circuit.statevector and Model/GridBackend.v differ on a well-formed grid (n=%d, depth=%d); C03_end_to_end_grid no longer "
                "speaks about this code (the tensordot reference agrees with the implementation on every explored grid)" % (doc["n"], doc["depth"]), doc, False)
    if build:
        return ("corr-build:grid_statevector", "correspondence file failed to compile: %s" % (build,), {"correspondence": build[0], "log": build[1]}, False)
    return None
