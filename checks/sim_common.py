"""Shared by C03 and C08: native circuit generators, device tables with pairwise distinct entries, a recording
deterministic gate set, the model prediction of the gate-set call sequence from the regenerated traces, and reference
computations (tensordot placement, Qiskit marginals)."""
import math, copy
import numpy as np
from vlib import symtrace as st

CLASSES = ["Circuit", "StandardCircuit", "EfficientCircuit", "OneCircuit", "BinaryCircuit"]
BASE = {"Circuit": "Circuit", "StandardCircuit": "AlternativeCircuit", "EfficientCircuit": "AlternativeCircuit", "OneCircuit": "AlternativeCircuit", "BinaryCircuit": "BinaryCircuit"}
TWOQ = ("CNOT", "CNOT_inv", "ECR", "ECR_inv")


def circuit_class(name):
    import quantum_gates._simulation.circuit as c
    return getattr(c, name)


def dev_distinct(nphys):
    """every table entry identifies its table and its physical qubit(s)"""
    q = np.arange(nphys, dtype=float)
    return {"T1": 100. + q, "T2": 200. + q, "p": 300. + q, "rout": 400. + q, "p_int": 500. + 10 * q[:, None] + q[None, :],
            "t_int": 700. + 10 * q[:, None] + q[None, :], "tm": 900. + q, "dt": np.array([0.5])}


def dev_plain(nphys):
    return {"T1": np.full(nphys, 1e-4), "T2": np.full(nphys, 1e-4), "p": np.full(nphys, 1e-4), "rout": np.full(nphys, 1e-2),
            "p_int": np.full((nphys, nphys), 1e-2), "t_int": np.full((nphys, nphys), 3e-7), "tm": np.full(nphys, 1e-6), "dt": np.array([2.2e-10])}


def build_circuit(nphys, instrs, nclbits, split=None):
    """split = (k, c): the qubits live in two quantum registers (k and nphys - k qubits) and the classical bits in two classical
    registers (c and the rest): qubit / clbit numbers in `instrs` are positions in the CIRCUIT, as everywhere"""
    from qiskit import QuantumCircuit, QuantumRegister, ClassicalRegister
    ncl = max(1, nclbits)
    if split == "reversed":      # the circuit holds the bits of one register in REVERSED order (what reverse_bits() produces): Qubit._index != position
        qc = QuantumCircuit(nphys, ncl, name="circ").reverse_bits()      # one register each, but circuit position k holds register bit n-1-k
        assert len(qc.qregs) == 1 and (nphys < 2 or qc.qubits[0]._index != 0)
    elif split and 0 < split[0] < nphys:
        regs = [QuantumRegister(split[0], "a"), QuantumRegister(nphys - split[0], "b")]
        regs += [ClassicalRegister(split[1], "c"), ClassicalRegister(ncl - split[1], "d")] if 0 < split[1] < ncl else [ClassicalRegister(ncl, "c")]
        qc = QuantumCircuit(*regs, name="circ")
    else:
        qc = QuantumCircuit(nphys, ncl, name="circ")   # every circuit carries the same name: a name is not an identity
    for name, qs, extra in instrs:
        if name == "rz": qc.rz(extra, qs[0])
        elif name == "sx": qc.sx(qs[0])
        elif name == "x": qc.x(qs[0])
        elif name == "cx": qc.cx(qs[0], qs[1])
        elif name == "ecr": qc.ecr(qs[0], qs[1])
        elif name == "delay": qc.delay(int(extra), qs[0])
        elif name == "barrier": qc.barrier(*qs)
        elif name == "measure": qc.measure(qc.qubits[qs[0]], qc.clbits[extra])
        else: raise ValueError(name)
    return qc


def rand_circuit(rng, labels, length, adjacent, touch_all_first=True):
    """native body; with touch_all_first every label receives an rz first, in random order (first-touch order permuted)"""
    n = len(labels); ins = []
    if touch_all_first:
        for q in rng.permutation(labels):
            ins.append(("rz", [int(q)], float(np.round(rng.uniform(-3, 3), 3))))
    for _ in range(length):
        r = rng.random()
        if r < 0.05: ins.append(("rz", [int(rng.choice(labels))], float(rng.choice([8e-6, -8e-6, 2 * np.pi + 8e-6, -2 * np.pi - 5e-6, 2 * np.pi, 0.0, 4 * np.pi - 3e-6]))))   # next to, and exactly, full turns
        elif r < 0.25: ins.append(("rz", [int(rng.choice(labels))], float(np.round(rng.uniform(-3, 3), 3))))
        elif r < 0.45: ins.append(("sx", [int(rng.choice(labels))], None))
        elif r < 0.55: ins.append(("x", [int(rng.choice(labels))], None))
        elif r < 0.60: ins.append(("delay", [int(rng.choice(labels))], int(rng.integers(1, 99))))
        elif r < 0.64: ins.append(("barrier", [int(x) for x in rng.choice(labels, int(rng.integers(1, n + 1)), replace=False)], None))
        elif n > 1:
            if adjacent:
                a = int(rng.integers(n - 1)); b = a + 1
            else:
                a, b = [int(x) for x in rng.choice(n, 2, replace=False)]
            if rng.random() < 0.5: a, b = b, a
            ins.append((str(rng.choice(["cx", "ecr"])), [labels[a], labels[b]], None))
    return ins


def add_measures(rng, ins, labels, subset=None):
    """measure instructions for a random subset, issued in RANDOM qubit order (classical bit k = k-th measure issued): the k-th key
    character is the bit of the k-th measured qubit, whatever the order; a prescribed subset is measured in the order given"""
    if subset is not None: meas = [int(q) for q in subset]
    else:
        meas = [int(q) for q in rng.choice(labels, int(rng.integers(1, len(labels) + 1)), replace=False)]
        if rng.random() < 0.4: meas.sort()
    out = list(ins)
    for k, q in enumerate(meas):
        out.append(("measure", [q], k))
    return out, meas


# ------------------------------------------------------------------ recording deterministic gate set
def _gi_matrix(name, args, dim):
    """a fixed phased permutation matrix determined by the call (exact Gaussian-integer arithmetic downstream)"""
    h = hash((name,) + tuple(round(float(a), 9) for a in args)) & 0xFFFFFFFF
    r = np.random.default_rng(h)
    M = np.zeros((dim, dim), complex)
    for i, j in enumerate(r.permutation(dim)):
        M[i, j] = [1, -1, 1j, -1j][int(r.integers(4))]
    return M


class Spy:
    """gate set recording every call; survives the simulator's deep copies by sharing one log"""
    def __init__(self):
        self.log = []

    def __deepcopy__(self, memo):
        return self

    def __getattr__(self, name):
        if name.startswith("__"):
            raise AttributeError(name)

        def f(*a):
            args = [float(x) for x in a]
            self.log.append((name, args))
            return _gi_matrix(name, args, 4 if name in TWOQ else 2)
        return f


_CAPTURED = []


def capturing_class(cls_name):
    base = circuit_class(cls_name)

    class Capturing(base):
        def statevector(self, psi0):
            psi = super().statevector(psi0)
            _CAPTURED.append(np.asarray(psi, complex).copy())
            return psi
    Capturing.__name__ = cls_name
    return Capturing


def run_spy(cls_name, labels, instrs_with_meas, nphys, dev, psi0=None, shots=1, gates=None, split=None):
    """returns (gate-set call log, result dict, statevector of the (single) shot)"""
    from quantum_gates._simulation.simulator import MrAndersonSimulator
    n = len(labels)
    # ONE simulator object per (circuit class, gate set) serves every run of this process, and every circuit has the same name and
    # often the same length: a run is a function of its arguments, never of what the simulator object has seen before
    key = (cls_name, "spy" if gates is None else id(gates))
    if key not in _SIMS:
        spy = gates if gates is not None else Spy()
        _SIMS[key] = (MrAndersonSimulator(gates=spy, CircuitClass=capturing_class(cls_name)), spy)
    sim, spy = _SIMS[key]
    if hasattr(spy, "log"):
        spy.log = []
    qc = build_circuit(nphys, instrs_with_meas, sum(1 for i in instrs_with_meas if i[0] == "measure"), split=split)
    if psi0 is None:
        psi0 = np.zeros(2 ** n); psi0[0] = 1
    del _CAPTURED[:]
    res = sim.run(t_qiskit_circ=qc, qubits_layout=list(labels), psi0=psi0, shots=shots, device_param=dev, nqubit=n)
    return (spy.log if hasattr(spy, "log") else None), res, (_CAPTURED[0] if _CAPTURED else None)


_SIMS = {}


# ------------------------------------------------------------------ model prediction from the regenerated traces
def predict_calls(C, S, cls_name, labels, instrs, dev):
    """gate-set call sequence predicted by composing the traced simulator branch with the traced circuit methods.
    labels: sorted physical labels (layered classes: 0..n-1)."""
    base = BASE[cls_name]; n = len(labels)
    hand = {(r["cls"], r["meth"], r["lt"], r["state"]): r for r in C["handoff"]}
    phi = [0.0] * n
    out = []
    env_tab = {}
    for t in ("T1", "T2", "p", "rout", "tm"):
        for q in range(len(dev[t])): env_tab["%s[%d]" % (t, q)] = float(dev[t][q])
    for t in ("p_int", "t_int"):
        for a in range(dev[t].shape[0]):
            for b in range(dev[t].shape[1]): env_tab["%s[%d][%d]" % (t, a, b)] = float(dev[t][a][b])

    def method_call(meth, i, k, params):
        """apply the traced circuit method to internal indices i (, k) with numeric parameters"""
        lt = True if k is None else (i < k)
        rec = hand[(base, meth, lt, 0)]
        env = dict(params); env["phi[i]"] = phi[i]
        if k is not None: env["phi[k]"] = phi[k]
        if rec["gate"]:
            out.append((rec["gate"], [float(np.real(st.ev(a, dict(env), {}))) for a in rec["args"]]))
        for nm, v in rec["phi"]:
            val = float(np.real(st.ev(v, dict(env), {})))
            if nm == "i": phi[i] = val
            else: phi[k] = val
            env["phi[i]"] = phi[i]
            if k is not None: env["phi[k]"] = phi[k]

    P2 = ["t", "p_ik", "p_i", "p_k", "T1i", "T2i", "T1k", "T2k"]
    for name, qs, extra in instrs:
        if name in ("barrier", "measure"): continue
        if base == "BinaryCircuit":
            calls = S["binary"][name]
            bind = {"theta": extra if name == "rz" else 0.0, "dur": float(extra) if name == "delay" else 0.0, "dt": float(dev["dt"][0])}
            if name in ("cx", "ecr"):
                c, t = qs
                for tb in ("p", "T1", "T2"):
                    bind["%s[c]" % tb] = float(dev[tb][c]); bind["%s[t]" % tb] = float(dev[tb][t])
                bind["t_int[c][t]"] = float(dev["t_int"][c][t]); bind["p_int[c][t]"] = float(dev["p_int"][c][t])
                idxmap = {"v(c)": labels.index(c), "v(t)": labels.index(t)}
            else:
                a = qs[0]
                for tb in ("p", "T1", "T2"): bind["%s[a]" % tb] = float(dev[tb][a])
                idxmap = {"v(a)": labels.index(a)}
            for meth, args in calls:
                idx = [idxmap[x.name] for x in args if hasattr(x, "name")]
                vals = [float(np.real(st.ev(x, dict(bind), {}))) for x in args if not hasattr(x, "name")]
                if meth == "Rz": method_call("Rz", idx[0], None, {"theta": vals[0]})
                elif meth in ("X", "SX"): method_call(meth, idx[0], None, dict(zip(["p_i", "T1i", "T2i"], vals)))
                elif meth == "relaxation": method_call(meth, idx[0], None, dict(zip(["Dt", "T1i", "T2i"], vals)))
                else: method_call(meth, idx[0], idx[1], dict(zip(P2, vals)))
        else:
            rec = next(r for r in S["layered"] if r["n"] == n and r["kind"] == name and r["qubits"] == list(qs))
            bind = dict(env_tab); bind.update({"theta": extra if name == "rz" else 0.0, "dur": float(extra) if name == "delay" else 0.0, "dt": float(dev["dt"][0])})
            for meth, args in rec["calls"]:
                idx = [a for a in args if isinstance(a, int)]
                vals = [float(np.real(st.ev(x, dict(bind), {}))) for x in args if not isinstance(x, int)]
                if meth == "I": continue
                if meth == "Rz": method_call("Rz", idx[0], None, {"theta": vals[0]})
                elif meth in ("X", "SX"): method_call(meth, idx[0], None, dict(zip(["p_i", "T1i", "T2i"], vals)))
                elif meth == "relaxation": method_call(meth, idx[0], None, dict(zip(["Dt", "T1i", "T2i"], vals)))
                else: method_call(meth, idx[0], idx[1], dict(zip(P2, vals)))
    for k in range(n):
        q = labels[k] if base == "BinaryCircuit" else k
        out.append(("bitflip", [float(dev["tm"][q]), float(dev["rout"][q])]))
    return out


def logs_equal(a, b, tol=1e-9):
    if len(a) != len(b): return False
    for (n1, x1), (n2, x2) in zip(a, b):
        if n1 != n2 or len(x1) != len(x2): return False
        if any(abs(u - v) > tol * (1 + abs(v)) for u, v in zip(x1, x2)): return False
    return True


# ------------------------------------------------------------------ independent spec of the call sequence (oracle)
def spec_calls(labels, instrs, dev, layered):
    """what the property demands, written independently of the traces: own calibration values, own current virtual phase"""
    n = len(labels); phi = {q: 0.0 for q in labels}; out = []
    for name, qs, extra in instrs:
        if name == "rz": phi[qs[0]] += extra
        elif name in ("sx", "x"):
            q = qs[0]; out.append((name.upper(), [-phi[q], dev["p"][q], dev["T1"][q], dev["T2"][q]]))
        elif name == "delay":
            q = qs[0]; out.append(("relaxation", [extra * dev["dt"][0], dev["T1"][q], dev["T2"][q]]))
        elif name in ("cx", "ecr"):
            c, t = qs; fwd = labels.index(c) < labels.index(t)
            own = lambda q: (dev["p"][q], dev["T1"][q], dev["T2"][q])
            tt, pp = dev["t_int"][c][t], dev["p_int"][c][t]
            if name == "cx":
                if fwd:
                    out.append(("CNOT", [phi[c], phi[t], tt, pp, own(c)[0], own(t)[0], own(c)[1], own(c)[2], own(t)[1], own(t)[2]])); phi[c] -= math.pi / 2
                else:   # CNOT_inv keeps the (control, target) argument roles; its matrix slots are (target, control)
                    out.append(("CNOT_inv", [phi[c], phi[t], tt, pp, own(c)[0], own(t)[0], own(c)[1], own(c)[2], own(t)[1], own(t)[2]]))
                    phi[c] += math.pi / 2 + math.pi; phi[t] += math.pi / 2
            else:
                if fwd:
                    out.append(("ECR", [phi[c], phi[t], tt, pp, own(c)[0], own(t)[0], own(c)[1], own(c)[2], own(t)[1], own(t)[2]]))
                else:   # ECR_inv: first argument block = qubit of slot 0 = the lower index = the target
                    out.append(("ECR_inv", [phi[t], phi[c], tt, pp, own(t)[0], own(c)[0], own(t)[1], own(t)[2], own(c)[1], own(c)[2]]))
    for q in labels:
        out.append(("bitflip", [dev["tm"][q], dev["rout"][q]]))
    return [(nm, [float(x) for x in a]) for nm, a in out]


def placement_reference(labels, instrs, log, psi0):
    """apply each logged matrix on its instruction's own qubits (tensordot, independent of the backends): the statevector the
    property demands for a deterministic gate set.  Slot order of a two-qubit matrix: (lower internal index, higher)."""
    n = len(labels); psi = np.asarray(psi0, complex).reshape([2] * n); it = iter(log)
    for name, qs, extra in instrs:
        if name in ("rz", "barrier", "measure"): continue
        nm, args = next(it)
        if name in ("cx", "ecr"):
            a, b = sorted(labels.index(q) for q in qs)
            M = _gi_matrix(nm, args, 4).reshape(2, 2, 2, 2)
            psi = np.moveaxis(np.tensordot(M, psi, axes=([2, 3], [a, b])), [0, 1], [a, b])
        else:
            a = labels.index(qs[0]); M = _gi_matrix(nm, args, 2)
            psi = np.moveaxis(np.tensordot(M, psi, axes=([1], [a])), 0, a)
    for k in range(n):
        nm, args = next(it)
        M = _gi_matrix(nm, args, 2)
        psi = np.moveaxis(np.tensordot(M, psi, axes=([1], [k])), 0, k)
    return psi.reshape(-1)


def marginal(prob, n, positions):
    out = {}
    for i, v in enumerate(prob):
        bits = format(i, "0%db" % n); key = "".join(bits[p] for p in positions)
        out[key] = out.get(key, 0.0) + float(v)
    return out


def qiskit_marginals(labels, instrs, meas, psi0):
    """ideal Born probabilities, marginalised to the measured qubits; internal qubit k (ascending label order) is the
    k-th most significant factor of psi0 (Qiskit is little-endian: qubit n-1-k)"""
    from qiskit import QuantumCircuit
    from qiskit.quantum_info import Statevector
    n = len(labels); q2 = QuantumCircuit(n)
    for name, qs, extra in instrs:
        idx = [n - 1 - labels.index(q) for q in qs]
        if name == "rz": q2.rz(extra, idx[0])
        elif name == "sx": q2.sx(idx[0])
        elif name == "x": q2.x(idx[0])
        elif name == "cx": q2.cx(idx[0], idx[1])
        elif name == "ecr": q2.ecr(idx[0], idx[1])
    p = np.abs(Statevector(np.asarray(psi0, complex)).evolve(q2).data) ** 2
    return marginal(p, n, [labels.index(q) for q in meas])
