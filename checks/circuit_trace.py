"""Traces circuit.py methods (symbolic qubit indices, symbolic phases, recording gate set) and the instruction
branches of simulator._apply_gates_on_circuit (symbolic physical qubits and device tables) from the CURRENT source,
and writes coq/Gen/GenCircuit.v.  Used by C08 and C03."""
import os, sys, itertools
from vlib import symtrace as st
from vlib.symtrace import E, V, LIT, SymMat, Session, TraceError
from vlib.common import SRC, COQ

SIM_DIR = os.path.join(SRC, "quantum_gates", "_simulation")
PARAMS2 = ["t", "p_ik", "p_i", "p_k", "T1i", "T2i", "T1k", "T2k"]
TWOQ = ("CNOT", "CNOT_inv", "ECR", "ECR_inv")


class Idx:
    """symbolic qubit index"""
    def __init__(s, name): s.name = name
    def __lt__(s, o): return st.S().decide(("lt", s.name, o.name))
    def __gt__(s, o): return st.S().decide(("lt", o.name, s.name))
    def __sub__(s, o): return IdxDiff(s, o)
    def __eq__(s, o):
        if isinstance(o, Idx): return o.name == s.name
        return False            # a symbolic index is never the literal -1 / another int
    def __ne__(s, o): return not s.__eq__(o)
    def __hash__(s): return hash(s.name)
    def __repr__(s): return s.name
    def __index__(s): raise TraceError("symbolic index used as a concrete list index")


class IdxDiff:
    def __init__(s, a, b): s.a, s.b = a, b
    def __abs__(s): return s
    def __eq__(s, o):
        st.S().assumed.append(("adjacent", s.a.name, s.b.name)); return True


class SymList:
    """list indexed by symbolic indices: reads give the current symbolic value, writes are recorded"""
    def __init__(s, tag): s.tag = tag; s.writes = []; s.cur = {}
    def __getitem__(s, i):
        if not isinstance(i, Idx): raise TraceError("%s indexed by a non-symbolic index %r" % (s.tag, i))
        return s.cur.get(i.name, V("%s[%s]" % (s.tag, i.name)))
    def __setitem__(s, i, v):
        if not isinstance(i, Idx): raise TraceError("%s written at a non-symbolic index" % s.tag)
        s.cur[i.name] = v; s.writes.append((i.name, v))


class Grid:
    """the grid class's circuit[i][j]"""
    def __init__(s): s.writes = []
    def __getitem__(s, i):
        g = s
        class Row:
            def __setitem__(r, j, v): g.writes.append((i.name if isinstance(i, Idx) else i, j, v))
        return Row()


class RecGates:
    """recording gate set: every method logs its arguments and returns a matrix symbol of the right shape"""
    def __init__(s): s.calls = []
    def __getattr__(s, name):
        if name.startswith("__"): raise AttributeError(name)
        def f(*a):
            s.calls.append((name, [st.lift(x) for x in a]))
            d = 4 if name in TWOQ else 2
            return SymMat("sym", "G%d" % (len(s.calls) - 1), (d, d))
        return f


def load_circuit_module():
    sh = st.NPshim()
    sh.ndarray = SymMat
    sh.arange = lambda n: list(range(n))
    mod = st.load_lifted(os.path.join(SIM_DIR, "circuit.py"), "quantum_gates._simulation._lifted_circuit", "quantum_gates._simulation", inject={"np": sh})
    return mod


def make_circ(cm, cls, g, nq=5):
    if cls == "Circuit":
        c = cm.Circuit(nq, 3, g); c.circuit = Grid()
    elif cls == "AlternativeCircuit":
        c = cm.AlternativeCircuit.__new__(cm.AlternativeCircuit)
        c.nqubit = nq; c.gates = g; c._s = 0; c._mp_list = []; c._backend = None; c._BackendClass = None
        c._mp = SymList("_mp")
    elif cls == "BinaryCircuit":
        c = cm.BinaryCircuit.__new__(cm.BinaryCircuit)
        c.nqubit = nq; c.gates = g; c._backend = None; c._BackendClass = None; c.qubit_layout = list(range(nq)); c._info_gates_list = []
    else:
        raise TraceError(cls)
    c.phi = SymList("phi")
    return c


def trace_circuits():
    cm = load_circuit_module()
    out = {"handoff": [], "inherit": {}}
    # subclasses must not override anything
    for sub in ("StandardCircuit", "EfficientCircuit", "OneCircuit"):
        cls = getattr(cm, sub)
        own = sorted(k for k in vars(cls) if not k.startswith("__") or k == "__init__")
        out["inherit"][sub] = own
        if own != ["__init__"] or cls.__bases__ != (cm.AlternativeCircuit,):
            raise TraceError("%s overrides %r" % (sub, own))
    for cls in ("Circuit", "AlternativeCircuit", "BinaryCircuit"):
        states = [0, 1] if cls == "Circuit" else [0]     # grid: s < nqubit / s == nqubit
        for stt in states:
            for meth in ("CNOT", "ECR"):
                for lt in (True, False):
                    s = Session([lt]); g = RecGates(); c = make_circ(cm, cls, g)
                    if cls == "Circuit" and stt == 1: c.s = c.nqubit
                    i, k = Idx("i"), Idx("k")
                    getattr(c, meth)(i, k, *[V(a) for a in PARAMS2])
                    if len(s.log) != 1: raise TraceError("%s.%s: expected one direction decision, saw %d" % (cls, meth, len(s.log)))
                    if len(g.calls) != 1: raise TraceError("%s.%s: expected one gate-set call" % (cls, meth))
                    rec = {"cls": cls, "meth": meth, "lt": lt, "state": stt, "gate": g.calls[0][0], "args": g.calls[0][1], "phi": list(c.phi.writes),
                           "adjacent": any(a[0] == "adjacent" for a in s.assumed)}
                    if cls == "Circuit":
                        if len(c.circuit.writes) != 1: raise TraceError("grid writes")
                        row, col, val = c.circuit.writes[0]
                        rec["place"] = ("row", row); rec["col"] = col; rec["s_after"] = c.s; rec["j_after"] = c.j
                    elif cls == "AlternativeCircuit":
                        if len(c._mp.writes) != 1: raise TraceError("_mp writes")
                        rec["place"] = ("row", c._mp.writes[0][0]); rec["s_after"] = c._s
                    else:
                        if len(c._info_gates_list) != 1: raise TraceError("binary items")
                        gate, qs = c._info_gates_list[0]
                        rec["place"] = ("pair", [repr(q) for q in qs])
                    out["handoff"].append(rec)
            # single-qubit methods
            for meth, params in (("X", ["p_i", "T1i", "T2i"]), ("SX", ["p_i", "T1i", "T2i"]), ("relaxation", ["Dt", "T1i", "T2i"]),
                                 ("bitflip", ["tm_i", "rout_i"]), ("depolarizing", ["Dt", "p_i"]), ("Rz", ["theta"]), ("I", [])):
                s = Session(); g = RecGates(); c = make_circ(cm, cls, g)
                if cls == "Circuit" and stt == 1: c.s = c.nqubit
                i = Idx("i")
                getattr(c, meth)(i, *[V(a) for a in params])
                rec = {"cls": cls, "meth": meth, "lt": True, "state": stt, "gate": g.calls[0][0] if g.calls else "", "args": g.calls[0][1] if g.calls else [],
                       "phi": list(c.phi.writes), "adjacent": False}
                if cls == "Circuit":
                    rec["place"] = ("row", c.circuit.writes[0][0]) if c.circuit.writes else ("none",)
                    if c.circuit.writes: rec["leaf"] = c.circuit.writes[0][2]
                elif cls == "AlternativeCircuit":
                    rec["place"] = ("row", c._mp.writes[0][0]) if c._mp.writes else ("none",)
                    if c._mp.writes: rec["leaf"] = c._mp.writes[0][1]
                else:
                    rec["place"] = ("pair", [repr(q) for q in c._info_gates_list[0][1]]) if c._info_gates_list else ("none",)
                    if c._info_gates_list: rec["leaf"] = c._info_gates_list[0][0]
                out["handoff"].append(rec)
    return out


# ------------------------------------------------------------------ simulator branch
class Tab1:
    def __init__(s, t): s.t = t
    def __getitem__(s, i):
        if isinstance(i, Idx): return V("%s[%s]" % (s.t, i.name))
        if isinstance(i, int) and not isinstance(i, bool): return V("%s[%d]" % (s.t, i)) if s.t != "dt" else V("dt")
        if isinstance(i, E) and i.op == "q": return V("%s[%d]" % (s.t, int(i))) if s.t != "dt" else V("dt")
        raise TraceError("table %s indexed by %r" % (s.t, i))
    def __len__(s): return 99


class Tab2(Tab1):
    def __getitem__(s, i):
        t = s.t
        nm = i.name if isinstance(i, Idx) else str(int(i))
        class Row:
            def __getitem__(r, j):
                return V("%s[%s][%s]" % (t, nm, j.name if isinstance(j, Idx) else str(int(j))))
        return Row()


class Layout:
    """qubit_layout with symbolic physical labels: index(q) is the internal index v(q)"""
    def index(s, q):
        if not isinstance(q, Idx): raise TraceError("layout.index of a concrete label")
        return Idx("v(%s)" % q.name)
    def __getitem__(s, k): return Idx("L[%d]" % int(k))


class _Op:
    def __init__(s, name, params=(), duration=None): s.name = name; s.params = list(params); s.duration = duration
class _Q:
    def __init__(s, i): s._index = i
class Ins:
    def __init__(s, name, qs, params=(), duration=None): s.operation = _Op(name, params, duration); s.qubits = [_Q(q) for q in qs]; s.clbits = []


class _SymFloatParam:
    """stands for the rz angle: float(param) must give the symbolic angle"""
    def __init__(s, e): s.e = e
    def __float__(s): raise TraceError("float() of a symbolic rz angle")


def load_sim_module(binary_cls):
    mod = st.load_lifted(os.path.join(SIM_DIR, "simulator.py"), "quantum_gates._simulation._lifted_simulator", "quantum_gates._simulation",
                         inject={"BinaryCircuit": binary_cls, "float": lambda x: x.e if isinstance(x, _SymFloatParam) else st.lift(x)})
    return mod


class RecCircBase:
    def __init__(s, n): s.nqubit = n; s.calls = []
    def _rec(s, name):
        def f(*a):
            s.calls.append((name, [x if isinstance(x, (Idx, int)) and not isinstance(x, bool) else st.lift(x) for x in a]))
        return f
    def __getattr__(s, name):
        if name in ("Rz", "SX", "X", "ECR", "CNOT", "relaxation", "bitflip", "depolarizing", "I"):
            return s._rec(name)
        raise AttributeError(name)


class RecBinary(RecCircBase):
    pass


class RecLayered(RecCircBase):
    pass


def dev_tables():
    return {"T1": Tab1("T1"), "T2": Tab1("T2"), "p": Tab1("p"), "rout": Tab1("rout"), "p_int": Tab2("p_int"), "t_int": Tab2("t_int"), "tm": Tab1("tm"), "dt": Tab1("dt")}


def instr_list(a, c, t):
    return [("rz", Ins("rz", [a], [_SymFloatParam(V("theta"))])), ("sx", Ins("sx", [a])), ("x", Ins("x", [a])), ("cx", Ins("cx", [c, t])),
            ("ecr", Ins("ecr", [c, t])), ("delay", Ins("delay", [a], duration=V("dur")))]


def trace_simulator(nmax=4):
    sm = load_sim_module(RecBinary)
    out = {"binary": {}, "binary_readout": None, "layered": []}
    for name, ins in instr_list(Idx("a"), Idx("c"), Idx("t")):
        Session(); c = RecBinary(0)
        sm._apply_gates_on_circuit([ins], c, dev_tables(), Layout())
        out["binary"][name] = c.calls
    Session(); c = RecBinary(2)
    sm._apply_gates_on_circuit([], c, dev_tables(), Layout())
    out["binary_readout"] = c.calls
    # layered branch: concrete qubit positions, symbolic tables (loops over range(nqubit))
    for n in range(1, nmax + 1):
        for name in ("rz", "sx", "x", "delay", "cx", "ecr"):
            pairs = [(q,) for q in range(n)] if name in ("rz", "sx", "x", "delay") else [(a, b) for a in range(n) for b in range(n) if abs(a - b) == 1]
            for qs in pairs:
                ins = dict(instr_list(qs[0], qs[0], qs[-1]))[name]
                Session(); c = RecLayered(n)
                sm._apply_gates_on_circuit([ins], c, dev_tables(), list(range(n)))
                out["layered"].append({"n": n, "kind": name, "qubits": list(qs), "calls": c.calls[:-n], "readout": c.calls[-n:]})
    return out


def fmt_calls(calls):
    return [(n, [repr(a) for a in args]) for n, args in calls]


if __name__ == "__main__":
    C = trace_circuits()
    for r in C["handoff"]:
        if r["meth"] in ("CNOT", "ECR"):
            print(r["cls"], r["meth"], "i<k" if r["lt"] else "i>k", "s%d" % r["state"], r["gate"], [repr(a) for a in r["args"]], "phi:", [(n, repr(v)) for n, v in r["phi"]], r["place"])
    for r in C["handoff"]:
        if r["meth"] not in ("CNOT", "ECR") and r["state"] == 0:
            print(r["cls"], r["meth"], r["gate"], [repr(a) for a in r["args"]], "phi:", [(n, repr(v)) for n, v in r["phi"]], r["place"], r.get("leaf"))
    S_ = trace_simulator(3)
    for k, v in S_["binary"].items(): print("binary", k, fmt_calls(v))
    print("binary readout", fmt_calls(S_["binary_readout"]))
    for r in S_["layered"][:12]: print("layered", r["n"], r["kind"], r["qubits"], fmt_calls(r["calls"]))
    print("layered readout n=3", fmt_calls(S_["layered"][-1]["readout"]))


# ------------------------------------------------------------------ Coq emission
TABLES = {"T1": 0, "T2": 1, "p": 2, "rout": 3, "tm": 4, "p_int": 5, "t_int": 6}


class CircEmitter(st.Emitter):
    """device-table entries at concrete positions get computable variable indices:
    T[q] -> 1000 + 100*code(T) + q,  T[a][b] -> 3000 + 100*code(T) + 10*a + b  (a, b < 10)"""

    def vid(self, name):
        import re
        m = re.match(r"^(\w+)\[(\d+)\]$", name)
        if m and m.group(1) in TABLES:
            return 1000 + 100 * TABLES[m.group(1)] + int(m.group(2))
        m = re.match(r"^(\w+)\[(\d+)\]\[(\d+)\]$", name)
        if m and m.group(1) in TABLES:
            return 3000 + 100 * TABLES[m.group(1)] + 10 * int(m.group(2)) + int(m.group(3))
        return super().vid(name)


def emit_coq(C, S):
    em = CircEmitter()
    for n in ["phi[i]", "phi[k]", "t", "p_ik", "p_i", "p_k", "T1i", "T2i", "T1k", "T2k", "theta", "Dt", "tm_i", "rout_i"]:
        em.vid(n)
    out = ["(* GENERATED on every run by checks/circuit_trace.py from the current source of circuit.py and simulator.py. *)",
           "From Coq Require Import QArith List String.", "Require Import QG.Sym.Expr QG.Model.Handoff.", "Import ListNotations.",
           "Close Scope Q_scope.", "Open Scope string_scope.", ""]
    idx = {"i": 0, "k": 1}
    recs = []
    for r in C["handoff"]:
        two = r["meth"] in ("CNOT", "ECR")
        if r["place"][0] == "row":
            row = idx[r["place"][1]]
            place = ([0, 1] if r["lt"] else [1, 0]) if two else [0]
        elif r["place"][0] == "pair":
            row = 9
            place = [idx[x] for x in r["place"][1] if x in idx]
        else:
            row = 9; place = []
        leaf = 0 if "leaf" not in r else (2 if getattr(r["leaf"], "op", "") == "leaf" else 1)   # 1 = the gate-set result, 2 = a literal matrix
        recs.append('{| h_cls := "%s"; h_meth := "%s"; h_lt := %s; h_state := %d; h_gate := "%s"; h_args := %s; h_phi := [%s]; h_place := [%s]; h_row := %d; h_adjacent := %s; h_lit := %s |}'
                    % (r["cls"], r["meth"], "true" if r["lt"] else "false", r["state"], r["gate"], em.exprlist(r["args"]),
                       "; ".join("(%d, %s)" % (idx[n], em.expr(v)) for n, v in r["phi"]), "; ".join(map(str, place)), row,
                       "true" if r["adjacent"] else "false", "true" if leaf == 2 else "false"))
    out.append("Definition gen_handoff : list handoff :=\n  [%s]." % ";\n   ".join(recs))
    out.append("Definition gen_subclasses : list string := [%s]." % "; ".join('"%s"' % k for k in C["inherit"]))

    def arg(a):
        if isinstance(a, Idx): return em.expr(V(a.name))
        if isinstance(a, int): return em.expr(st.lift(a))
        return em.expr(a)
    items = []
    for kind, calls in S["binary"].items():
        items.append('("%s", [%s])' % (kind, "; ".join('("%s", [%s])' % (n, "; ".join(arg(a) for a in args)) for n, args in calls)))
    out.append("Definition gen_sim_binary : list (string * list (string * list expr)) :=\n  [%s]." % ";\n   ".join(items))
    out.append("Definition gen_sim_binary_readout : list (string * list expr) := [%s]." % "; ".join('("%s", [%s])' % (n, "; ".join(arg(a) for a in args)) for n, args in S["binary_readout"]))
    lay = []
    for r in S["layered"]:
        lay.append('(%d%%nat, "%s", [%s], [%s], [%s])' % (r["n"], r["kind"], "; ".join("%d%%nat" % q for q in r["qubits"]),
                   "; ".join('("%s", [%s])' % (n, "; ".join(arg(a) for a in args)) for n, args in r["calls"]),
                   "; ".join('("%s", [%s])' % (n, "; ".join(arg(a) for a in args)) for n, args in r["readout"])))
    out.append("Definition gen_sim_layered : list (nat * string * list nat * list (string * list expr) * list (string * list expr)) :=\n  [%s]." % ";\n   ".join(lay))
    names = sorted(em.vars.items(), key=lambda kv: kv[1])
    out.append("Definition gen_cvarnames : list (nat * string) :=\n  [%s]." % "; ".join('(%d, "%s")' % (i, n) for n, i in names))
    return "\n".join(out) + "\n"


def write_gen(path=None, nmax=4):
    C = trace_circuits(); S = trace_simulator(nmax)
    text = emit_coq(C, S)
    path = path or os.path.join(COQ, "Gen", "GenCircuit.v")
    os.makedirs(os.path.dirname(path), exist_ok=True)
    old = open(path).read() if os.path.exists(path) else None
    if old != text:
        open(path, "w").write(text)
    return C, S
