"""C19 harness (child process): runs the real batch helpers / post_process_split of the package on the cases given in
a JSON file and writes the observations to another JSON file.
usage: c19_harness.py <cases.json> <out.json>"""
import sys, os, json, io, contextlib, tempfile, shutil
from fractions import Fraction

sys.path.insert(0, os.path.dirname(os.path.abspath(__file__)))


def snapshot(np, d):
    snap = {}
    for name in sorted(os.listdir(d)):
        p = os.path.join(d, name)
        try:
            a = np.atleast_1d(np.loadtxt(p))
            vals = []
            for x in a.ravel().tolist():
                fr = Fraction(x)
                vals.append([str(fr.numerator), str(fr.denominator)])
            snap[name] = {"shape": list(a.shape), "vals": vals}
        except Exception as e:  # noqa
            snap[name] = {"unreadable": type(e).__name__}
    return snap


def fname(i):
    return "f%d.txt" % i


def run_merge(np, su, case, root):
    d = tempfile.mkdtemp(prefix="m%d_" % case["id"], dir=root)
    for k, vals in case["files"].items():
        np.savetxt(os.path.join(d, fname(int(k))), np.array(vals, dtype=float))
    before = snapshot(np, d)
    src = [os.path.join(d, fname(i)) for i in case["sources"]]
    tgt = [os.path.join(d, fname(i)) for i in case["targets"]]
    try:
        with contextlib.redirect_stdout(io.StringIO()):
            su.post_process_split(src, tgt, case["split"])
        outcome = "ok"
    except Exception as e:  # noqa
        outcome = type(e).__name__
    after = snapshot(np, d)
    shutil.rmtree(d, ignore_errors=True)
    return {"id": case["id"], "outcome": outcome, "before": before, "after": after}


def run_runner(su, case, root):
    import multiprocessing
    from c19_sim import simulation
    d = tempfile.mkdtemp(prefix="r%d_" % case["id"], dir=root)
    args = [(d, lab, "raise" if lab in case["fail"] else "ok") for lab in case["labels"]]
    real_cpu = multiprocessing.cpu_count
    devnull = open(os.devnull, "w")
    try:
        with contextlib.redirect_stdout(devnull):
            if case["runner"] == "pool":
                multiprocessing.cpu_count = lambda: case["cpu"]
                if case["max_workers"] is None:
                    su.perform_parallel_simulation_with_multiprocessing(args, simulation)
                else:               # the argument the pool runner documents as unused: every job still runs exactly once
                    su.perform_parallel_simulation_with_multiprocessing(args, simulation, max_workers=case["max_workers"])
            elif case["runner"] == "executor":
                su.perform_parallel_simulation(args, simulation, max_workers=case["max_workers"])
            else:
                su.mock_perform_parallel_simulation(args, simulation)
        outcome = "ok"
    except Exception as e:  # noqa
        outcome = type(e).__name__
    finally:
        multiprocessing.cpu_count = real_cpu
        devnull.close()
    log = sorted(int(n.split(".")[0]) for n in os.listdir(d))
    shutil.rmtree(d, ignore_errors=True)
    return {"id": case["id"], "outcome": outcome, "log": log}


def main():
    import numpy as np
    from quantum_gates._utility import simulations_utility as su
    doc = json.load(open(sys.argv[1]))
    root = tempfile.mkdtemp(prefix="c19_")
    out = {"merge": [], "runner": [], "source": su.__file__}
    try:
        for c in doc.get("merge", []):
            out["merge"].append(run_merge(np, su, c, root))
        for c in doc.get("runner", []):
            sys.stdout.flush()
            out["runner"].append(run_runner(su, c, root))
    finally:
        shutil.rmtree(root, ignore_errors=True)
    with open(sys.argv[2], "w") as fh:
        json.dump(out, fh)


if __name__ == "__main__":
    main()
