"""C14 — a run returns a normalised distribution over all measured outcomes; inconsistent arguments raise ValueError.
Theorems: coq/Props/C14.v over Model/SimRun.v (validation sequence, normalisation, _measurament).
Tie (M): exact correspondence, model evaluated by vm_compute inside Coq:
  layout       _process_layout vs process_layout on random native circuits
  malformed    run() vs front_step on the malformed argument stream (exception class and refusing check)
  measurament  _measurament vs measurament on integer-valued probability vectors (exhaustive measured orders, n small)
  run_dyadic   run() end to end with injected integer amplitude vectors vs run_model over Q (dyadic arithmetic is exact)
Direct oracles on the implementation (independent of the model): keys complete / values >= 0 / sum 1 with strongly noisy
and deterministic non-unitary gate sets on all five circuit classes; classical circuits (key order); marginal
consistency between full and partial measurement; listed malformed arguments => ValueError before any shot."""
import math
import sys, os, json, itertools, math
import numpy as np
from fractions import Fraction
from vlib.common import Check
from checks import c14_common as H
from checks.c14_common import coq_list, coq_N, coq_Z, coq_bools, coq_Q

PRELUDE = r"""
From Coq Require Import List Bool NArith ZArith Arith QArith.
Require Import QG.Base.Res QG.Model.FixCounts QG.Model.Shots QG.Model.SimRun.
Import ListNotations.
Close Scope Q_scope.
""" + H.COQ_CODES + r"""
Fixpoint leqb {A} (eqb : A -> A -> bool) (a b : list A) : bool :=
  match a, b with [], [] => true | x :: a', y :: b' => eqb x y && leqb eqb a' b' | _, _ => false end.
Definition nn_eqb (a b : N * N) : bool := N.eqb (fst a) (fst b) && N.eqb (snd a) (snd b).
Definition kz_eqb (a b : list bool * Z) : bool := key_eqb (fst a) (fst b) && Z.eqb (snd a) (snd b).
Definition kq_eqb (a b : list bool * Q) : bool := key_eqb (fst a) (fst b) && Qeq_bool (snd a) (snd b).
Fixpoint bad {C} (chk : C -> bool) (i : nat) (cs : list C) : list nat :=
  match cs with [] => [] | c :: r => if chk c then bad chk (S i) r else i :: bad chk (S i) r end.

(* layout *)
Definition lay_check (c : list instr * (list N * list (N * N) * nat)) : bool :=
  match process_layout (fst c) with
  | Ok (u, m, n) => let '(eu, em, en) := snd c in leqb N.eqb u eu && leqb nn_eqb m em && Nat.eqb n en
  | Err _ => false
  end.

(* malformed: expected (error code or 0, step code or 0 = unknown) *)
Definition outcome (a : args) : nat * nat :=
  match front_step a with (Ok _, _) => (0, 0) | (Err e, s) => (err_code e, step_code s) end.
Definition mal_check (c : args * (nat * nat)) : bool :=
  let (ec, sc) := outcome (fst c) in
  Nat.eqb ec (fst (snd c)) && (Nat.eqb (snd (snd c)) 0 || Nat.eqb sc (snd (snd c))).

(* measurament over Z *)
Definition meas_check (c : list Z * list (N * N) * nat * list N * (list (list bool * Z) + nat)) : bool :=
  let '(prob, meas, n, used, e) := c in
  match measurament Z 0%Z Z.add prob meas n used, e with
  | Ok d, inl x => leqb kz_eqb d x
  | Err a, inr code => Nat.eqb (err_code a) code
  | _, _ => false
  end.

(* run end to end over Q: one table draw per shot *)
Definition shot_of (table : list (list Q)) : prog N (list Q) := Draw (fun i => Ret (nth (N.to_nat i) table [])).
Definition perform (table : list (list Q)) (stream : list N) (f : front_out) : res (list Q) :=
  x <- perform_seq Q (0#1)%Q Qplus Qdiv inject_Z N (fun _ _ => 0%N) (shot_of table) (f_shots f) (Z.to_N (2 ^ f_nqubit f))
         (mkgen N (fun p => nth (N.to_nat p) stream 0%N) 0%N) ;;
  Ok (fst (fst x)).
Definition qpos (x : Q) : bool := negb (Qle_bool x (0#1)%Q).
Definition run_q (a : args) (table : list (list Q)) (stream : list N) := run_model Q (0#1)%Q Qplus Qdiv qpos a (perform table stream).
Definition run_check (c : args * list (list Q) * list N * (list (list bool * Q) + nat)) : bool :=
  let '(a, table, stream, e) := c in
  match run_q a table stream, e with
  | Ok d, inl x => leqb kq_eqb d x
  | Err er, inr code => Nat.eqb (err_code er) code
  | _, _ => false
  end.
"""


_SIMS = {}


def get_sim(cls, gates, parallel=False):
    """one simulator object per (class, gate set, mode) for the whole process: validation, layout and marginalisation of a run
    depend on that run's arguments only, whatever circuits the object has processed before (all circuits share one name)"""
    from quantum_gates._simulation.simulator import MrAndersonSimulator
    key = (cls, id(gates), parallel)
    if key not in _SIMS:
        _SIMS[key] = (MrAndersonSimulator(gates=gates, CircuitClass=cls, parallel=parallel), gates)   # keep gates alive: id() stays unique
    return _SIMS[key][0]


def run_impl(sim, kw, npseed=None):
    if npseed is not None:
        np.random.seed(npseed)
    try:
        return ("ok", sim.run(**kw))
    except Exception as e:   # noqa
        return ("err", type(e).__name__, str(e)[:160], H.step_of_exception(e))


# ------------------------------------------------------------------------------------------------ oracles
def dist_oracle(res, m):
    if res[0] != "ok":
        return "raised %s: %s" % (res[1], res[2])
    d = res[1]
    keys = {"".join(b) for b in itertools.product("01", repeat=m)}
    if set(d) != keys:
        return "key set %s is not the set of all 2^%d strings" % (sorted(d), m)
    vals = [float(v) for v in d.values()]
    if any(not (v >= 0) for v in vals):
        return "negative or nan value %s" % (vals,)
    if not abs(math.fsum(vals) - 1) <= 4e-15 * max(8, len(vals)):      # "within rounding": a few ulps per term, not 1e-9
        return "values sum to %r (|sum - 1| = %.3e, rounding of the normalisation is ~1e-16 per term)" % (math.fsum(vals), abs(math.fsum(vals) - 1))
    return None


def oracle_spec(rng, fam, cls, gates, dp_kind, n, length, shots, psi="rand", two=True, classical=False, full=False):
    """a valid case: labels 0..n-1 for the layered classes, scattered labels and distant pairs for BinaryCircuit"""
    binary = cls == "BinaryCircuit"
    nphys = n + rng.choice([0, 1, 2, 3, 9, 30, 62]) if binary else n     # scattered labels beyond 8 and beyond 32 as well
    labels = sorted(rng.sample(range(nphys), n)) if binary else list(range(n))
    if classical:
        ins = [["rz", [q], [], [0.0]] for q in rng.sample(labels, n)]
        for _ in range(length):
            if n > 1 and rng.random() < 0.5:
                if binary:
                    a, b = rng.sample(range(n), 2)
                else:
                    a = rng.randrange(n - 1); b = a + 1
                    if rng.random() < 0.5:
                        a, b = b, a
                ins.append(["cx", [labels[a], labels[b]], [], []])
            else:
                ins.append(["x", [rng.choice(labels)], [], []])
    else:
        ins = H.rand_instrs(rng, labels, length, adjacent=not binary, two=two)
    if full:
        meas = list(labels)
        for k, q in enumerate(meas):
            ins.append(["measure", [q], [k], []])
    else:
        meas, _ = H.add_measures(rng, ins, labels)
    return {"fam": fam, "cls": cls, "gates": gates, "meas": meas, "labels": labels, "npseed": rng.randrange(2 ** 31),
            "circ": {"nphys": nphys, "nclbits": n, "instrs": ins}, "circ_kind": "qc", "layout": ["list", labels],
            "psi0": ["rand", 2 ** n, rng.randrange(2 ** 31)] if psi == "rand" else (["tiny", 2 ** n, rng.randrange(2 ** 31)] if psi == "tiny" else ["basis", 2 ** n]),
            "shots": ["int", shots], "params": ["ok", dp_kind, nphys, rng.randrange(2 ** 31)], "nqubit": ["int", n]}


def run_spec(spec):
    kw = H.build_run_args(spec)
    sim = get_sim(H.circuit_class(spec["cls"]), H.gate_set(spec["gates"]))
    return run_impl(sim, kw, spec.get("npseed"))


def classical_expected(spec):
    bits = {q: 0 for q in spec["labels"]}
    for name, qs, cs, ps in spec["circ"]["instrs"]:
        if name == "x":
            bits[qs[0]] ^= 1
        elif name == "cx":
            bits[qs[1]] ^= bits[qs[0]]
    return "".join(str(bits[q]) for q in spec["meas"])


def partial_of(spec, rng):
    """same circuit body, a partial measurement in random order"""
    s2 = json.loads(json.dumps(spec))
    ins = [i for i in s2["circ"]["instrs"] if i[0] != "measure"]
    meas, _ = H.add_measures(rng, ins, spec["labels"])
    s2["circ"]["instrs"] = ins
    s2["meas"] = meas
    return s2


def eval_oracle(spec, rng=None):
    """returns (why or None, aux) for an oracle family case; deterministic given the spec"""
    fam = spec["fam"]
    res = run_spec(spec)
    why = dist_oracle(res, len(spec["meas"]))
    if why:
        return why
    if fam == "classical":
        want = classical_expected(spec)
        if not abs(res[1].get(want, 0) - 1) <= 1e-9:
            return "noise-free classical circuit: expected outcome %s (k-th character = k-th measured qubit) but got %s" % (want, {k: round(float(v), 6) for k, v in res[1].items()})
    if fam == "fixed":   # deterministic gate set: the shot count cannot matter
        s1 = dict(spec, shots=["int", 1])
        r1 = run_spec(s1)
        if r1[0] != "ok" or any(abs(r1[1][k] - res[1][k]) > 1e-9 for k in r1[1]):
            return "deterministic gate set: %s shots differ from one shot" % spec["shots"][1]
    if fam == "marginal":
        part = spec["partial"]
        rp = run_spec(part)
        why = dist_oracle(rp, len(part["meas"]))
        if why:
            return "partial measurement: " + why
        pos = [spec["meas"].index(q) for q in part["meas"]]
        agg = {}
        for k, v in res[1].items():
            kk = "".join(k[i] for i in pos)
            agg[kk] = agg.get(kk, 0.0) + float(v)
        if any(abs(agg[k] - float(rp[1][k])) > 1e-9 for k in agg):
            return "partial result is not the marginal of the full result under the same seed (measured %s of %s)" % (part["meas"], spec["meas"])
    return None


# ------------------------------------------------------------------------------------------------ malformed stream
def malformed_specs(ck):
    rng = ck.rng
    bases = []
    for labels, nphys, body, meas in (([0, 1], 2, [["rz", [0], [], [0.3]], ["rz", [1], [], [0.1]], ["sx", [0], [], []], ["cx", [0, 1], [], []]], [(0, 0), (1, 1)]),
                                      ([0, 1, 3], 4, [["sx", [3], [], []], ["x", [0], [], []], ["rz", [1], [], [1.0]], ["ecr", [3, 0], [], []]], [(3, 1)]),
                                      ([2], 3, [["sx", [2], [], []]], [(2, 0)])):
        ins = list(body) + [["measure", [q], [c], []] for q, c in meas]
        bases.append({"labels": labels, "nphys": nphys, "circ": {"nphys": nphys, "nclbits": 2, "instrs": ins}, "measured": True})
        bases.append({"labels": labels, "nphys": nphys, "circ": {"nphys": nphys, "nclbits": 2, "instrs": list(body)}, "measured": False})
    # dimension -> list of (option name, fault class)   fault: None fine | 'listed' | 'exotic'
    dims = {
        "circ_kind": [("qc", None), ("duck", "exotic"), ("none", "exotic"), ("str", "exotic")],
        "shots": [("1", None), ("2", None), ("True", None), ("0", "listed"), ("-1", "listed"), ("False", "listed"), ("1.5", "listed"),
                  ("'3'", "listed"), ("np.int64(3)", "listed"), ("None", "listed"), ("2.0", "listed")],
        "psi0": [("right", None), ("short", "listed"), ("long", "listed"), ("2d", "listed"), ("list", "exotic")],
        "params": [("ok", None), ("short", "listed"), ("none", "listed"), ("list", "listed"), ("empty", "exotic"), ("t1float", "exotic")],
        "nqubit": [("n", None), ("n+1", "listed"), ("n+3", "listed"), ("n-1", "exotic"), ("0", "exotic"), ("-1", "exotic"), ("-1074", "exotic"),
                   ("-1075", "exotic"), ("float", "exotic"), ("np.int64", "exotic"), ("True", "exotic")],
        "layout": [("list", None), ("tuple", None), ("none", None), ("short", None)],
    }
    names = list(dims)
    combos = [dict()]
    for a in names:                                     # all single deviations
        for o, f in dims[a][1:]:
            combos.append({a: o})
    for a, b in itertools.combinations(names, 2):       # all pairs of deviations
        for (o1, _), (o2, _) in itertools.product(dims[a][1:], dims[b][1:]):
            combos.append({a: o1, b: o2})
    for _ in range(150 if ck.tier == "quick" else 1500):  # random higher-order combinations
        c = {}
        for a in rng.sample(names, rng.randint(3, len(names))):
            c[a] = rng.choice(dims[a][1:])[0]
        combos.append(c)
    specs = []
    for bi, base in enumerate(bases):
        for c in (combos if bi < 2 else combos[::7]):
            n = len(base["labels"])
            opt = {a: c.get(a, dims[a][0][0]) for a in names}
            faults = [dict(dims[a])[opt[a]] for a in names] + ([] if base["measured"] else ["listed"])
            nq = {"n": ["int", n], "n+1": ["int", n + 1], "n+3": ["int", n + 3], "n-1": ["int", n - 1], "0": ["int", 0], "-1": ["int", -1],
                  "-1074": ["int", -1074], "-1075": ["int", -1075], "float": ["float", float(n)], "np.int64": ["npint64", n],
                  "True": ["bool", True]}[opt["nqubit"]]
            eff = int(nq[1]) if nq[0] in ("int", "bool", "npint64", "float") and 0 <= int(nq[1]) <= 7 else n
            plen = 2 ** eff
            if opt["nqubit"] == "-1075":
                plen = 0
            psi = {"right": ["basis", plen], "short": ["basis", max(plen // 2, 0) if plen != 1 else 3], "long": ["basis", plen * 2 if plen else 1],
                   "2d": ["shape", [plen, 1]], "list": ["list", max(plen, 1)]}[opt["psi0"]]
            par = {"ok": ["ok", "mild", max(base["nphys"], eff), 1], "short": ["ok", "mild", max(eff - 1, 0), 1], "none": ["none"], "list": ["list"],
                   "empty": ["empty"], "t1float": ["t1float"]}[opt["params"]]
            if opt["params"] == "short" and max(eff - 1, 0) >= eff:
                continue
            sh = {"1": ["int", 1], "2": ["int", 2], "True": ["bool", True], "0": ["int", 0], "-1": ["int", -1], "False": ["bool", False],
                  "1.5": ["float", 1.5], "'3'": ["str", "3"], "np.int64(3)": ["npint64", 3], "None": ["none"], "2.0": ["float", 2.0]}[opt["shots"]]
            lay = {"list": ["list", base["labels"]], "tuple": ["tuple", base["labels"]], "none": ["none"], "short": ["list", base["labels"][:-1]]}[opt["layout"]]
            fs = [f for f in faults if f]
            specs.append({"fam": "malformed", "circ": base["circ"], "circ_kind": opt["circ_kind"], "layout": lay, "psi0": psi, "shots": sh,
                          "params": par, "nqubit": nq, "options": opt, "m": sum(1 for i in base["circ"]["instrs"] if i[0] == "measure"),
                          "class": "valid" if not fs else ("listed" if all(f == "listed" for f in fs) else "exotic")})
    return specs


def eval_malformed(spec, Counting, gates):
    kw = H.build_run_args(spec)
    Counting.COUNT = 0
    res = run_impl(get_sim(Counting, gates), kw, 7)
    return kw, res, Counting.COUNT


def malformed_oracle(spec, res, count):
    """the property's own reading, independent of the model"""
    if spec["class"] == "valid":
        return dist_oracle(res, spec["m"])
    if spec["class"] == "listed":
        if res[0] == "ok":
            return "inconsistent arguments %s accepted: returned %s" % (spec["options"], res[1])
        if res[1] != "ValueError":
            return "inconsistent arguments %s raised %s instead of ValueError: %s" % (spec["options"], res[1], res[2])
        if count:
            return "inconsistent arguments %s: ValueError only after %d circuit objects had been built" % (spec["options"], count)
    return None


# ------------------------------------------------------------------------------------------------ main
def main(argv):
    ck = Check("C14", argv)
    ck.rule = ("layout: random native instruction lists (scattered labels, barriers of 1-3 qubits, delays, repeated measures); "
               "malformed: base circuit x every single and every pair of deviating arguments + random higher-order combinations, "
               "distinct = distinct (base, option tuple), non-trivial = at least one deviation; measurament: every ordered "
               "selection of distinct measured qubits for n<=4 (quick) / 5 (thorough) on random integer vectors + repeated / "
               "truncated out-of-domain cases; run_dyadic: injected Gaussian-integer amplitude vectors with power-of-two norm, "
               "shots in {1,2,4,8} or a one-entry table with any shot count; oracle families: random native circuits n<=4, "
               "every circuit class, measured subsets in random order")
    ck.trusted = ["Coq 8.16.1 kernel + vm_compute", "checks/c14.py, checks/c14_common.py (harness, abstraction function describe_args)",
                  "models coq/Model/SimRun.v and Model/Shots.v are hand-written: tied to simulator.py only by correspondence",
                  "Python/numpy semantics as modelled: isinstance, tuple comparison of shapes, 2**n for negative n, list.index, "
                  "str.format, dict insertion order, zip truncation, in-place broadcasting",
                  "floating point: the theorems are over the reals; the oracle allows 1e-9"]
    ck.assume = ["per-shot Born vectors are non-negative (squares of moduli) and their total is positive; NaN from unphysical device "
                 "parameters trips the assertion (AssertionError), which is reported in evidence, not as a violation",
                 "nqubit smaller than the number of used qubits is outside the property's list"]
    from quantum_gates._simulation.circuit import BinaryCircuit
    from quantum_gates._gates.gates import noise_free_gates
    Counting = H.counting_class(BinaryCircuit)

    if ck.replay:
        doc = json.load(open(ck.replay))["replay"]
        spec = doc.get("spec", doc)
        fam = spec.get("fam")
        if fam == "malformed":
            kw, res, cnt = eval_malformed(spec, Counting, noise_free_gates)
            print("replay malformed:", spec["options"], "->", res[:3], "circuit objects built:", cnt, "oracle:", malformed_oracle(spec, res, cnt))
        elif fam in ("noisy", "fixed", "classical", "marginal"):
            print("replay %s: oracle says:" % fam, eval_oracle(spec))
        elif fam == "measurament":
            sim = get_sim(BinaryCircuit, noise_free_gates)
            print("replay measurament:", meas_impl(sim, spec), "oracle:", meas_oracle(spec, meas_impl(sim, spec)))
        elif fam == "run_dyadic":
            print("replay run_dyadic:", dyadic_impl(spec))
        else:
            print("replay: nothing executable stored (theorem / correspondence record):", json.dumps(doc)[:600])
        import shutil
        shutil.rmtree(ck.scratch, ignore_errors=True)
        return 0

    bad = ck.hygiene()
    if bad:
        ck.report("hygiene", "forbidden construct in the Coq development: " + "; ".join(bad[:5]), {"theorem": "hygiene", "where": bad}, False)
    proofs_ok, failing, out = ck.coq_props()

    oracle_fail = []       # (key, what, replay)
    shards = []            # (name, body, family, case indices)
    mism = []

    # ---------------- layout
    sim = get_sim(BinaryCircuit, noise_free_gates)
    lay_cases = []
    for _ in range(300 if ck.tier == "quick" else 2000):
        nphys = ck.rng.choice([ck.rng.randint(1, 7), ck.rng.randint(8, 20), ck.rng.randint(33, 70)])   # labels >= 8 / >= 32 too: physical labels are arbitrary
        labels = sorted(ck.rng.sample(range(nphys), ck.rng.randint(1, min(nphys, 5))))
        ins = H.rand_instrs(ck.rng, labels, ck.rng.randint(0, 12), adjacent=False)
        ins = ins[ck.rng.randint(0, len(labels)):]       # drop part of the touch-everything prelude
        ck.rng.shuffle(ins)
        if ck.rng.random() < 0.8:
            H.add_measures(ck.rng, ins, labels, repeat=ck.rng.random() < 0.2)
            if ck.rng.random() < 0.5:
                ck.rng.shuffle(ins)
        cs = {"nphys": nphys, "nclbits": 6, "instrs": ins}
        qc = H.build_circuit(cs)
        used, meas, n = sim._process_layout(qc)
        lay_cases.append((cs, "(%s, (%s, %s, %d%%nat))" % (H.describe_instrs(qc.data), coq_list([coq_N(q) for q in used]),
                                                             coq_list(["(%s,%s)" % (coq_N(q), coq_N(c)) for q, c in meas]), n)))
        ck.count("layout", 1, key=json.dumps(ins), sample={"instrs": ins[:6], "used": used, "measured": meas})
    shards.append(("c14_layout", PRELUDE + "Definition cases := " + coq_list([c for _, c in lay_cases]) + ".\nDefinition result := bad lay_check 0 cases.\nEval vm_compute in result.\n",
                   "layout", lay_cases))

    # ---------------- malformed
    mspecs = malformed_specs(ck)
    mal_items, mal_res = [], []
    for spec in mspecs:
        kw, res, cnt = eval_malformed(spec, Counting, noise_free_gates)
        mal_res.append((res, cnt))
        ck.count("malformed", 1, key=(json.dumps(spec["circ"]), json.dumps(spec["options"], sort_keys=True)) if spec["class"] != "valid" else None,
                 sample={"options": spec["options"], "class": spec["class"], "result": res[1] if res[0] == "err" else "ok", "step": res[3] if res[0] == "err" else None})
        why = malformed_oracle(spec, res, cnt)
        if why:
            oracle_fail.append(("oracle:malformed", why, {"spec": spec}))
        if res[0] == "ok" or cnt > 0:
            exp = (0, 0)            # validation (and the pre-processing) let the arguments through
        else:
            exp = (H.ERR_CODE.get(res[1], 9), H.STEP_CODE.get(res[3], 0))
        mal_items.append("(%s, (%d%%nat, %d%%nat))" % (H.describe_args(kw), exp[0], exp[1]))
    per = 400
    for s in range(0, len(mal_items), per):
        shards.append(("c14_mal_%d" % (s // per), PRELUDE + "Definition cases := " + coq_list(mal_items[s:s + per]) +
                       ".\nDefinition result := bad mal_check 0 cases.\nEval vm_compute in result.\n", "malformed", list(range(s, min(s + per, len(mal_items))))))
    ck.extra["malformed_classes"] = {c: sum(1 for s in mspecs if s["class"] == c) for c in ("valid", "listed", "exotic")}
    small = [(s["options"], r[0][1:3]) for s, r in zip(mspecs, mal_res) if s["options"]["nqubit"] in ("n-1", "0") and s["class"] == "exotic" and r[0][0] == "err"][:3]
    ck.notes.append("nqubit smaller than the circuit uses is outside the property's list; observed today: %s." % (small,))

    # ---------------- measurament
    mcases = gen_measurament(ck)
    items = []
    for spec in mcases:
        r = meas_impl(sim, spec)
        if spec["domain"]:
            why = meas_oracle(spec, r)
            if why:
                oracle_fail.append(("oracle:measurament", why, {"spec": spec}))
        ck.count("measurament", 1, key=(spec["n"], tuple(spec["used"]), tuple(map(tuple, spec["meas"]))), sample={k: spec[k] for k in ("n", "used", "meas")} | {"result": r[1] if r[0] == "err" else r[1][:4]})
        exp = "inl " + coq_list(["(%s, %s)" % (coq_bools(k), coq_Z(v)) for k, v in r[1]]) if r[0] == "ok" else "inr %d%%nat" % H.ERR_CODE.get(r[1], 9)
        items.append("(%s, %s, %d%%nat, %s, %s)" % (coq_list([coq_Z(v) for v in spec["prob"]]), coq_list(["(%s,%s)" % (coq_N(q), coq_N(c)) for q, c in spec["meas"]]),
                                                     spec["nq"], coq_list([coq_N(q) for q in spec["used"]]), exp))
    for s in range(0, len(items), per):
        shards.append(("c14_meas_%d" % (s // per), PRELUDE + "Definition cases : list (list Z * list (N * N) * nat * list N * (list (list bool * Z) + nat)) := " +
                       coq_list(items[s:s + per]) + ".\nDefinition result := bad meas_check 0 cases.\nEval vm_compute in result.\n", "measurament", list(range(s, min(s + per, len(items))))))

    # ---------------- run_dyadic
    dcases = gen_dyadic(ck)
    items = []
    for spec in dcases:
        r = dyadic_impl(spec)
        if r["log"] != r["ref"] and r["res"][0] == "ok":
            oracle_fail.append(("oracle:run_dyadic", "shot k did not use the k-th draw of the seeded stream: %s vs %s" % (r["log"], r["ref"]), {"spec": spec}))
        why = dist_oracle(r["res"], len(spec["meas"])) or dyadic_oracle(spec, r)
        if why:
            oracle_fail.append(("oracle:run_dyadic", why, {"spec": spec}))
        ck.count("run_dyadic", 1, key=json.dumps([spec["circ"], spec["table"], spec["shots"]]), sample={"shots": spec["shots"], "meas": spec["meas"], "table0": spec["table"][0], "result": str(r["res"][1])[:120]})
        if r["res"][0] == "ok":
            exp = "inl " + coq_list(["(%s, %s)" % (coq_bools(k), coq_Q(Fraction(float(v)))) for k, v in r["res"][1].items()])
        else:
            exp = "inr %d%%nat" % H.ERR_CODE.get(r["res"][1], 9)
        born = coq_list([coq_list(["(%d # 1)%%Q" % (a * a + b * b) for a, b in v]) for v in spec["table"]])
        items.append("(%s, %s, %s, %s)" % (r["args"], born, coq_list([coq_N(i) for i in r["ref"]]), exp))
    for s in range(0, len(items), 100):
        shards.append(("c14_run_%d" % (s // 100), PRELUDE + "Definition cases : list (args * list (list Q) * list N * (list (list bool * Q) + nat)) := " +
                       coq_list(items[s:s + 100]) + ".\nDefinition result := bad run_check 0 cases.\nEval vm_compute in result.\n", "run_dyadic", list(range(s, min(s + 100, len(items))))))

    # ---------------- direct oracles on real and injected gate sets
    ospecs = gen_oracle_specs(ck)
    nan_seen = 0
    for spec in ospecs:
        why = eval_oracle(spec)
        ck.count("oracle_" + spec["fam"], 1, key=json.dumps(spec, sort_keys=True), sample={"cls": spec["cls"], "gates": spec["gates"], "meas": spec["meas"], "n": len(spec["labels"]), "shots": spec["shots"][1]})
        if why and "AssertionError" in why and "nan" in why:
            nan_seen += 1
            continue
        if why:
            oracle_fail.append(("oracle:" + spec["fam"], "%s / %s: %s" % (spec["cls"], spec["gates"], why), {"spec": spec}))
    if nan_seen:
        ck.notes.append("%d oracle cases produced NaN probabilities (AssertionError): unphysical parameter draw, not counted." % nan_seen)

    ck.extra["outside_domain_observations"] = outside_probes()

    # ---------------- evaluate the model inside Coq
    results = ck.coq_eval_many([(n, b) for n, b, _, _ in shards])
    fam_cases = {"layout": lay_cases, "malformed": mspecs, "measurament": mcases, "run_dyadic": dcases}
    for (name, rc, out2), (_, _, fam, idxs) in zip(results, shards):
        badl = H.parse_bad(out2) if rc == 0 else None
        if badl is None:
            mism.append((fam, "coq-failed", out2[-600:]))
            continue
        for i in badl:
            gi = idxs[i] if fam != "layout" else i
            case = fam_cases[fam][gi]
            if fam == "malformed" and case["class"] == "exotic":
                ck.notes.append("model and implementation differ on the out-of-domain arguments %s (impl: %s) - informational." % (case["options"], mal_res[gi][0][1:4]))
            elif fam == "measurament" and not case["domain"]:
                ck.notes.append("model and implementation differ on an out-of-domain _measurament call %s - informational." % ({k: case[k] for k in ("n", "used", "meas")},))
            else:
                mism.append((fam, gi, case if fam != "layout" else case[0]))
    ck.oblige("correspondence model=implementation on layout/malformed/measurament/run_dyadic (%d cases)" % (len(lay_cases) + len(mspecs) + len(mcases) + len(dcases)), not mism)
    ck.oblige("direct oracles on the implementation (%d evaluations)" % (len(ospecs) + len(mspecs) + len(mcases) + len(dcases)), not oracle_fail)
    ck.exhaustive = False
    ck.extra["exhaustive_part"] = "_measurament: every ordered selection of distinct measured qubits for n<=%d; malformed: every single and pair of deviations" % (4 if ck.tier == "quick" else 5)

    # ---------------- report
    seen = set()
    for key, what, replay in oracle_fail:
        if key in seen:
            continue
        seen.add(key)
        ck.report(key, what, replay, True)
    if not proofs_ok and not oracle_fail:
        ck.report("proof:" + str(failing), "proof obligation no longer checks: %s" % failing, {"theorem": failing, "log": out[-1500:]}, False)
    if mism and not oracle_fail:
        fam, where, info = mism[0]
        if where == "coq-failed":
            ck.report("corr-build", "correspondence file for family %s failed to compile: %s" % (fam, info), {"correspondence": fam, "log": info}, False)
        else:
            extra = ""
            if fam == "malformed":
                extra = " implementation: %s, circuit objects built %d" % (mal_res[where][0][1:4], mal_res[where][1])
            ck.report("corr:" + fam, "model and implementation disagree in family %s on %s;%s the property's own oracle passes on every explored input"
                      % (fam, json.dumps(info.get("options", info) if isinstance(info, dict) else info)[:300], extra),
                      {"correspondence": "C14 " + fam, "spec": info, "mismatches": len(mism)}, False)
    return ck.finish()


def outside_probes():
    """inputs outside the property's list whose behaviour is worth recording (never a violation)"""
    out = {}
    base = {"circ_kind": "qc", "layout": ["list", [0]], "shots": ["int", 1], "cls": "BinaryCircuit", "gates": "noisefree"}
    s1 = dict(base, circ={"nphys": 2, "nclbits": 1, "instrs": [["x", [0], [], []], ["barrier", [1], [], []], ["measure", [0], [0], []]]},
              psi0=["basis", 2], params=["ok", "mild", 2, 0], nqubit=["int", 1])
    r = run_spec(s1)
    out["x(0); barrier(1); measure(0) with nqubit=1 (qubit 1 counts as used because of the barrier)"] = \
        {k: float(v) for k, v in r[1].items()} if r[0] == "ok" else list(r[1:3])
    s2 = dict(base, circ={"nphys": 4, "nclbits": 2, "instrs": [["x", [0], [], []], ["sx", [3], [], []], ["measure", [0], [0], []], ["measure", [3], [1], []]]},
              psi0=["basis", 4], params=["ok", "mild", 2, 0], nqubit=["int", 2])
    r = run_spec(s2)
    out["BinaryCircuit on labels {0,3}, nqubit=2, device tables of length 2"] = "ok" if r[0] == "ok" else list(r[1:3])
    return out


# ------------------------------------------------------------------------------------------------ measurament family
def gen_measurament(ck):
    rng = ck.rng
    cases = []
    nmax = 4 if ck.tier == "quick" else 5
    for n in range(1, nmax + 1):
        for m in range(1, n + 1):
            for sel in itertools.permutations(range(n), m):
                nphys = n + rng.randint(0, 3)
                used = sorted(rng.sample(range(nphys), n))
                cl = list(range(m)); rng.shuffle(cl)
                cases.append({"fam": "measurament", "n": n, "used": used, "meas": [[used[i], c] for i, c in zip(sel, cl)],
                              "prob": [rng.choice([0, 1, 2, 5, 100, 2 ** 30]) + rng.randint(0, 9) for _ in range(2 ** n)], "nq": n, "domain": True})
    for _ in range(60 if ck.tier == "quick" else 400):   # out of domain: repeated measured qubit, prob of another length, n_qubit too small, unknown qubit
        n = rng.randint(1, 4)
        used = sorted(rng.sample(range(n + 2), n))
        kind = rng.choice(["repeat", "short", "long", "nsmall", "unknown"])
        meas = [[q, i] for i, q in enumerate(rng.sample(used, rng.randint(1, n)))]
        prob_len, nq = 2 ** n, n
        if kind == "repeat":
            meas.append([meas[0][0], 7])
        elif kind == "short":
            prob_len = max(1, 2 ** n - rng.randint(1, 2 ** n - 1)) if n > 0 else 1
        elif kind == "long":
            prob_len = 2 ** n + rng.randint(1, 3)
        elif kind == "nsmall":
            nq = rng.randint(0, n - 1)
            prob_len = 2 ** nq
        else:
            meas.append([max(used) + 1, 5])
        cases.append({"fam": "measurament", "n": n, "used": used, "meas": meas, "prob": [rng.randint(0, 50) for _ in range(prob_len)], "nq": nq, "domain": False})
    return cases


def meas_impl(sim, spec):
    try:
        d = sim._measurament(prob=np.array(spec["prob"], dtype=float), q_meas_list=[tuple(x) for x in spec["meas"]], n_qubit=spec["nq"], qubits_layout=list(spec["used"]))
        out = []
        for k, v in d.items():
            if float(v) != int(v):
                return ("err", "NonInteger")
            out.append((k, int(v)))
        return ("ok", out)
    except Exception as e:  # noqa
        return ("err", type(e).__name__)


def meas_oracle(spec, r):
    """marginal_correct stated directly: value under s = sum of prob[i] over the i whose measured bits spell s; all 2^m keys"""
    if r[0] != "ok":
        return "_measurament raised %s on %s" % (r[1], {k: spec[k] for k in ("n", "used", "meas")})
    n, m = spec["n"], len(spec["meas"])
    want = {}
    for i, v in enumerate(spec["prob"]):
        key = "".join(str(i >> (n - 1 - spec["used"].index(q)) & 1) for q, _ in spec["meas"])
        want[key] = want.get(key, 0) + v
    got = dict(r[1])
    if set(got) != {"".join(b) for b in itertools.product("01", repeat=m)}:
        return "keys %s are not all 2^%d strings (%s)" % (sorted(got), m, {k: spec[k] for k in ("n", "used", "meas")})
    if got != want:
        return "marginal wrong for used=%s measured=%s: got %s, expected %s" % (spec["used"], spec["meas"], got, want)
    return None


# ------------------------------------------------------------------------------------------------ run_dyadic family
def gen_dyadic(ck):
    rng = ck.rng
    cases = []
    for _ in range(120 if ck.tier == "quick" else 600):
        n = rng.randint(1, 4)
        nphys = n + rng.randint(0, 2)
        labels = sorted(rng.sample(range(nphys), n))
        ins = H.rand_instrs(rng, labels, rng.randint(0, 6), adjacent=False)
        meas, _ = H.add_measures(rng, ins, labels)
        if rng.random() < 0.3:
            shots, size = rng.choice([3, 5, 6, 7]), 1
        else:
            shots, size = rng.choice([1, 2, 4, 8]), rng.randint(1, 4)
        cases.append({"fam": "run_dyadic", "circ": {"nphys": nphys, "nclbits": n, "instrs": ins}, "circ_kind": "qc", "layout": ["list", labels],
                      "psi0": ["basis", 2 ** n], "shots": ["int", shots], "params": ["ok", "mild", nphys, 0], "nqubit": ["int", n],
                      "meas": meas, "labels": labels, "table": H.dyadic_table(rng, 2 ** n, size), "npseed": rng.randrange(2 ** 31)})
    return cases


def dyadic_impl(spec):
    kw = H.build_run_args(spec)
    H.VecCircuit.TABLE = [[complex(a, b) for a, b in v] for v in spec["table"]]
    H.VecCircuit.LOG = []
    ref = [int(x) for x in np.random.RandomState(spec["npseed"]).randint(len(spec["table"]), size=spec["shots"][1])]
    res = run_impl(get_sim(H.VecCircuit, None), kw, spec["npseed"])
    return {"res": res, "log": list(H.VecCircuit.LOG), "ref": ref, "args": H.describe_args(kw)}


def dyadic_oracle(spec, r):
    """exact statement: result = marginal of (mean of the drawn Born vectors) / total, in rational arithmetic"""
    n, S = len(spec["labels"]), spec["shots"][1]
    born = [[a * a + b * b for a, b in v] for v in spec["table"]]
    mean = [Fraction(sum(born[i][j] for i in r["ref"]), S) for j in range(2 ** n)]
    tot = sum(mean)
    want = {}
    for j, v in enumerate(mean):
        key = "".join(str(j >> (n - 1 - spec["labels"].index(q)) & 1) for q in spec["meas"])
        want[key] = want.get(key, 0) + v / tot
    got = {k: Fraction(float(v)) for k, v in r["res"][1].items()}
    if got != want:
        return "run() with injected integer amplitudes: got %s, exact value %s" % ({k: str(v) for k, v in got.items()}, {k: str(v) for k, v in want.items()})
    return None


# ------------------------------------------------------------------------------------------------ oracle families
def gen_oracle_specs(ck):
    rng = ck.rng
    q = ck.tier == "quick"
    specs = []
    for cls in H.CLASS_NAMES:
        for _ in range(14 if q else 80):     # strongly noisy, real gate set
            n = rng.randint(1, 4)
            specs.append(oracle_spec(rng, "noisy", cls, "standard", "strong", n, rng.randint(0, 8), rng.randint(1, 3)))
        for _ in range(4 if q else 25):
            n = rng.randint(1, 3)
            specs.append(oracle_spec(rng, "noisy", cls, "scaled2", "mid", n, rng.randint(0, 6), rng.randint(1, 2)))
        for wk in (("weak1e-8", "weak1e-6", "almost") if q else ("weak1e-8", "weak1e-6", "weak1e-10", "weak1e-12", "weak1e-4", "almost", "weak1e-7")):
            n = rng.randint(1, 3)            # barely noisy gate sets: the total before normalisation is close to, but not, one
            specs.append(oracle_spec(rng, "noisy", cls, wk, "strong", n, rng.randint(2, 8), rng.randint(1, 3)))
        for _ in range(3 if q else 12):      # outcome probabilities of 1e-12 .. 1e-16 next to one of order 1 (noise-free and barely noisy gate sets)
            n = rng.randint(1, 3)
            specs.append(oracle_spec(rng, "noisy", cls, rng.choice(["noisefree", "weak1e-8", "standard"]), "mild", n, rng.randint(0, 3), rng.randint(1, 2), psi="tiny"))
        for _ in range(0 if q else 3):       # Gaussian pulse: slow (numerical integrals)
            specs.append(oracle_spec(rng, "noisy", cls, "gauss", "strong", rng.randint(1, 3), rng.randint(0, 4), 1))
        for _ in range(10 if q else 60):     # deterministic, strongly non-unitary gate set
            n = rng.randint(1, 4)
            specs.append(oracle_spec(rng, "fixed", cls, "fixed%d" % rng.randint(0, 99), "mild", n, rng.randint(0, 8), rng.choice([2, 3, 5])))
        for _ in range(12 if q else 60):     # classical reversible circuits: key order
            n = rng.randint(1, 4)
            specs.append(oracle_spec(rng, "classical", cls, "noisefree", "mild", n, rng.randint(1, 8), 1, psi="basis", classical=True))
        for _ in range(6 if q else 40):      # full vs partial measurement under one seed
            n = rng.randint(2, 4)
            s = oracle_spec(rng, "marginal", cls, "standard", "strong", n, rng.randint(0, 6), rng.randint(1, 2), full=True)
            s["partial"] = partial_of(s, rng)
            specs.append(s)
    return specs


if __name__ == "__main__":
    sys.exit(main(sys.argv[1:]))
