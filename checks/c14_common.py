"""Shared harness pieces for the C14 and C09 checks: JSON-able case specs -> real arguments of MrAndersonSimulator.run,
injected circuit classes / gate sets, the abstraction of real arguments to the model's `args` record, Coq printers."""
import numpy as np, random, math
from fractions import Fraction

CLASS_NAMES = ["Circuit", "StandardCircuit", "EfficientCircuit", "OneCircuit", "BinaryCircuit"]
LAYERED = CLASS_NAMES[:4]        # internal index = physical label, neighbours only
OPS = {"delay": "OpDelay", "measure": "OpMeasure", "barrier": "OpBarrier", "rz": "OpRz", "sx": "OpSx", "x": "OpX",
       "cx": "OpCx", "ecr": "OpEcr"}


def circuit_class(name):
    import quantum_gates._simulation.circuit as c
    return getattr(c, name)


# ------------------------------------------------------------------------------------------------ circuits
def build_circuit(spec):
    """spec: {"nphys":, "nclbits":, "instrs": [[name, qubits, clbits, params], ...]} -> QuantumCircuit (native gates only)"""
    from qiskit import QuantumCircuit
    qc = QuantumCircuit(spec["nphys"], max(1, spec["nclbits"]), name="circ")   # same name for every circuit: a name is not an identity
    for name, qs, cs, ps in spec["instrs"]:
        if name == "rz":
            qc.rz(ps[0], qs[0])
        elif name == "sx":
            qc.sx(qs[0])
        elif name == "x":
            qc.x(qs[0])
        elif name == "cx":
            qc.cx(qs[0], qs[1])
        elif name == "ecr":
            qc.ecr(qs[0], qs[1])
        elif name == "delay":
            qc.delay(int(ps[0]), qs[0])
        elif name == "barrier":
            qc.barrier(*qs)
        elif name == "measure":
            qc.measure(qs[0], cs[0])
        else:
            raise ValueError(name)
    return qc


def rand_instrs(rng, labels, length, adjacent, two=True, barriers=True):
    """random native body touching every label first (so that the derived layout is exactly `labels`)"""
    n = len(labels)
    ins = []
    first = list(labels)
    rng.shuffle(first)
    for q in first:
        ins.append(["rz", [q], [], [round(rng.uniform(-3, 3), 3)]])
    for _ in range(length):
        r = rng.random()
        if r < 0.2:
            ins.append(["rz", [rng.choice(labels)], [], [round(rng.uniform(-3, 3), 3)]])
        elif r < 0.45:
            ins.append(["sx", [rng.choice(labels)], [], []])
        elif r < 0.55:
            ins.append(["x", [rng.choice(labels)], [], []])
        elif r < 0.62:
            ins.append(["delay", [rng.choice(labels)], [], [rng.randint(1, 400)]])
        elif r < 0.68 and barriers:
            k = rng.randint(1, n)
            ins.append(["barrier", rng.sample(labels, k), [], []])
        elif n > 1 and two:
            if adjacent:
                a = rng.randrange(n - 1)
                b = a + 1
            else:
                a, b = rng.sample(range(n), 2)
            if rng.random() < 0.5:
                a, b = b, a
            ins.append([rng.choice(["cx", "ecr"]), [labels[a], labels[b]], [], []])
    return ins


def add_measures(rng, ins, labels, m=None, ordered=False, repeat=False):
    n = len(labels)
    m = m if m is not None else rng.randint(1, n)
    qs = rng.sample(labels, m)
    if ordered:
        qs.sort()
    if repeat and m >= 1:
        qs.append(qs[0])
    cl = list(range(len(qs)))
    rng.shuffle(cl)
    for q, c in zip(qs, cl):
        ins.append(["measure", [q], [c], []])
    return qs, len(qs)


# ------------------------------------------------------------------------------------------------ device parameters
def devparam(kind, nphys, seed):
    r = np.random.default_rng(seed)
    if kind == "strong":   # strongly noisy but inside the domain of the formulas (T2 <= 2 T1, p_cr >= 0, t_int > 3 tg)
        T1 = r.uniform(2e-6, 2e-5, nphys)
        return {"T1": T1, "T2": r.uniform(0.2, 1.5, nphys) * T1, "p": r.uniform(1e-2, 1e-1, nphys),
                "rout": r.uniform(1e-2, 0.4, nphys), "p_int": r.uniform(0.35, 0.6, (nphys, nphys)),
                "t_int": r.uniform(2e-7, 6e-7, (nphys, nphys)), "tm": r.uniform(1e-6, 5e-6, nphys), "dt": np.array([2.2e-10])}
    if kind == "mid":      # for ScaledNoiseGates(2.0): scaled values stay inside the domain
        T1 = r.uniform(2e-5, 9e-5, nphys)
        return {"T1": T1, "T2": r.uniform(0.3, 1.2, nphys) * T1, "p": r.uniform(5e-3, 4e-2, nphys),
                "rout": r.uniform(1e-2, 0.2, nphys), "p_int": r.uniform(0.2, 0.3, (nphys, nphys)),
                "t_int": r.uniform(2e-7, 6e-7, (nphys, nphys)), "tm": r.uniform(1e-6, 5e-6, nphys), "dt": np.array([2.2e-10])}
    return {"T1": np.full(nphys, 1e-4), "T2": np.full(nphys, 1e-4), "p": np.full(nphys, 1e-3), "rout": np.full(nphys, 1e-2),
            "p_int": np.full((nphys, nphys), 1e-2), "t_int": np.full((nphys, nphys), 3e-7), "tm": np.full(nphys, 1e-6),
            "dt": np.array([2.2e-10])}


# ------------------------------------------------------------------------------------------------ gate sets
class FixedGates:
    """deterministic, strongly non-unitary gate set: every call returns a fixed complex matrix (a function of the gate
    kind and a seed only), so one shot equals every other shot"""

    def __init__(self, seed=0):
        r = np.random.default_rng(seed)
        self.m = {k: r.normal(size=(d, d)) + 1j * r.normal(size=(d, d)) + 1.5 * np.eye(d)
                  for k, d in (("relaxation", 2), ("bitflip", 2), ("depolarizing", 2), ("X", 2), ("SX", 2), ("CNOT", 4),
                               ("CNOT_inv", 4), ("ECR", 4), ("ECR_inv", 4))}

    def relaxation(self, *a): return self.m["relaxation"].copy()
    def bitflip(self, *a): return self.m["bitflip"].copy()
    def depolarizing(self, *a): return self.m["depolarizing"].copy()
    def X(self, *a): return self.m["X"].copy()
    def SX(self, *a): return self.m["SX"].copy()
    def CNOT(self, *a): return self.m["CNOT"].copy()
    def CNOT_inv(self, *a): return self.m["CNOT_inv"].copy()
    def ECR(self, *a): return self.m["ECR"].copy()
    def ECR_inv(self, *a): return self.m["ECR_inv"].copy()


def gate_set(name):
    import quantum_gates._gates.gates as g
    if name == "standard":
        return g.standard_gates
    if name == "noisefree":
        return g.noise_free_gates
    if name == "scaled2":
        return g.ScaledNoiseGates(noise_scaling=2.0)
    if name.startswith("weak"):           # barely noisy: the averaged total is 1 - 1e-6 .. 1 - 1e-12 before normalisation, never exactly 1
        return g.ScaledNoiseGates(noise_scaling=float(name[4:]))
    if name == "almost":
        return g.almost_noise_free_gates
    if name == "gauss":
        from quantum_gates._gates.pulse import GaussianPulse
        return g.Gates(GaussianPulse(0.5, 0.25))
    if name.startswith("fixed"):
        return FixedGates(int(name[5:] or 0))
    raise ValueError(name)


# ------------------------------------------------------------------------------------------------ injected circuit classes
class VecCircuit:
    """CircuitClass whose statevector is TABLE[i] for one np.random.randint draw i per shot; gates are no-ops"""
    TABLE = []
    LOG = []
    COUNT = 0

    def __init__(self, nqubit, depth, gates):
        VecCircuit.COUNT += 1
        self.nqubit = nqubit

    def _noop(self, *a, **k):
        return None
    Rz = I = bitflip = relaxation = depolarizing = X = SX = CNOT = ECR = _noop

    def statevector(self, psi0):
        i = int(np.random.randint(len(VecCircuit.TABLE)))
        VecCircuit.LOG.append(i)
        return np.array(VecCircuit.TABLE[i], dtype=complex)


def counting_class(base):
    class Counting(base):
        COUNT = 0

        def __init__(self, *a, **k):
            Counting.COUNT += 1
            super().__init__(*a, **k)
    Counting.__name__ = "Counting" + base.__name__
    return Counting


# amplitudes whose modulus is exactly representable: |a+bi|^2 computed by numpy as square(absolute(.)) is exact
AMPS = [(0, 0), (1, 0), (-1, 0), (2, 0), (0, 1), (0, -2), (3, 0), (0, 3), (3, 4), (-4, 3), (0, 0), (1, 0), (0, -1)]


def dyadic_table(rng, length, size):
    """`size` amplitude vectors of the given length with the same power-of-two squared norm"""
    for _ in range(200):
        target = rng.choice([1, 2, 4, 8, 16, 32, 64])
        tab = []
        for _ in range(4000):
            v = [rng.choice(AMPS) for _ in range(length)]
            if sum(a * a + b * b for a, b in v) == target:
                tab.append(v)
                if len(tab) == size:
                    return tab
    raise RuntimeError("no dyadic table")


# ------------------------------------------------------------------------------------------------ value codec for malformed args
def decode_val(v):
    t = v[0]
    if t == "int": return int(v[1])
    if t == "float": return float(v[1])
    if t == "str": return str(v[1])
    if t == "bool": return bool(v[1])
    if t == "npint64": return np.int64(v[1])
    if t == "none": return None
    if t == "list": return list(v[1])
    if t == "tuple": return tuple(v[1])
    raise ValueError(t)


class DuckCircuit:
    """not a QuantumCircuit, but has .data with real instructions"""
    def __init__(self, qc):
        self.data = qc.data
        self.num_qubits = qc.num_qubits

    def __len__(self):
        return len(self.data)


def build_run_args(spec):
    """spec (JSON-able) -> kwargs of run().  Keys: circ (circuit spec), circ_kind ('qc'|'duck'|'none'|'str'),
    layout (codec), psi0 ['basis', len] | ['shape', dims] | ['list', len] | ['rand', len, seed] | ['none'],
    shots (codec), params ['ok', kind, nphys, seed] | ['none'] | ['list'] | ['empty'] | ['t1float'], nqubit (codec)"""
    qc = build_circuit(spec["circ"])
    kind = spec.get("circ_kind", "qc")
    circ = {"qc": qc, "duck": DuckCircuit(qc), "none": None, "str": "circuit"}[kind]
    p = spec["psi0"]
    if p[0] == "basis":
        psi0 = np.zeros(p[1]); psi0[:1] = 1
    elif p[0] == "shape":
        psi0 = np.zeros(tuple(p[1])); psi0.flat[:1] = 1
    elif p[0] == "list":
        psi0 = [1.0] + [0.0] * (p[1] - 1)
    elif p[0] == "rand":
        r = np.random.default_rng(p[2]); psi0 = r.normal(size=p[1]) + 1j * r.normal(size=p[1]); psi0 /= np.linalg.norm(psi0)
    elif p[0] == "tiny":        # a basis state with admixtures of amplitude 1e-6 .. 1e-8: outcome probabilities of 1e-12 .. 1e-16 are still probabilities
        r = np.random.default_rng(p[2]); psi0 = np.zeros(p[1], dtype=complex); psi0[0] = 1
        for k in range(1, p[1]):
            psi0[k] = 10.0 ** r.uniform(-8, -6) * np.exp(1j * r.uniform(0, 6.28))
        psi0 /= np.linalg.norm(psi0)
    else:
        psi0 = None
    q = spec["params"]
    if q[0] == "ok":
        dp = devparam(q[1], q[2], q[3])
    elif q[0] == "none":
        dp = None
    elif q[0] == "list":
        dp = [1, 2, 3]
    elif q[0] == "empty":
        dp = {}
    elif q[0] == "t1float":
        dp = devparam("mild", 3, 0); dp["T1"] = 1e-4
    else:
        raise ValueError(q)
    return dict(t_qiskit_circ=circ, qubits_layout=decode_val(spec["layout"]), psi0=psi0, shots=decode_val(spec["shots"]),
                device_param=dp, nqubit=decode_val(spec["nqubit"]))


# ------------------------------------------------------------------------------------------------ abstraction -> Coq
def coq_Z(x): return "(%d)%%Z" % int(x)
def coq_N(x): return "%d%%N" % int(x)
def coq_list(xs): return "[" + "; ".join(xs) + "]"
def coq_bools(s): return coq_list(["true" if ch in ("1", True, 1) else "false" for ch in s])
def coq_optZ(x): return "None" if x is None else "(Some %s)" % coq_Z(x)


def coq_Q(fr):
    fr = Fraction(fr)
    return "(%d # %d)%%Q" % (fr.numerator, fr.denominator)


def describe_instrs(data):
    out = []
    for x in data:
        out.append("mkinstr %s %s %s" % (OPS.get(x.operation.name, "OpOther"),
                                          coq_list([coq_N(q._index) for q in x.qubits]), coq_list([coq_N(c._index) for c in x.clbits])))
    return coq_list(out)


def int_view(x):
    return int(x) if isinstance(x, int) else None


def describe_args(kw):
    """the abstraction function: real run() arguments -> Gallina term of type SimRun.args (looks only at what the model's
    comments say each field means)"""
    from qiskit import QuantumCircuit
    c = kw["t_qiskit_circ"]
    if not hasattr(c, "data"):
        circ = "CNoData"
    else:
        circ = "(CData %s %s)" % ("true" if isinstance(c, QuantumCircuit) else "false", describe_instrs(c.data))
    p = kw["psi0"]
    psi = "(PsiShape %s)" % coq_list([coq_Z(d) for d in p.shape]) if hasattr(p, "shape") else "PsiNoShape"
    d = kw["device_param"]
    if not isinstance(d, dict):
        par = "None"
    elif "T1" not in d:
        par = "(Some T1Missing)"
    elif not hasattr(d["T1"], "__len__"):
        par = "(Some T1NoLen)"
    else:
        par = "(Some (T1Len %s))" % coq_Z(len(d["T1"]))
    return "(mkargs %s %s %s %s %s %s)" % (circ, "true" if isinstance(kw["qubits_layout"], list) else "false", psi,
                                           coq_optZ(int_view(kw["shots"])), par, coq_optZ(int_view(kw["nqubit"])))


ERR_CODE = {"IndexError": 1, "ValueError": 2, "AssertionError": 3, "AttributeError": 4, "TypeError": 5, "FileNotFoundError": 6, "KeyError": 7}
STEPS = ["SNoData", "SMeasureArgs", "SNoMeasure", "SCircType", "SLayoutType", "SShotsType", "SParamsType", "SNqubitType",
         "SShotsValue", "SPsiAttr", "SPsiShape", "SLayoutLen", "ST1Key", "ST1Len", "SParamsLen", "SSwapIndex", "SLayoutIndex"]
STEP_CODE = {s: i + 1 for i, s in enumerate(STEPS)}
MSG_STEP = [("None qubit measured", "SNoMeasure"), ("argument t_qiskit_circ to be of type", "SCircType"),
            ("argument qubits_layout to be of type", "SLayoutType"), ("argument shots to be of type", "SShotsType"),
            ("argument device_param to be of type", "SParamsType"), ("argument nqubit to be of type", "SNqubitType"),
            ("positive number of shots", "SShotsValue"), ("shape of psi0", "SPsiShape"), ("qubits layout to cover", "SLayoutLen"),
            ("device parameters to cover", "SParamsLen"), ("has no attribute 'data'", "SNoData"), ("has no attribute 'shape'", "SPsiAttr"),
            ("list assignment index out of range", "SSwapIndex"), ("has no len()", "ST1Len"), ("'T1'", "ST1Key")]


def step_of_exception(e):
    msg = str(e)
    for frag, s in MSG_STEP:
        if frag in msg:
            return s
    return None


COQ_CODES = ("Definition err_code (e : err) : nat := match e with IndexError => 1 | ValueError => 2 | AssertionError => 3 | AttributeError => 4 "
             "| TypeError => 5 | FileNotFoundError => 6 | KeyError => 7 | OutOfFuel => 8 end.\n"
             "Definition step_code (s : step) : nat := match s with " +
             " | ".join("%s => %d" % (s, i + 1) for i, s in enumerate(STEPS)) + " end.\n")


def parse_bad(out):
    """indices printed by `Eval vm_compute in result.` (a list of nat)"""
    if "=" not in out:
        return None
    txt = out[out.index("="):].split(":")[0]
    return [int(x) for x in txt.replace("=", " ").replace("[", " ").replace("]", " ").replace(";", " ").replace("%nat", "").split()]
