"""Fail-closed source readers for C10.

read_cache_shape(src_dir)  -> (flags dict, facts list)   parses _gates/integrator.py with `ast` and extracts
    * the tuple used as dictionary key in Integrator.integrate (membership test, cached return, store),
    * where the dictionary is created (instance attribute in __init__ vs class attribute / anything else),
    * that the stored value is the result of the uncached evaluation called with exactly (integrand, theta, a).
write_gen(flags, path)     regenerates coq/Gen/GenCacheKey.v (only when the content changed).
scan_randomness(src_dir)   -> (sites, problems)  every way the sampling code could obtain randomness must be a call
    np.random.<fn> on numpy's GLOBAL generator; anything else (random, default_rng, RandomState, time, os.urandom,
    secrets, uuid, scipy .rvs, from-imports of numpy.random, get_state/set_state) is a problem.
Any construct these readers do not understand raises Unreadable (the check then fails closed)."""
import ast, os


class Unreadable(Exception):
    pass


def _is_self_attr(node, name):
    return isinstance(node, ast.Attribute) and node.attr == name and isinstance(node.value, ast.Name) and node.value.id == "self"


def _tuple_names(node):
    if not isinstance(node, ast.Tuple) or not all(isinstance(e, ast.Name) for e in node.elts):
        raise Unreadable("cache key is not a tuple of plain names: %s" % ast.dump(node)[:120])
    return tuple(e.id for e in node.elts)


def read_cache_shape(src_dir):
    path = os.path.join(src_dir, "quantum_gates", "_gates", "integrator.py")
    tree = ast.parse(open(path).read(), path)
    classes = [n for n in tree.body if isinstance(n, ast.ClassDef) and n.name == "Integrator"]
    if len(classes) != 1:
        raise Unreadable("expected exactly one class Integrator")
    cls = classes[0]
    facts = []
    # -- no memoising decorators, no module-level caches
    for n in ast.walk(tree):
        if isinstance(n, (ast.FunctionDef, ast.ClassDef)) and n.decorator_list:
            raise Unreadable("decorator on %s (possible hidden memo)" % n.name)
        if isinstance(n, (ast.Global, ast.Nonlocal)):
            raise Unreadable("global/nonlocal statement in integrator.py")
    for n in tree.body:
        if isinstance(n, (ast.Assign, ast.AnnAssign, ast.AugAssign)):
            raise Unreadable("module-level assignment in integrator.py at line %d (possible shared state)" % n.lineno)
    # -- every mention of _cache in the module
    per_instance = True
    created_in_init = 0
    for n in cls.body:
        targets = []
        if isinstance(n, ast.Assign):
            targets = n.targets
        elif isinstance(n, ast.AnnAssign):
            targets = [n.target]
        for t in targets:
            if isinstance(t, ast.Name) and t.id == "_cache":
                per_instance = False
                facts.append("class attribute _cache at line %d" % n.lineno)
    methods = {n.name: n for n in cls.body if isinstance(n, ast.FunctionDef)}
    if "__init__" not in methods or "integrate" not in methods:
        raise Unreadable("Integrator lacks __init__ or integrate")
    for fname, f in methods.items():
        for n in ast.walk(f):
            if isinstance(n, ast.Assign):
                for t in n.targets:
                    if isinstance(t, ast.Attribute) and t.attr == "_cache":
                        if fname == "__init__" and _is_self_attr(t, "_cache"):
                            v = n.value
                            empty = (isinstance(v, ast.Call) and isinstance(v.func, ast.Name) and v.func.id == "dict" and not v.args and not v.keywords) or \
                                    (isinstance(v, ast.Dict) and not v.keys)
                            if not empty:
                                raise Unreadable("_cache is not initialised with an empty dict at line %d" % n.lineno)
                            created_in_init += 1
                        else:
                            raise Unreadable("_cache is rebound outside __init__ (line %d)" % n.lineno)
    for n in ast.walk(tree):
        if isinstance(n, ast.Attribute) and n.attr == "_cache" and not _is_self_attr(n, "_cache"):
            raise Unreadable("_cache reached through something other than self at line %d" % n.lineno)
    if created_in_init == 0:
        per_instance = False
        facts.append("_cache is not created in __init__")
    elif created_in_init > 1:
        raise Unreadable("_cache assigned more than once in __init__")
    if any(_is_self_attr(n, "_cache") for fname, f in methods.items() if fname not in ("__init__", "integrate") for n in ast.walk(f)):
        raise Unreadable("_cache used outside __init__/integrate")
    # -- the key
    f = methods["integrate"]
    params = [a.arg for a in f.args.args]
    if len(params) != 4 or params[0] != "self" or f.args.vararg or f.args.kwarg or f.args.kwonlyargs:
        raise Unreadable("integrate does not have the signature (self, integrand, theta, a): %s" % params)
    p_int, p_theta, p_a = params[1:]
    keys = {"test": [], "load": [], "store": []}
    for n in ast.walk(f):
        if isinstance(n, ast.Compare) and any(_is_self_attr(c, "_cache") for c in n.comparators):
            if len(n.ops) != 1 or not isinstance(n.ops[0], ast.In):
                raise Unreadable("unexpected comparison with _cache at line %d" % n.lineno)
            keys["test"].append(_tuple_names(n.left))
        if isinstance(n, ast.Subscript) and _is_self_attr(n.value, "_cache"):
            keys["store" if isinstance(n.ctx, ast.Store) else "load"].append(_tuple_names(n.slice))
        if isinstance(n, ast.Call) and isinstance(n.func, ast.Attribute) and _is_self_attr(n.func.value, "_cache"):
            raise Unreadable("method call on _cache (%s) at line %d" % (n.func.attr, n.lineno))
    if not (len(keys["test"]) == 1 and len(keys["load"]) == 1 and len(keys["store"]) == 1):
        raise Unreadable("expected one membership test, one cached load and one store on _cache, found %s" % {k: len(v) for k, v in keys.items()})
    if not (keys["test"][0] == keys["load"][0] == keys["store"][0]):
        raise Unreadable("lookup and store use different keys: %s" % keys)
    key = keys["test"][0]
    if len(set(key)) != len(key) or any(k not in (p_int, p_theta, p_a) for k in key):
        raise Unreadable("key %s is not made of integrate's own parameters" % (key,))
    # positional order must follow the parameter order (the model's key is the ordered triple)
    if list(key) != [p for p in (p_int, p_theta, p_a) if p in key]:
        raise Unreadable("key components out of order: %s" % (key,))
    facts.append("cache key = (%s) at lines %s" % (", ".join(key), sorted({n.lineno for n in ast.walk(f) if isinstance(n, ast.Subscript) and _is_self_attr(n.value, "_cache")})))
    # -- the stored value is the uncached evaluation of exactly (integrand, theta, a)
    stores = [n for n in ast.walk(f) if isinstance(n, ast.Assign) and any(isinstance(t, ast.Subscript) and _is_self_attr(t.value, "_cache") for t in n.targets)]
    if len(stores) != 1 or not isinstance(stores[0].value, ast.Name):
        raise Unreadable("the cache store does not store a plain variable")
    yname = stores[0].value.id
    evals = [n for n in ast.walk(f) if isinstance(n, ast.Assign) and any(isinstance(t, ast.Name) and t.id == yname for t in n.targets)]
    if not evals:
        raise Unreadable("stored variable %s is never assigned" % yname)
    for e in evals:
        c = e.value
        ok = (isinstance(c, ast.Call) and isinstance(c.func, ast.Attribute) and isinstance(c.func.value, ast.Name) and c.func.value.id == "self"
              and c.func.attr in ("_analytical_integration", "_numerical_integration") and not c.keywords
              and [a.id if isinstance(a, ast.Name) else None for a in c.args] == [p_int, p_theta, p_a])
        if not ok:
            raise Unreadable("stored value is not self._analytical/_numerical_integration(%s, %s, %s) at line %d" % (p_int, p_theta, p_a, e.lineno))
    rets = [n for n in ast.walk(f) if isinstance(n, ast.Return)]
    for r in rets:
        v = r.value
        if not ((isinstance(v, ast.Name) and v.id == yname) or (isinstance(v, ast.Subscript) and _is_self_attr(v.value, "_cache"))):
            raise Unreadable("integrate returns something other than the cached or freshly stored value at line %d" % r.lineno)
    flags = {"key_uses_integrand": p_int in key, "key_uses_theta": p_theta in key, "key_uses_a": p_a in key, "cache_per_instance": per_instance}
    return flags, facts


def gen_text(flags):
    b = lambda x: "true" if x else "false"
    return ("(* GENERATED by checks/c10_translate.py from quantum_gates/_gates/integrator.py — do not edit *)\n"
            "Require Import QG.Model.Cache.\n"
            "Definition key_uses_integrand : bool := %s.\nDefinition key_uses_theta : bool := %s.\n"
            "Definition key_uses_a : bool := %s.\nDefinition cache_per_instance : bool := %s.\n"
            "Definition gen_shape : shape := mkShape key_uses_integrand key_uses_theta key_uses_a cache_per_instance.\n"
            % (b(flags["key_uses_integrand"]), b(flags["key_uses_theta"]), b(flags["key_uses_a"]), b(flags["cache_per_instance"])))


def write_gen(flags, path):
    txt = gen_text(flags)
    os.makedirs(os.path.dirname(path), exist_ok=True)
    if not os.path.exists(path) or open(path).read() != txt:
        with open(path, "w") as fh:
            fh.write(txt)
    return txt


# ------------------------------------------------------------------------------------------------ randomness scan
SCAN_FILES = ["_gates/factories.py", "_gates/gates.py", "_gates/integrator.py", "_gates/pulse.py", "_simulation/circuit.py",
              "_simulation/simulator.py", "_simulation/backend.py", "_utility/circ_optimizer.py"]
ALLOWED_FN = {"_gates/factories.py": {"normal", "multivariate_normal"},
              "_simulation/simulator.py": {"seed", "randint"}}       # seed/randint: per-shot reseeding of the parallel branch only
BAD_MODULES = {"random", "secrets", "uuid", "time", "datetime", "numpy.random", "hashlib", "threading"}
BAD_NAMES = {"default_rng", "RandomState", "Generator", "SeedSequence", "urandom", "getrandom", "getrandbits", "token_bytes", "token_hex",
             "uuid1", "uuid4", "time_ns", "perf_counter", "perf_counter_ns", "monotonic", "get_state", "set_state", "rvs", "getpid", "BitGenerator",
             "PCG64", "MT19937", "Philox", "SFC64", "random_sample", "random_state"}


def _chain(node):
    out = []
    while isinstance(node, ast.Attribute):
        out.append(node.attr); node = node.value
    if isinstance(node, ast.Name):
        out.append(node.id)
        return list(reversed(out))
    return None


def scan_randomness(src_dir):
    sites, problems = [], []
    for rel in SCAN_FILES:
        path = os.path.join(src_dir, "quantum_gates", rel)
        tree = ast.parse(open(path).read(), path)
        np_alias = set()
        for n in ast.walk(tree):
            if isinstance(n, ast.Import):
                for a in n.names:
                    root = a.name
                    if root == "numpy":
                        np_alias.add(a.asname or "numpy")
                    if root in BAD_MODULES or root.split(".")[0] in BAD_MODULES:
                        problems.append("%s:%d imports %s" % (rel, n.lineno, root))
            if isinstance(n, ast.ImportFrom):
                mod = n.module or ""
                if mod in BAD_MODULES or mod.split(".")[0] in (BAD_MODULES - {"numpy.random"}):
                    problems.append("%s:%d imports from %s" % (rel, n.lineno, mod))
                if mod == "numpy" and any(a.name == "random" for a in n.names):
                    problems.append("%s:%d imports numpy.random by name" % (rel, n.lineno))
                if mod == "os" and any(a.name in BAD_NAMES for a in n.names):
                    problems.append("%s:%d imports %s from os" % (rel, n.lineno, [a.name for a in n.names]))
        covered = set()
        for n in ast.walk(tree):
            if isinstance(n, ast.Attribute):
                ch = _chain(n)
                if ch and "random" in ch[1:] and id(n) not in covered:
                    # must be exactly <numpy alias>.random.<fn>, and be called
                    pass
            if isinstance(n, ast.Call):
                ch = _chain(n.func)
                if ch and "random" in ch:
                    if len(ch) == 3 and ch[0] in np_alias and ch[1] == "random":
                        fn = ch[2]
                        if fn in ALLOWED_FN.get(rel, set()):
                            sites.append("%s:%d np.random.%s" % (rel, n.lineno, fn))
                        else:
                            problems.append("%s:%d calls np.random.%s (not a draw from the global generator allowed in this file)" % (rel, n.lineno, fn))
                    else:
                        problems.append("%s:%d calls %s" % (rel, n.lineno, ".".join(ch)))
                    for sub in ast.walk(n.func):
                        covered.add(id(sub))
        for n in ast.walk(tree):
            if isinstance(n, ast.Attribute) and id(n) not in covered:
                ch = _chain(n)
                if ch and "random" in ch:
                    problems.append("%s:%d mentions %s outside a direct call" % (rel, n.lineno, ".".join(ch)))
            if isinstance(n, ast.Attribute) and n.attr in BAD_NAMES:
                problems.append("%s:%d uses .%s" % (rel, n.lineno, n.attr))
            if isinstance(n, ast.Name) and n.id in BAD_NAMES:
                problems.append("%s:%d uses %s" % (rel, n.lineno, n.id))
            if isinstance(n, ast.Name) and n.id == "random":
                problems.append("%s:%d uses the bare name random" % (rel, n.lineno))
    return sites, sorted(set(problems))


if __name__ == "__main__":   # regenerate coq/Gen/GenCacheKey.v (needed before Props/C10.v can be built outside bin/check C10)
    import sys
    sys.path.insert(0, os.path.dirname(os.path.dirname(os.path.abspath(__file__))))
    from vlib.common import SRC, COQ
    fl, facts = read_cache_shape(SRC)
    print(write_gen(fl, os.path.join(COQ, "Gen", "GenCacheKey.v")))
    print("\n".join(facts))
