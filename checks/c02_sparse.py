"""C02, BinaryBackend operator construction: exact correspondence of create_sparse / create_dense / join_str and the
used / not-used qubit bookkeeping of statevector with Model/Sparse.v.  The gate matrix handed to the backend has the
entry 1 + 4*r + c at position (r, c), so every stored datum names the gate entry it was read from; the arguments of
scipy's coo_matrix (data, rows, cols in generation order) and the array returned by create_dense are captured."""
import numpy as np
from checks import c02_lib as L

ERR = {"IndexError": "IndexError", "ValueError": "ValueError", "TypeError": "TypeError", "AttributeError": "AttributeError",
       "KeyError": "KeyError"}

PRELUDE = r"""
From Coq Require Import List Bool ZArith NArith Arith.
Require Import QG.Base.Res QG.Model.Optimizer QG.Model.Sparse.
Import ListNotations.
Local Open Scope N_scope.
Notation q4 := (N * N * N * N)%type.
Definition enc_t (t : list bool * list bool * (N * N)) : q4 := (val2 (fst (fst t)), val2 (snd (fst t)), fst (snd t), snd (snd t)).
Definition q4_eqb (a b : q4) : bool :=
  let '(a1, a2, a3, a4) := a in let '(b1, b2, b3, b4) := b in N.eqb a1 b1 && N.eqb a2 b2 && N.eqb a3 b3 && N.eqb a4 b4.
Fixpoint l_eqb (a b : list q4) : bool :=
  match a, b with [], [] => true | x :: a', y :: b' => q4_eqb x y && l_eqb a' b' | _, _ => false end.
Definition err_eqb (a b : err) : bool :=
  match a, b with IndexError, IndexError | ValueError, ValueError | TypeError, TypeError | AttributeError, AttributeError
  | KeyError, KeyError => true | _, _ => false end.
(* the optimizer (level 0 for a single item) normalises [q,-1] to [q] before the backend sees the item *)
Definition check1 (c : nat * list Z * (bool * list q4 + err)) : bool :=
  let '(n, qs, e) := c in
  match item_operator n (snd (norm_item mterm (Id2, qs))), e with
  | Ok (d, ts), inl (d', x) => Bool.eqb d d' && l_eqb (map enc_t ts) x
  | Err a, inr b => err_eqb a b
  | _, _ => false
  end.
Fixpoint bad (i : nat) (cs : list (nat * list Z * (bool * list q4 + err))) : list nat :=
  match cs with [] => [] | c :: r => if check1 c then bad (S i) r else i :: bad (S i) r end.
"""


def coded_gate(qs):
    d = 2 if len(qs) == 1 or (len(qs) == 2 and qs[1] == -1) else 4
    return np.array([[1 + 4 * r + c for c in range(d)] for r in range(d)], dtype=complex)


def decode(v):
    v = complex(v)
    k = int(round(v.real)) - 1
    if v.imag != 0 or k < 0 or k > 15 or v.real != k + 1:
        raise ValueError("datum %r is not an entry code" % (v,))
    return k // 4, k % 4


def run_impl(be, N, qs):
    """-> ('ok', dense?, [(row, col, r, c)]) | ('err', name)"""
    cap = {"coo": None, "dense": None}
    real_coo = be.coo_matrix
    real_dense = be.BinaryBackend.create_dense

    def coo(arg, *a, **kw):
        data, (rows, cols) = arg
        cap["coo"] = (list(data), list(rows), list(cols))
        return real_coo(arg, *a, **kw)

    def dense(self, *a, **kw):
        D = real_dense(self, *a, **kw)
        cap["dense"] = np.array(D)
        return D
    be.coo_matrix = coo
    be.BinaryBackend.create_dense = dense
    try:
        psi0 = np.zeros(2 ** N, dtype=complex)
        psi0[0] = 1
        be.BinaryBackend(nqubit=N).statevector([[coded_gate(qs), list(qs)]], psi0)
    except Exception as e:  # noqa
        return ("err", type(e).__name__)
    finally:
        be.coo_matrix = real_coo
        be.BinaryBackend.create_dense = real_dense
    try:
        if cap["dense"] is not None and cap["coo"] is None:
            D = cap["dense"]
            return ("ok", True, [(i, j) + decode(D[i, j]) for i in range(D.shape[0]) for j in range(D.shape[1])])
        if cap["coo"] is not None and cap["dense"] is None:
            data, rows, cols = cap["coo"]
            return ("ok", False, [(int(r), int(c)) + decode(d) for d, r, c in zip(data, rows, cols)])
    except ValueError as e:
        return ("bad", str(e))
    return ("bad", "neither / both constructors were called")


def coq_expect(r):
    if r[0] == "ok":
        return "inl (%s, [%s])" % ("true" if r[1] else "false", ";".join("(%d,%d,%d,%d)" % t for t in r[2]))
    if r[0] == "err":
        return "inr %s" % ERR.get(r[1], "AssertionError")
    return "inr AssertionError"


def gen(ck):
    quick = ck.tier == "quick"
    cases = []
    for N in range(1, (6 if quick else 8) + 1):
        for q in L.patterns(N):
            cases.append(("sparse_exhaustive", N, q, True))
    for N in range(1, 4):  # out-of-domain qubit lists
        for q in [[], [N], [-1], [0, 0], [0, N], [N, 0], [0, 1, 2], [-1, 0], [0, -2], [N - 1, N - 1]]:
            cases.append(("sparse_malformed", N, q, False))
    return cases


def correspondence(ck, be, models_ok):
    """returns list of (kind, where, info) mismatches"""
    cases = gen(ck)
    results = []
    for fam, N, q, dom in cases:
        r = run_impl(be, N, q)
        results.append(r)
        ck.count(fam, 1, key=(N, tuple(q)) if dom else None,
                 sample={"N": N, "qubits": q, "dense": r[1] if r[0] == "ok" else None, "triples": len(r[2]) if r[0] == "ok" else r[1]})
    mism = []
    if not models_ok:
        return [("coq-failed", "Model/Sparse", "model did not build")]
    per = 40
    shards = []
    for s in range(0, len(cases), per):
        body = PRELUDE + "Definition cases : list (nat * list Z * (bool * list q4 + err)) :=\n [" + ";\n ".join(
            "(%d%%nat, %s%%Z, %s)" % (N, L.coq_qs(q), coq_expect(r)) for (fam, N, q, dom), r in zip(cases[s:s + per], results[s:s + per])) + "].\n"
        body += "Definition result := bad 0 cases.\nEval vm_compute in result.\n"
        shards.append(("c02s_%d" % (s // per), body))
    for (name, rc, out), s in zip(ck.coq_eval_many(shards), range(0, len(cases), per)):
        if rc != 0:
            mism.append(("coq-failed", name, out[-600:]))
            continue
        txt = out[out.index("="):] if "=" in out else ""
        idx = [int(x) for x in txt.split(":")[0].replace("=", "").replace("[", " ").replace("]", " ").replace(";", " ").replace("%nat", "").split()] if txt else [-1]
        for i in idx:
            fam, N, q, dom = cases[s + i]
            if dom:
                mism.append(("mismatch", s + i, {"N": N, "qubits": q, "impl": str(results[s + i])[:300]}))
            else:
                ck.notes.append("Sparse model and implementation differ on the out-of-domain item N=%d qubits=%s (not a violation)" % (N, q))
    ck.oblige("correspondence create_sparse/create_dense model = implementation on %d (N, qubits) cases" % len(cases), not mism)
    return mism


def replay(be, doc):
    r = run_impl(be, doc["N"], doc["qubits"])
    return None if r[0] == "ok" else str(r)
