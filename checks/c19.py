"""C19 — batch helpers run every job exactly once and merge result files exactly.
Theorems: coq/Props/C19.v over Model/Batch.v.  Tie (M): exact correspondence — the real helpers are run on marker-file
simulations and on directories of integer-valued result files (checks/c19_harness.py, child processes), the model is
evaluated by vm_compute inside Coq on the same cases, and outcomes / call multisets / directory snapshots must agree
exactly.  Direct oracle (independent of the model): the property's text evaluated on the observations."""
import sys, os, json, itertools
from fractions import Fraction
from vlib.common import Check, coq_list, run_child, NCPU

ERRS = ["IndexError", "ValueError", "AssertionError", "AttributeError", "TypeError", "FileNotFoundError", "KeyError"]

PRELUDE = r"""
From Coq Require Import List NArith ZArith Bool Arith.
Require Import QG.Base.Res QG.Model.Batch.
Import ListNotations.
Definition err_code (e : err) : N :=
  match e with IndexError => 0 | ValueError => 1 | AssertionError => 2 | AttributeError => 3 | TypeError => 4
             | FileNotFoundError => 5 | KeyError => 6 | OutOfFuel => 7 end%N.
Definition out_eqb (a b : res unit) : bool :=
  match a, b with Ok _, Ok _ => true | Err x, Err y => N.eqb (err_code x) (err_code y) | _, _ => false end.
Fixpoint zl_eqb (a b : list Z) : bool :=
  match a, b with [], [] => true | x :: a', y :: b' => Z.eqb x y && zl_eqb a' b' | _, _ => false end.
Fixpoint nl_eqb (a b : list N) : bool :=
  match a, b with [], [] => true | x :: a', y :: b' => N.eqb x y && nl_eqb a' b' | _, _ => false end.
Definition oarr_eqb (a b : option (list Z)) : bool :=
  match a, b with Some x, Some y => zl_eqb x y | None, None => true | _, _ => false end.
(* merge case: file system, sources, targets, split, universe of paths, expected file system, expected outcome *)
Definition mcase := (list (N * list Z) * list N * list N * Z * list N * list (N * list Z) * res unit)%type.
Definition mcheck (c : mcase) : bool :=
  let '(f, src, tgt, split, U, expf, expo) := c in
  let '(f', o) := post_process_split Z Z.add Z.div f src tgt split in
  out_eqb o expo && forallb (fun p => oarr_eqb (lookup Z p f') (lookup Z p expf)) U.
(* runner case: kind (0 pool, 1 executor, 2 mock), cpu, max_workers, args, failing labels, expected sorted log,
   expected outcome, compare the log? *)
Fixpoint ins (x : N) (l : list N) : list N :=
  match l with [] => [x] | y :: r => if N.leb x y then x :: l else y :: ins x r end.
Definition sortN (l : list N) : list N := fold_right ins [] l.
Definition sim (fail : list N) (a : N) : res (N * N) := if existsb (N.eqb a) fail then Err ValueError else Ok (0%N, a).
Definition rcase := (nat * nat * option Z * list N * list N * list N * res unit * bool)%type.
Definition rcheck (c : rcase) : bool :=
  let '(kind, cpu, mw, args, fail, explog, expo, cmplog) := c in
  let '(log, o) := match kind with
                   | 0%nat => pool_runner N N N (sim fail) (fun l _ _ => l) cpu args
                   | 1%nat => executor_runner N N N (sim fail) (fun l _ => l) mw args
                   | _ => mock_runner N N N (sim fail) args
                   end in
  out_eqb o expo && (negb cmplog || nl_eqb (sortN log) explog).
Fixpoint bad {X} (chk : X -> bool) (i : nat) (cs : list X) : list nat :=
  match cs with [] => [] | c :: r => if chk c then bad chk (S i) r else i :: bad chk (S i) r end.
"""


# ------------------------------------------------------------------------------------------------ generators
def arr(rng, L):
    return [60 * rng.randint(-50, 50) for _ in range(L)]


def gen_merge(ck):
    """case = dict(id, family, files{id:[ints]}, sources[ids], targets[ids], split, in_domain)"""
    rng = ck.rng
    cases = []

    def add(family, files, sources, targets, split, in_domain=True):
        cases.append({"id": len(cases), "family": family, "files": {str(k): v for k, v in files.items()}, "sources": sources,
                      "targets": targets, "split": split, "in_domain": in_domain})

    reps = 2 if ck.tier == "quick" else 6
    for k in range(1, 5):
        for split in range(2, 6):
            nsrc = k * split
            src = list(range(nsrc))
            tgt = list(range(100, 100 + k))
            for _ in range(reps):
                L = rng.choice([1, 2, 3, 5])      # one-entry files too: a single observable per run is an array content like any other
                base = {i: arr(rng, L) for i in src}
                base[200] = arr(rng, rng.choice([2, 4]))          # a bystander file
                # all subsets of pre-existing targets
                for mask in range(2 ** k):
                    files = dict(base)
                    for j in range(k):
                        if mask >> j & 1:
                            files[tgt[j]] = [7, 7, 7][:rng.choice([2, 3])]
                    s2 = list(src)
                    if rng.random() < 0.3:
                        rng.shuffle(s2)                            # source order is free
                    add("all_target_subsets", files, s2, tgt, split)
                # missing sources, with and without a pre-existing target
                for _ in range(3):
                    files = dict(base)
                    for i in rng.sample(src, rng.randint(1, min(2, nsrc))):
                        del files[i]
                    if rng.random() < 0.4:
                        files[rng.choice(tgt)] = [7, 7]
                    add("missing_source", files, src, tgt, split)
                # inconsistent counts
                add("inconsistent_counts", dict(base), src[:-1], tgt, split)
                add("inconsistent_counts", dict(base), src, tgt + [100 + k], split)
                add("inconsistent_counts", dict(base), src, tgt, split + 1)
                for r in range(1, split):       # a surplus of 1 .. split-1 sources (k*split + r files for k targets)
                    extra = {300 + j: arr(rng, L) for j in range(r)}
                    files = dict(base); files.update(extra)
                    add("inconsistent_counts", files, src + list(extra), tgt, split)
                if k > 1:
                    add("inconsistent_counts", dict(base), src, tgt[:-1], split)
                # a source listed twice in place of another one (allowed: same file read twice)
                s3 = list(src)
                s3[rng.randrange(nsrc)] = s3[rng.randrange(nsrc)]
                add("repeated_source", dict(base), s3, tgt, split)
                # a target that is also a source (must be refused: it exists)
                t3 = list(tgt)
                t3[rng.randrange(k)] = rng.choice(src)
                add("target_is_source", dict(base), src, t3, split)
                # out of the property's domain: duplicate targets, shapes that differ inside one group
                if k > 1:
                    t4 = list(tgt)
                    t4[-1] = t4[0]
                    add("duplicate_targets(out_of_domain)", dict(base), src, t4, split, in_domain=False)
                files = dict(base)
                files[rng.choice(src)] = arr(rng, L + 1)
                add("shape_mismatch(out_of_domain)", files, src, tgt, split, in_domain=False)
    # split <= 1 (counts made consistent wherever arithmetic allows), and k = 0
    for split in (1, 0, -1, -3):
        for k in (1, 2, 3):
            nsrc = max(split * k, 0)
            files = {i: arr(rng, 2) for i in range(max(nsrc, 2))}
            add("split<=1", files, list(range(nsrc)), list(range(100, 100 + k)), split)
        add("split<=1", {0: arr(rng, 2)}, [], [], split)
    add("k=0", {0: arr(rng, 2)}, [], [], 2)
    add("k=0", {0: arr(rng, 2)}, [], [], 5)
    return cases


def gen_runner(ck):
    rng = ck.rng
    cases = []

    def add(family, runner, labels, fail=(), cpu=1, mw=None, in_domain=True):
        cases.append({"id": len(cases), "family": family, "runner": runner, "labels": labels, "fail": sorted(fail), "cpu": cpu,
                      "max_workers": mw, "in_domain": in_domain})

    jobs = list(range(0, 21)) if ck.tier == "quick" else list(range(0, 41))
    for n in jobs:
        labels = list(range(n))
        if n >= 3 and n % 4 == 3:                      # repeated arguments: the property speaks of a multiset
            labels[1] = labels[0]
            labels[-1] = labels[2]
        rng.shuffle(labels)
        add("mock", "mock", labels)
        for cpu in ((1, 5) if ck.tier == "quick" and n % 3 else (1, 4, 5)):      # -> 2, 3, 4 processes
            add("pool", "pool", labels, cpu=cpu)
        for mw in ((1 + n % 4,) if ck.tier == "quick" and n % 3 else (1, 2, 3, 4)):
            add("executor", "executor", labels, mw=mw)
    add("executor", "executor", list(range(6)), mw=None)
    # the pool runner with an explicit max_workers below / at / above its own process count and many more jobs than that
    for cpu, n, mw in ((16, 36, 1), (16, 24, 11), (8, 13, 2), (5, 9, 3), (10, 17, 8), (4, 7, 64)) if ck.tier == "quick" else \
            tuple((cpu, n, mw) for cpu in (4, 8, 16) for n in (7, 13, 24, 36) for mw in (1, 2, 3, 11, 64)):
        labels = list(range(n)); rng.shuffle(labels)
        add("pool_max_workers", "pool", labels, cpu=cpu, mw=mw)
    # a simulation that raises: outside "every call succeeds"; the mock is deterministic (prefix), the pools are not
    for n in (1, 3, 6):
        labels = list(range(n))
        f = [rng.choice(labels)]
        add("mock_failing(out_of_domain)", "mock", labels, fail=f, in_domain=False)
        add("executor_failing(out_of_domain)", "executor", labels, fail=f, mw=2, in_domain=False)
    add("executor_bad_workers(out_of_domain)", "executor", [0, 1], mw=0, in_domain=False)
    add("executor_bad_workers(out_of_domain)", "executor", [0, 1], mw=-2, in_domain=False)
    return cases


# ------------------------------------------------------------------------------------------------ oracles
def fname(i):
    return "f%d.txt" % i


def vals_of(entry):
    return [Fraction(int(a), int(b)) for a, b in entry["vals"]]


def merge_oracle(case, obs):
    """the property's text on the observation; None = fine, str = violated.  Only for in-domain cases."""
    before, after, outcome = obs["before"], obs["after"], obs["outcome"]
    src, tgt, split = case["sources"], case["targets"], case["split"]
    refuse = (split * len(tgt) != len(src) or any(fname(i) not in before for i in src)
              or any(fname(i) in before for i in tgt) or split <= 1)
    if refuse:
        if outcome == "ok":
            return "did not refuse (counts/split/source/target condition violated) but returned normally"
        if after != before:
            changed = sorted(n for n in set(before) | set(after) if before.get(n) != after.get(n))
            return "raised %s but changed the directory: %s" % (outcome, changed)
        return None
    if outcome != "ok":
        return "raised %s on well-formed arguments" % outcome
    for j, t in enumerate(tgt):
        group = [vals_of(before[fname(i)]) for i in src[j * split:(j + 1) * split]]
        want = [sum(col) / split for col in zip(*group)]
        got = after.get(fname(t))
        if got is None or "vals" not in got:
            return "target %d was not written" % j
        if vals_of(got) != want:
            return "target %d holds %s, expected the mean %s of sources %d..%d" % (
                j, [float(x) for x in vals_of(got)][:4], [float(x) for x in want][:4], j * split, (j + 1) * split - 1)
    tnames = {fname(t) for t in tgt}
    for n in set(before) | set(after):
        if n not in tnames and before.get(n) != after.get(n):
            return "file %s was changed / created / removed although it is not a target" % n
    return None


def runner_oracle(case, obs):
    if case["fail"]:
        return None
    if obs["outcome"] != "ok":
        return "runner raised %s although every simulation call succeeds" % obs["outcome"]
    if obs["log"] != sorted(case["labels"]):
        return "simulation calls %s differ from the arguments %s (as multisets)" % (obs["log"], sorted(case["labels"]))
    return None


# ------------------------------------------------------------------------------------------------ Coq encodings
def zlist(v):
    return coq_list(["(%d)%%Z" % x for x in v])


def nlist(v):
    return coq_list(["%d%%N" % x for x in v])


def fs_lit(d):
    return coq_list(["(%d%%N, %s)" % (int(k), zlist(v)) for k, v in sorted(d.items(), key=lambda kv: int(kv[0]))])


def outcome_lit(o):
    return "Ok tt" if o == "ok" else "Err %s" % (o if o in ERRS else "OutOfFuel")


def enc_merge(case, obs):
    """returns Coq literal or None when the observation cannot be expressed (non-integer content)"""
    expf = {}
    for name, e in obs["after"].items():
        if not (name.startswith("f") and name.endswith(".txt")) or "vals" not in e:
            return None
        v = vals_of(e)
        if any(x.denominator != 1 for x in v):
            return None
        expf[int(name[1:-4])] = [int(x) for x in v]
    U = sorted(set(int(k) for k in case["files"]) | set(case["sources"]) | set(case["targets"]) | set(expf))
    return "(%s, %s, %s, (%d)%%Z, %s, %s, %s)" % (fs_lit(case["files"]), nlist(case["sources"]), nlist(case["targets"]),
                                                   case["split"], nlist(U), fs_lit(expf), outcome_lit(obs["outcome"]))


def enc_runner(case, obs, cmplog):
    kind = {"pool": 0, "executor": 1, "mock": 2}[case["runner"]]
    mw = "None" if case["max_workers"] is None else "(Some (%d)%%Z)" % case["max_workers"]
    return "(%d%%nat, %d%%nat, %s, %s, %s, %s, %s, %s)" % (kind, case["cpu"], mw, nlist(case["labels"]), nlist(case["fail"]),
                                                            nlist(obs["log"]), outcome_lit(obs["outcome"]), "true" if cmplog else "false")


def parse_bad(out):
    if "=" not in out:
        return None
    txt = out[out.index("="):].split(":")[0]
    return [int(x) for x in txt.replace("=", " ").replace("[", " ").replace("]", " ").replace(";", " ").replace("%nat", " ").split()]


# ------------------------------------------------------------------------------------------------ harness driver
def run_harness(ck, merge_cases, runner_cases):
    """split the work over a few child processes; returns (merge_obs by id, runner_obs by id, errors)"""
    import subprocess
    from vlib.common import VERIF
    nshard = 6
    jobs = []
    for s in range(nshard):
        doc = {"merge": merge_cases[s::nshard], "runner": runner_cases[s::nshard]}
        fin, fout = os.path.join(ck.scratch, "h%d_in.json" % s), os.path.join(ck.scratch, "h%d_out.json" % s)
        json.dump(doc, open(fin, "w"))
        p = subprocess.Popen(["timeout", "600", "/venv/bin/python", "-W", "ignore", os.path.join(VERIF, "checks", "c19_harness.py"), fin, fout],
                             env=ck.pyenv(), cwd=ck.scratch, stdout=subprocess.PIPE, stderr=subprocess.STDOUT, text=True)
        jobs.append((p, fout))
    mobs, robs, errors = {}, {}, []
    for p, fout in jobs:
        out = p.communicate()[0]
        if p.returncode != 0 or not os.path.exists(fout):
            errors.append("harness rc=%s: %s" % (p.returncode, out[-600:]))
            continue
        doc = json.load(open(fout))
        for o in doc["merge"]:
            mobs[o["id"]] = o
        for o in doc["runner"]:
            robs[o["id"]] = o
    return mobs, robs, errors


def main(argv):
    ck = Check("C19", argv)
    ck.rule = ("merge cases = (directory contents, sources, targets, split): k=1..4 targets x split=2..5 x every subset of "
               "pre-existing targets, plus missing sources, inconsistent counts, split<=1, k=0, repeated sources, a target that is a "
               "source; contents are integer arrays (multiples of 60, length 2..5) so every mean is exact; runner cases = (helper, "
               "argument list incl. repeated arguments, workers); non-trivial = at least one job / at least one file involved; "
               "distinct = distinct case content")
    ck.trusted = ["Coq 8.16.1 kernel + vm_compute", "checks/c19.py + checks/c19_harness.py + checks/c19_sim.py (marker-file simulation, "
                  "directory snapshots via np.loadtxt, case encoding)",
                  "model coq/Model/Batch.v is hand-written: tied to simulations_utility only by correspondence",
                  "library behaviour as premises of the runner theorems: Pool.imap_unordered (>=1 process, chunksize>=1) yields func on a "
                  "permutation of the iterable; ProcessPoolExecutor runs every submitted call once and map yields results in order",
                  "np.loadtxt/np.savetxt round-trip 1-d float arrays exactly (a one-entry file loads as a 0-d array, handled by the code since fix 13 of /repo); os.path.isfile = 'path holds a file'",
                  "paths are abstract identifiers: two different strings name two different files"]
    ck.assume = ["target paths are pairwise distinct (the code does not check this; with a repeated target the later group wins)",
                 "real process scheduling is sampled, not enumerated: the theorem quantifies over every order via pool_order/exec_order",
                 "correspondence uses integer contents with exact means; float rounding of the sum/division is the entry type's vadd/vdiv"]

    if ck.replay:
        doc = json.load(open(ck.replay))["replay"]
        if "case" not in doc:
            print("replay: no concrete input stored (%s)" % (doc.get("theorem") or doc.get("correspondence")))
            return 0
        case = doc["case"]
        kind = doc["kind"]
        mobs, robs, errors = run_harness(ck, [case] if kind == "merge" else [], [case] if kind == "runner" else [])
        obs = (mobs if kind == "merge" else robs).get(case["id"])
        why = errors[0] if errors else (merge_oracle(case, obs) if kind == "merge" else runner_oracle(case, obs))
        print("replay:", kind, {k: case[k] for k in case if k not in ("files",)}, "->", obs and obs["outcome"], "oracle:", why)
        import shutil
        shutil.rmtree(ck.scratch, ignore_errors=True)
        return 1 if why else 0

    bad = ck.hygiene()
    if bad:
        ck.report("hygiene", "forbidden construct in the Coq development: " + "; ".join(bad[:5]), {"theorem": "hygiene", "where": bad}, False)
    proofs_ok, failing, out = ck.coq_props()

    merge_cases, runner_cases = gen_merge(ck), gen_runner(ck)
    mobs, robs, errors = run_harness(ck, merge_cases, runner_cases)
    ck.oblige("harness ran the real helpers on every case", not errors)

    # ------------------------------------------------------------------ direct oracle
    oracle_fail = None
    for c in merge_cases:
        o = mobs.get(c["id"])
        if o is None:
            continue
        ck.count("merge:" + c["family"], 1, key=json.dumps([c["files"], c["sources"], c["targets"], c["split"]], sort_keys=True),
                 sample={"sources": c["sources"], "targets": c["targets"], "split": c["split"], "pre_existing_targets":
                         [t for t in c["targets"] if str(t) in c["files"]], "outcome": o["outcome"]})
        if c["in_domain"]:
            why = merge_oracle(c, o)
            if why and oracle_fail is None:
                oracle_fail = ("merge", c, why)
    for c in runner_cases:
        o = robs.get(c["id"])
        if o is None:
            continue
        ck.count("runner:" + c["family"], 1, key=(c["runner"], tuple(c["labels"]), c["cpu"], c["max_workers"]) if c["labels"] else None,
                 sample={"runner": c["runner"], "jobs": len(c["labels"]), "cpu": c["cpu"], "max_workers": c["max_workers"],
                         "outcome": o["outcome"], "calls": len(o["log"])})
        if c["in_domain"]:
            why = runner_oracle(c, o)
            if why and oracle_fail is None:
                oracle_fail = ("runner", c, why)
    if errors and oracle_fail is None:
        ck.report("harness", "the harness running the real helpers failed or timed out: %s" % errors[0][:300],
                  {"correspondence": "C19 harness", "log": errors[0]}, False)
    ck.oblige("direct oracle (once-per-argument, exact means, refusal leaves the directory untouched) on %d cases"
              % (len(mobs) + len(robs)), oracle_fail is None)

    # ------------------------------------------------------------------ model side, inside Coq
    mism = []     # (kind, case, note)
    m_items, m_idx = [], []
    for c in merge_cases:
        o = mobs.get(c["id"])
        if o is None:
            continue
        lit = enc_merge(c, o)
        if lit is None:
            mism.append(("merge", c, "the directory holds non-integer or unexpected content after the call"))
        else:
            m_items.append(lit); m_idx.append(c)
    r_items, r_idx = [], []
    for c in runner_cases:
        o = robs.get(c["id"])
        if o is None:
            continue
        cmplog = not c["fail"] or c["runner"] == "mock"     # with a failing call the pools' call sets are schedule dependent
        r_items.append(enc_runner(c, o, cmplog)); r_idx.append(c)
    shards = []
    per = 150
    for s in range(0, len(m_items), per):
        shards.append(("c19_m%d" % (s // per), PRELUDE + "Definition cases : list mcase :=\n " + coq_list(m_items[s:s + per]) +
                       ".\nDefinition result := bad mcheck 0 cases.\nEval vm_compute in result.\n", m_idx[s:s + per], "merge"))
    for s in range(0, len(r_items), per):
        shards.append(("c19_r%d" % (s // per), PRELUDE + "Definition cases : list rcase :=\n " + coq_list(r_items[s:s + per]) +
                       ".\nDefinition result := bad rcheck 0 cases.\nEval vm_compute in result.\n", r_idx[s:s + per], "runner"))
    build_err = None
    for (name, rc, out2), (_, _, idx, kind) in zip(ck.coq_eval_many([(n, t) for n, t, _, _ in shards]), shards):
        b = parse_bad(out2) if rc == 0 else None
        if b is None:
            build_err = (name, out2[-500:])
            continue
        for i in b:
            mism.append((kind, idx[i], "model and implementation disagree"))
    real_mism = []
    for kind, c, note in mism:
        if c["in_domain"]:
            real_mism.append((kind, c, note))
        else:
            ck.notes.append("model and implementation differ on the out-of-domain case %s/%s (not a violation)" % (kind, c["family"]))
    ck.oblige("correspondence model=implementation on %d merge + %d runner cases" % (len(m_items), len(r_items)),
              not real_mism and not build_err)
    ck.exhaustive = False
    ck.extra["exhaustive_part"] = "every subset of pre-existing targets for k<=4, split 2..5"

    # ------------------------------------------------------------------ verdict
    if oracle_fail:
        kind, c, why = oracle_fail
        o = (mobs if kind == "merge" else robs)[c["id"]]
        desc = ("post_process_split(sources=%s, targets=%s, split=%d) with pre-existing targets %s" % (
                    c["sources"], c["targets"], c["split"], [t for t in c["targets"] if str(t) in c["files"]])
                if kind == "merge" else "%s runner on %d jobs (cpu=%s, max_workers=%s)" % (c["runner"], len(c["labels"]), c["cpu"], c["max_workers"]))
        ck.report("oracle:" + kind, "%s: %s" % (desc, why), {"kind": kind, "case": c, "why": why, "observed_outcome": o["outcome"]})
    else:
        if not proofs_ok:
            ck.report("proof:" + str(failing), "proof obligation no longer checks: %s" % failing, {"theorem": failing, "log": out[-1500:]}, False)
        if real_mism:
            kind, c, note = real_mism[0]
            ck.report("corr", "%s on the %s case %s; the property's own oracle passes on every explored input"
                      % (note, kind, {k: c[k] for k in c if k != "files"}), {"correspondence": "C19 " + kind, "kind": kind, "case": c}, False)
        elif build_err:
            ck.report("corr-build", "correspondence file failed to compile: %s" % build_err[1], {"correspondence": build_err[0], "log": build_err[1]}, False)
    return ck.finish()


if __name__ == "__main__":
    sys.exit(main(sys.argv[1:]))
