"""C01 — every layer-based backend applies exactly the layered Kronecker product.
Theorems: coq/Props/C01.v over Model/Backends.v (+ Base/Mat.v, Base/State.v).
Tie (M): exact correspondence — the Gallina model of StandardBackend / EfficientBackend / BackendForOnes is evaluated
inside Coq (vm_compute over Gaussian integers) on the same layers and input vector as the implementation; compared are the
result vector (exactly), the contract strings and operand shapes seen by a wrapper around backend.oe.contract, and the
exception class.  Beyond the qubit count where the vector is affordable in Coq only the planning pass of the model is
evaluated (strings / shapes) and the vector is checked by the direct oracle.
Direct oracle (independent of the model and of np.kron): np.tensordot slot application; also psi0 bytes unchanged,
linearity spot checks, and BinaryBackend fed the same matrices item by item."""
import sys, os, json, itertools, copy, math, time
import numpy as np
from vlib.common import Check, coq_list, VERIF

LIMIT = 2 ** 50
ERRS = ["IndexError", "ValueError", "AssertionError", "AttributeError", "TypeError", "FileNotFoundError", "KeyError", "OutOfFuel"]

PRELUDE = r"""
From Coq Require Import List Bool Arith NArith ZArith String Ascii.
Require Import QG.Base.Res QG.Base.State QG.Base.Mat QG.Base.ZI QG.Model.Backends.
Import ListNotations.
Local Open Scope Z_scope.
(* ---- decoders for the case encoding ---- *)
Inductive ecode := C2 (l : list ZI) | C4 (l : list ZI) | C1.
Definition b2n (b : bool) : nat := if b then 1%nat else 0%nat.
Definition mk2 (l : list ZI) : m2 ZI := fun r c => nth (2 * b2n r + b2n c)%nat l zi0.
Definition mk4 (l : list ZI) : m4 ZI := fun r c =>
  nth (8 * b2n (fst r) + 4 * b2n (snd r) + 2 * b2n (fst c) + b2n (snd c))%nat l zi0.
Definition dec (e : ecode) : entry ZI := match e with C2 l => En2 (mk2 l) | C4 l => En4 (mk4 l) | C1 => EnOne end.
Fixpoint build (w : nat) (l : list ZI) : tree ZI * list ZI :=
  match w with
  | O => match l with [] => (Lf zi0, []) | x :: r => (Lf x, r) end
  | S w' => let (t1, l1) := build w' l in let (t2, l2) := build w' l1 in (Nd t1 t2, l2)
  end.
Definition st_of (n : nat) (l : list ZI) : bits -> ZI := let t := fst (build n l) in fun b => tget t b.
Definition to_list (n : nat) (s : bits -> ZI) : list ZI := map s (all_bits n).
Fixpoint veq (a b : list ZI) : bool :=
  match a, b with [], [] => true | x :: a', y :: b' => zieqb x y && veq a' b' | _, _ => false end.
Definition isid := is_id_eqb zi0 zi1 zieqb.
Definition Exec := exec ZI ziadd zimul.
Definition EffPlan := eff_plan ZI zi1 zimul.
Definition OnesPlan := ones_plan ZI zi1 zimul isid.
Definition Std := std ZI zi1 ziadd zimul.
(* ---- comparison ---- *)
Definition leg_eqb (a b : nat * bool) : bool := Nat.eqb (fst a) (fst b) && Bool.eqb (snd a) (snd b).
Fixpoint legs_eqb (a b : list (nat * bool)) : bool :=
  match a, b with [], [] => true | x :: a', y :: b' => leg_eqb x y && legs_eqb a' b' | _, _ => false end.
Fixpoint calls_eqb (a b : list (string * list (nat * bool))) : bool :=
  match a, b with
  | [], [] => true
  | x :: a', y :: b' => String.eqb (fst x) (fst y) && legs_eqb (snd x) (snd y) && calls_eqb a' b'
  | _, _ => false
  end.
Definition err_code (e : err) : nat :=
  match e with IndexError => 0 | ValueError => 1 | AssertionError => 2 | AttributeError => 3 | TypeError => 4
             | FileNotFoundError => 5 | KeyError => 6 | OutOfFuel => 7 end%nat.
Inductive bk := BStd | BEff (mn op : nat) | BOnes.
Inductive expect :=
| XVec (v : list ZI) (calls : list (string * list (nat * bool)))
| XCalls (calls : list (string * list (nat * bool)))
| XEye
| XErr (e : err).
Definition check_plan (n : nat) (p : res (list (lplan ZI))) (psi : list ZI) (x : expect) : bool :=
  match p, x with
  | Ok ps, XVec v calls => calls_eqb (calls_of ZI ps) calls && veq (to_list n (Exec n ps (st_of n psi))) v
  | Ok ps, XCalls calls => calls_eqb (calls_of ZI ps) calls
  | Err a, XErr b => Nat.eqb (err_code a) (err_code b)
  | _, _ => false
  end.
Definition check1 (c : bk * nat * list (list ecode) * list ZI * expect) : bool :=
  let '(b, n, ls, psi, x) := c in
  let ls := map (map dec) ls in
  match b with
  | BStd => match Std n ls (st_of n psi), x with
            | Ok (OutVec s), XVec v _ => veq (to_list n s) v
            | Ok OutEye, XEye => true
            | Err a, XErr b => Nat.eqb (err_code a) (err_code b)
            | _, _ => false
            end
  | BEff mn op => check_plan n (EffPlan n mn op ls) psi x
  | BOnes => check_plan n (OnesPlan n ls) psi x
  end.
Fixpoint bad (i : nat) (cs : list (bk * nat * list (list ecode) * list ZI * expect)) : list nat :=
  match cs with [] => [] | c :: r => if check1 c then bad (S i) r else i :: bad (S i) r end.
"""

# ------------------------------------------------------------------------------------------------ generators
VALS = [(1, 0), (-1, 0), (0, 1), (0, -1)]
ID2 = [(1, 0), (0, 0), (0, 0), (1, 0)]


def gen_mat(rng, d, kind):
    """row-major list of d*d Gaussian integers from {0,+-1,+-i}; returns (values, max row abs sum >= 1)"""
    if kind == "perm":
        perm = list(range(d)); rng.shuffle(perm)
        m = [(0, 0)] * (d * d)
        for i, j in enumerate(perm):
            m[i * d + j] = rng.choice(VALS)
        return m, 1
    cap = 2 if d == 2 else rng.choice([2, 3, 4])
    m, worst = [], 1
    for i in range(d):
        k = rng.randint(0 if rng.random() < 0.15 else 1, cap)     # an occasional zero row: singular, non-unitary
        cols = rng.sample(range(d), min(k, d))
        row = [(0, 0)] * d
        for j in cols:
            row[j] = rng.choice(VALS)
        m += row
        worst = max(worst, len(cols))
    return m, worst


def entry2(rng, kind="dense", ident=False):
    if ident:
        return ["2", list(ID2), rng.choice(["eye", "cplx", "int"])]
    m, _ = gen_mat(rng, 2, kind)
    if m == ID2:   # an accidental exact identity stays one (it *is* an identity for the code as well)
        return ["2", m, "cplx"]
    return ["2", m, "cplx"]


def entry4(rng, kind="dense"):
    m, _ = gen_mat(rng, 4, kind)
    return ["4", m, "cplx"]


def all_shapes(n):
    """every tiling of n qubits by blocks '2' (one entry), 'a' ([G,1]) and 'b' ([1,G])"""
    if n == 0:
        return [[]]
    out = [["2"] + s for s in all_shapes(n - 1)]
    if n >= 2:
        for s in all_shapes(n - 2):
            out.append(["a"] + s); out.append(["b"] + s)
    return out


def rand_shape(rng, n, p2):
    s, q = [], 0
    while q < n:
        if q + 1 < n and rng.random() < p2:
            s.append(rng.choice("ab")); q += 2
        else:
            s.append("2"); q += 1
    return s


def layer_of_shape(rng, shape, pid=0.0, kind="dense", idmask=None):
    """idmask: optional iterator of booleans consumed by the one-qubit entries"""
    layer = []
    for blk in shape:
        if blk == "2":
            ident = next(idmask) if idmask is not None else (rng.random() < pid)
            layer.append(entry2(rng, kind, ident))
        elif blk == "a":
            layer += [entry4(rng, kind), ["1"]]
        else:
            layer += [["1"], entry4(rng, kind)]
    return layer


def rowsum(e):
    if e[0] == "1":
        return 1
    d = 2 if e[0] == "2" else 4
    return max(1, max(sum(1 for x in e[1][i * d:(i + 1) * d] if x != (0, 0) and x != [0, 0]) for i in range(d)))


def magnitude_bound(layers, psi_max=4):
    b = psi_max
    for l in layers:
        for e in l:
            b *= rowsum(e)
    return b


def gen_psi(rng, n):
    if n >= 14:      # wide vectors are drawn by numpy from a recorded seed (never sent to Coq)
        return {"seed": rng.getrandbits(31), "n": n}
    return [(rng.randint(-2, 2), rng.randint(-2, 2)) for _ in range(2 ** n)]


# ------------------------------------------------------------------------------------------------ implementation side
def np_entry(e):
    if e[0] == "1":
        return 1
    d = 2 if e[0] == "2" else 4
    if len(e) > 2 and e[2] == "eye":
        return np.eye(2)
    if len(e) > 2 and e[2] == "int":
        return np.array([[1, 0], [0, 1]])
    return np.array([complex(a, b) for a, b in e[1]], dtype=complex).reshape(d, d)


def np_layers(layers):
    return [[np_entry(e) for e in l] for l in layers]


def np_psi(psi):
    if isinstance(psi, dict):
        g = np.random.default_rng(psi["seed"])
        return (g.integers(-2, 3, 2 ** psi["n"]) + 1j * g.integers(-2, 3, 2 ** psi["n"])).astype(complex)
    return np.array([complex(a, b) for a, b in psi], dtype=complex)


def slots_of(layers):
    """(matrix, qubits) per block, read off the layer shape only (no kron)"""
    items = []
    for l in layers:
        q, k = 0, 0
        while k < len(l):
            e = l[k]
            if e[0] == "2":
                items.append((np_entry(e), [q])); q += 1; k += 1
            elif e[0] == "4":
                items.append((np_entry(e), [q, q + 1])); q += 2; k += 2   # [G, 1]
            else:
                items.append((np_entry(l[k + 1]), [q, q + 1])); q += 2; k += 2   # [1, G]
    return items


def apply_ref(items, psi, n):
    psi = psi.copy().reshape([2] * n)
    for M, q in items:
        M = np.asarray(M, dtype=complex)
        if len(q) == 1:
            psi = np.moveaxis(np.tensordot(M, psi, axes=([1], [q[0]])), 0, q[0])
        else:
            psi = np.moveaxis(np.tensordot(M.reshape(2, 2, 2, 2), psi, axes=([2, 3], [q[0], q[1]])), [0, 1], [q[0], q[1]])
    return psi.reshape(-1)


class Impl:
    """runs the implementation with oe.contract wrapped"""
    def __init__(self):
        import quantum_gates._simulation.backend as B
        self.B = B
        self.calls = []
        self.orig = B.oe.contract

        def wrapper(cs, *ops, **kw):
            self.calls.append((cs, [tuple(np.shape(o)) for o in ops]))
            return self.orig(cs, *ops, **kw)
        self.wrapper = wrapper

    def make(self, case):
        B = self.B
        if case["backend"] == "std":
            return B.StandardBackend(case["n"])
        if case["backend"] == "eff":
            return B.EfficientBackend(case["n"], case["mn"], case["op"])
        return B.BackendForOnes(case["n"])

    def run(self, case, psi=None):
        """returns dict(kind= 'vec'|'eye'|'err'|'other', vec=..., calls=..., unchanged=bool)"""
        layers = np_layers(case["layers"])
        psi0 = np_psi(case["psi"]) if psi is None else psi
        before = psi0.tobytes()
        self.calls = []
        self.B.oe.contract = self.wrapper
        try:
            out = self.make(case).statevector(layers, psi0)
        except Exception as e:  # noqa
            return {"kind": "err", "err": type(e).__name__, "calls": self.calls, "unchanged": psi0.tobytes() == before}
        finally:
            self.B.oe.contract = self.orig
        unchanged = psi0.tobytes() == before
        n = case["n"]
        try:
            arr = np.asarray(out, dtype=complex)
        except Exception as e:  # noqa
            return {"kind": "other", "what": "result not convertible to complex: %s" % type(e).__name__, "calls": self.calls, "unchanged": unchanged}
        if arr.ndim == 2 and case["backend"] == "std" and not case["layers"]:
            return {"kind": "eye" if np.array_equal(arr, np.eye(2 ** n)) else "other", "what": "depth-0 result", "calls": self.calls, "unchanged": unchanged}
        if arr.shape != (2 ** n,):
            return {"kind": "other", "what": "result shape %s" % (arr.shape,), "calls": self.calls, "unchanged": unchanged}
        return {"kind": "vec", "arr": arr, "calls": self.calls, "unchanged": unchanged}


def canon_calls(calls):
    """captured (string, operand shapes) -> [(string, [(width, has_matrix)])]; None if it is not of the expected form"""
    out = []
    for cs, shapes in calls:
        try:
            lhs, res = cs.split("->")
            ops = lhs.split(",")
            tensor = ops[-1]
            mats = ops[:-1]
            if len(ops) != len(shapes) or len(tensor) != len(shapes[-1]) or len(set(tensor)) != len(tensor):
                return None
            legs = []
            for ch, dim in zip(tensor, shapes[-1]):
                w = int(dim).bit_length() - 1
                if 2 ** w != dim:
                    return None
                owners = [k for k, m in enumerate(mats) if len(m) == 2 and m[1] == ch]
                if len(owners) > 1:
                    return None
                if owners and tuple(shapes[owners[0]]) != (dim, dim):
                    return None
                legs.append((w, bool(owners)))
            if sum(1 for _, h in legs if h) != len(mats):
                return None
            out.append((cs, legs))
        except Exception:  # noqa
            return None
    return out


def integral(arr):
    re, im = arr.real, arr.imag
    return bool(np.all(re == np.round(re)) and np.all(im == np.round(im)) and np.all(np.abs(re) < 2.0 ** 53) and np.all(np.abs(im) < 2.0 ** 53))


def ints_of(arr):
    return [(int(a), int(b)) for a, b in zip(arr.real, arr.imag)]


# ------------------------------------------------------------------------------------------------ Coq encoding
def zi(p):
    return "(%d,%d)" % (p[0], p[1])


def enc_entry(e):
    if e[0] == "1":
        return "C1"
    return ("C2 " if e[0] == "2" else "C4 ") + coq_list([zi(x) for x in e[1]])


def enc_calls(calls):
    return coq_list(['("%s"%%string, %s)' % (cs, coq_list(["(%d%%nat,%s)" % (w, "true" if h else "false") for w, h in legs])) for cs, legs in calls])


def enc_case(case, res, cmpvec):
    b = {"std": "BStd", "ones": "BOnes"}.get(case["backend"]) or "BEff %d %d" % (case["mn"], case["op"])
    ls = coq_list([coq_list([enc_entry(e) for e in l]) for l in case["layers"]])
    if res["kind"] == "err":
        x = "XErr %s" % (res["err"] if res["err"] in ERRS else "OutOfFuel")
        if res["err"] == "Exception":
            x = "XErr ValueError"    # the model maps the generic Exception of _kronecker([]) to ValueError
    elif res["kind"] == "eye":
        x = "XEye"
    elif res["kind"] == "vec":
        calls = canon_calls(res["calls"])
        if calls is None:
            calls = [("<unparsed>", [])]
        if cmpvec:
            x = "XVec %s %s" % (coq_list([zi(p) for p in res["ints"]]), enc_calls(calls))
        else:
            x = "XCalls %s" % enc_calls(calls)
    else:
        x = "XErr OutOfFuel"
    psi = coq_list([zi(p) for p in case["psi"]]) if cmpvec and res["kind"] == "vec" else "[]"
    return "(%s, %d%%nat, %s, %s, %s)" % (b, case["n"], ls, psi, x)


# ------------------------------------------------------------------------------------------------ case families
def mk(family, backend, n, layers, psi, mn=3, op=4, domain=True, cmp="vec"):
    return {"family": family, "backend": backend, "n": n, "mn": mn, "op": op, "layers": layers, "psi": psi, "domain": domain, "cmp": cmp}


def backends_for(n, std_max):
    out = [("eff", 3, 4), ("ones", 0, 0)]
    if n <= std_max:
        out.insert(0, ("std", 0, 0))
    return out


def gen_cases(ck):
    rng, quick = ck.rng, ck.tier == "quick"
    cases = []
    STD_COQ = 6                       # StandardBackend evaluated inside Coq up to this n (8^n work)
    VEC_COQ = 11 if quick else 13     # result vectors compared inside Coq up to this n

    def add(family, n, layers, mn=3, op=4, backends=None, psi=None, domain=True):
        psi = psi if psi is not None else gen_psi(rng, n)
        if domain and magnitude_bound(layers) > LIMIT:
            return
        for b, bmn, bop in (backends or backends_for(n, STD_COQ)):
            if b == "eff":
                bmn, bop = mn, op
            cmpv = "vec" if n <= (STD_COQ if b == "std" else VEC_COQ) else "calls"
            cases.append(mk(family, b, n, layers, psi, bmn, bop, domain, cmpv))

    # 1. every layer shape (every position of a two-qubit block, both placeholder sides), n <= 6 (7 thorough)
    for n in range(1, (6 if quick else 7) + 1):
        for shape in all_shapes(n):
            layers = [layer_of_shape(rng, shape, pid=0.15)]
            add("shapes_exhaustive", n, layers)
            if n >= 4:   # shapes against a non-default chunk setting as well (blocks straddling chunk boundaries)
                mn, op = rng.randint(1, 3), rng.randint(1, 3)
                add("shapes_exhaustive", n, layers, mn, op, backends=[("eff", mn, op)])
    # 2. identity masks, exhaustive, for the identity-skipping regime n >= 7 (BackendForOnes) and below it
    for n in ([5, 7, 8] if quick else [5, 6, 7, 8, 9, 10]):
        for mask in range(2 ** n):
            bits = [bool(mask >> k & 1) for k in range(n)]
            layers = [layer_of_shape(rng, ["2"] * n, idmask=iter(bits))]
            add("idmask_exhaustive", n, layers, backends=[("ones", 0, 0)] + ([("eff", 3, 4)] if mask % 16 == 0 else []))
    for n in ([7, 8, 9] if quick else [7, 8, 9, 10, 11]):     # masks with two-qubit blocks in between
        for _ in range(40 if quick else 150):
            shape = rand_shape(rng, n, 0.25)
            k1 = sum(1 for s in shape if s == "2")
            mask = rng.getrandbits(k1) if rng.random() < 0.8 else (2 ** k1 - 1)
            bits = [bool(mask >> k & 1) for k in range(k1)]
            add("idmask_blocks", n, [layer_of_shape(rng, shape, idmask=iter(bits)) for _ in range(rng.randint(1, 2))],
                backends=[("ones", 0, 0)])
    # 3. BackendForOnes split thresholds 8 / 11 / 14 / 19 (runs of r non-identity terms, in the middle and at the end)
    runs = [6, 7, 8, 9, 10, 11, 12, 13, 14, 15, 18, 19, 20]
    for r in runs:
        for where in ("mid", "end", "all"):
            n = r + 1 if where != "all" else r
            if n < 7 or n > (20 if quick else 21) or (quick and n >= 18 and (r, where) not in ((18, "mid"), (19, "mid"), (19, "end"), (19, "all"))):
                continue
            reps = 1 if n > 14 else 2
            for rep in range(reps):
                kind = "perm" if n > 14 else "dense"
                run = [entry2(rng, kind) for _ in range(r)]
                for e in run:
                    if e[1] == ID2:
                        e[1] = [(0, 0), (1, 0), (1, 0), (0, 0)]
                idn = entry2(rng, ident=True)
                layer = run + [idn] if where == "mid" else ([idn] + run if where == "end" else run)
                add("ones_split_thresholds", n, [layer], backends=[("ones", 0, 0)])
        # a run containing a 4x4 term (a term is a matrix, not a qubit)
        n = r + 2
        if 7 <= n <= 15:
            run = [entry2(rng, "dense") for _ in range(r - 1)]
            for e in run:
                if e[1] == ID2:
                    e[1] = [(0, 0), (1, 0), (1, 0), (0, 0)]
            pos = rng.randint(0, r - 1)
            blk = [entry4(rng), ["1"]] if rng.random() < 0.5 else [["1"], entry4(rng)]
            layer = run[:pos] + blk + run[pos:] + [entry2(rng, ident=True)]
            add("ones_split_thresholds", n, [layer], backends=[("ones", 0, 0)])
    # 3b. the 19-term (4-way) split with identities around the run, n = 20..21 (thorough; quick keeps one n = 20 layout):
    #     both split sites (:529 when an identity follows the run, :589 at the end of the layer), runs of 18 (3-way, just
    #     below the threshold) and 19 terms, a 19-term run made of 18 2x2 and one 4x4 term, and a second run after the split
    def nonid_run(r):
        run = [entry2(rng, "perm") for _ in range(r)]
        for e in run:
            if e[1] == ID2:
                e[1] = [(0, 0), (1, 0), (1, 0), (0, 0)]
        return run
    idn = lambda: entry2(rng, ident=True)
    lay19 = [("I18I", lambda: [idn()] + nonid_run(18) + [idn()])]
    if not quick:
        lay19 += [("I19I", lambda: [idn()] + nonid_run(19) + [idn()]),
                  ("II19", lambda: [idn(), idn()] + nonid_run(19)),
                  ("19II", lambda: nonid_run(19) + [idn(), idn()]),
                  ("19IX", lambda: nonid_run(19) + [idn()] + nonid_run(1)),
                  ("XI19", lambda: nonid_run(1) + [idn()] + nonid_run(19)),
                  ("I19", lambda: [idn()] + nonid_run(19)),
                  ("19I", lambda: nonid_run(19) + [idn()]),
                  ("18+4x4,I", lambda: (lambda run, pos, blk: run[:pos] + blk + run[pos:] + [idn()])(
                      nonid_run(18), rng.randint(0, 18), [entry4(rng, "perm"), ["1"]] if rng.random() < 0.5 else [["1"], entry4(rng, "perm")])),
                  ("I,18+4x4", lambda: (lambda run, pos, blk: [idn()] + run[:pos] + blk + run[pos:])(
                      nonid_run(18), rng.randint(0, 18), [entry4(rng, "perm"), ["1"]] if rng.random() < 0.5 else [["1"], entry4(rng, "perm")]))]
    for _, f in lay19:
        layer = f()
        add("ones_split19_masks", len(layer), [layer], backends=[("ones", 0, 0)])
    # 4. EfficientBackend chunk settings (min, opt) in {1..5}^2, n over every regime switch
    for n in range(4, (11 if quick else 14)):
        for mn in range(1, 6):
            for op in range(1, 6):
                for _ in range(1 if quick else 2):
                    shape = rand_shape(rng, n, rng.choice([0.0, 0.3, 0.6]))
                    layers = [layer_of_shape(rng, shape, pid=0.1) for _ in range(rng.randint(1, 2))]
                    add("eff_chunk_settings", n, layers, mn, op, backends=[("eff", mn, op)])
    # 5. random layer lists, depth 1..3, all backends, n = 1..10 (13 thorough)
    for n in range(1, (11 if quick else 14)):
        for _ in range((14 if n <= 8 else 6) if quick else (40 if n <= 10 else 10)):
            depth = rng.randint(1, 3)
            pid = rng.choice([0.0, 0.3, 0.7, 1.0])
            layers = [layer_of_shape(rng, rand_shape(rng, n, rng.choice([0.0, 0.3, 0.5])), pid=pid) for _ in range(depth)]
            add("random_depth", n, layers)
    # 6. wide cases with phased permutations (bound 1), planning pass compared in Coq, vector by the oracle
    for n in ([14, 16, 19] if quick else [14, 15, 16, 17, 18, 19, 20, 21]):
        for _ in range(1 if quick else 2):
            layers = [layer_of_shape(rng, rand_shape(rng, n, 0.2), pid=0.1, kind="perm") for _ in range(2)]
            add("wide_perm", n, layers, backends=[("eff", 3, 4), ("ones", 0, 0), ("eff", 2, 3)][: 3 if not quick else 2])
    # 7. boundary of the 26-letter assertion and error paths the model predicts (in the model's domain, outside the theorem's)
    lay = lambda n: [layer_of_shape(rng, ["2"] * n, kind="perm")]
    add("assert_boundary", 13, lay(13), 1, 1, backends=[("eff", 1, 1)])
    add("assert_boundary", 14, lay(14), 1, 1, backends=[("eff", 1, 1)], domain=False)
    add("assert_boundary", 14, lay(14), 2, 1, backends=[("eff", 2, 1)])      # 14 slices, last merged: 13 operands (eff_nchunks 14 2 1 = 13)
    add("assert_boundary", 15, lay(15), 2, 1, backends=[("eff", 2, 1)], domain=False)   # 14 operands: the assertion fires (C01_eff_assertion_exact)
    add("assert_boundary", 14, lay(14), 2, 2, backends=[("eff", 2, 2)])      # 7 operands
    add("assert_boundary", 16, lay(16), 5, 4, backends=[("eff", 5, 4)])      # opt < min, full-size last slice merged: 3 operands
    add("assert_boundary", 8, lay(8), 3, 0, backends=[("eff", 3, 0)], domain=False)
    for b in ("std", "eff", "ones"):
        cases.append(mk("malformed", b, 3, [], gen_psi(rng, 3), domain=False))
    add("malformed", 4, [[entry2(rng), ["1"], ["1"], entry2(rng)]], domain=False)
    add("malformed", 4, [lay(4)[0] + [entry2(rng)]], domain=False)
    add("malformed", 5, [lay(4)[0]], domain=False)
    add("malformed", 8, [lay(7)[0]], domain=False)
    add("malformed", 8, [lay(8)[0] + [entry2(rng)]], domain=False)
    add("malformed", 3, [lay(3)[0], lay(2)[0]], domain=False)
    add("malformed", 7, [[["1"]] * 7], domain=False)
    return cases


# ------------------------------------------------------------------------------------------------ _chunk_list operand count
CHUNK_PRELUDE = r"""
From Coq Require Import List Bool Arith.
Require Import QG.Base.Res QG.Model.Backends QG.Proofs.BackendsEffFull.
Import ListNotations.
Definition err_code (e : err) : nat :=
  match e with IndexError => 0 | ValueError => 1 | AssertionError => 2 | AttributeError => 3 | TypeError => 4
             | FileNotFoundError => 5 | KeyError => 6 | OutOfFuel => 7 end.
Fixpoint leqb (a b : list nat) : bool :=
  match a, b with [] , [] => true | x :: a', y :: b' => Nat.eqb x y && leqb a' b' | _, _ => false end.
(* (n, min, opt, expected): the model's chunks of [0..n-1] have the implementation's lengths, concatenate to the list, and
   in the domain of C01_chunk_count their number is eff_nchunks n min opt; or the same exception *)
Definition check1 (c : nat * nat * nat * (list nat + nat)) : bool :=
  let '(n, mn, op, x) := c in
  match chunk_list (seq 0 n) mn op, x with
  | Ok cs, inl lens => leqb (map (@length nat) cs) lens && leqb (concat cs) (seq 0 n)
                       && (if (1 <=? op) && (2 * op <=? n) then Nat.eqb (length cs) (eff_nchunks n mn op) else true)
  | Err e, inr k => Nat.eqb (err_code e) k
  | _, _ => false
  end.
Fixpoint bad (i : nat) (cs : list (nat * nat * nat * (list nat + nat))) : list nat :=
  match cs with [] => [] | c :: r => if check1 c then bad (S i) r else i :: bad (S i) r end.
"""


def nchunks_formula(n, mn, op):
    """eff_nchunks of Props/C01.v (C01_eff_nchunks_def), transcribed"""
    q, r = divmod(n, op)
    cnt = q if r == 0 else q + 1
    last = op if r == 0 else r
    return cnt - 1 if last < mn else cnt


def run_chunk_list(impl, n, mn, op):
    try:
        cs = impl.B.EfficientBackend(max(n, 1), mn, op)._chunk_list(list(range(n)), mn, op)
    except Exception as e:  # noqa
        return ("err", type(e).__name__)
    return ("ok", cs)


def chunk_count_cases(ck):
    quick = ck.tier == "quick"
    grid = [(n, mn, op) for n in range(0, 41 if quick else 61) for mn in range(0, 8) for op in range(0, 10)]
    grid += [(n, mn, op) for n in (52, 53, 54, 55, 64, 81, 100) for mn in (1, 2, 3, 7, 13, 30) for op in (1, 2, 3, 4, 9, 13, 26, 27, 50)]
    return grid


def chunk_count_check(ck, impl):
    """returns (coq shards [(name, body, idxs)], settings, [(setting, what)] where the implementation deviates from the closed formula)"""
    grid = chunk_count_cases(ck)
    enc, fails = [], []
    for (n, mn, op) in grid:
        kind, val = run_chunk_list(impl, n, mn, op)
        indom = op >= 1 and 2 * op <= n
        ck.count("chunk_count", 1, key=(n, mn, op) if indom else None,
                 sample={"n": n, "min": mn, "opt": op, "chunks": [len(c) for c in val] if kind == "ok" else val})
        if kind == "ok":
            lens = [len(c) for c in val]
            enc.append("(%d, %d, %d, inl %s)" % (n, mn, op, coq_list([str(x) for x in lens])))
            if indom:   # independent of the model: partition of the list, none empty, count = closed formula
                flat = [x for c in val for x in c]
                if flat != list(range(n)) or any(not c for c in val) or len(val) != nchunks_formula(n, mn, op):
                    fails.append(((n, mn, op), "EfficientBackend._chunk_list(range(%d), %d, %d) returned chunk lengths %s, expected %d non-empty chunks partitioning the list"
                                  % (n, mn, op, lens, nchunks_formula(n, mn, op))))
        else:
            if indom:
                fails.append(((n, mn, op), "EfficientBackend._chunk_list(range(%d), %d, %d) raised %s on in-domain input" % (n, mn, op, val)))
            enc.append("(%d, %d, %d, inr %d)" % (n, mn, op, ERRS.index(val) if val in ERRS else 7))
    shards = []
    for k in range(0, len(enc), 500):
        body = CHUNK_PRELUDE + "Definition cases : list (nat * nat * nat * (list nat + nat)) :=\n " + coq_list(enc[k:k + 500]) + ".\n"
        body += "Definition result := bad 0 cases.\nEval vm_compute in result.\n"
        shards.append(("c01_chunks_%d" % (k // 500), body, list(range(k, min(k + 500, len(enc))))))
    return shards, grid, fails


def chunk_probe(ck, impl, settings):
    """a deviating chunk rule is a violation of the property only if some statevector call goes wrong: search the deviating
    settings (many-chunk regime, n <= 16) with the direct oracle; returns (case, why) or None"""
    tried = 0
    for (n, mn, op) in sorted(settings):
        if not (4 <= n <= 16 and mn >= 1 and op >= 1 and 2 * op <= n and 2 * nchunks_formula(n, mn, op) <= 26):
            continue
        tried += 1
        if tried > 60:
            break
        for p2 in (0.0, 0.4):
            layers = [layer_of_shape(ck.rng, rand_shape(ck.rng, n, p2), pid=0.1, kind="perm")]
            case = mk("chunk_probe", "eff", n, layers, gen_psi(ck.rng, n), mn, op)
            why = oracle_check(impl, case, impl.run(case), ck.rng, extra=False)
            ck.count("oracle_tensordot", 1)
            if why:
                return case, why
    return None


# ------------------------------------------------------------------------------------------------ main
def describe(case):
    return {"backend": case["backend"], "n": case["n"], "min_chunk": case["mn"], "opt_chunk": case["op"],
            "layers": case["layers"], "psi": case["psi"], "family": case["family"]}


def short(case):
    shape = ["".join({"2": "2", "4": "4", "1": "1"}[e[0]] for e in l) for l in case["layers"]]
    ids = ["".join("I" if (e[0] == "2" and e[1] == ID2) else "." for e in l) for l in case["layers"]]
    return {"backend": case["backend"], "n": case["n"], "chunks": (case["mn"], case["op"]) if case["backend"] == "eff" else None,
            "entries": shape, "identities": ids}


def oracle_check(impl, case, res, rng, extra=True):
    """direct statement of the property on the implementation; returns None or a description of the failure"""
    n = case["n"]
    if res["kind"] != "vec":
        return "returned %s" % (res.get("err") or res.get("what") or res["kind"])
    psi0 = np_psi(case["psi"])
    ref = apply_ref(slots_of(case["layers"]), psi0, n)
    if not np.array_equal(res["arr"], ref):
        k = int(np.argmax(res["arr"] != ref))
        return "result differs from the layered product at amplitude %d: got %s, expected %s" % (k, res["arr"][k], ref[k])
    if not res["unchanged"]:
        return "the input vector psi0 was modified"
    if extra:
        # linearity: B(a*psi + phi) = a*B(psi) + B(phi), exact on Gaussian integers
        a = complex(rng.choice([2, -1, 1j, 1 + 1j, -2j]))
        phi = np_psi(gen_psi(rng, n))
        r2 = impl.run(case, psi=phi)
        r3 = impl.run(case, psi=a * psi0 + phi)
        if r2["kind"] != "vec" or r3["kind"] != "vec" or not np.array_equal(r3["arr"], a * res["arr"] + r2["arr"]):
            return "not linear in the input vector (a=%s)" % a
    return None


def binary_check(impl, case):
    n = case["n"]
    items = [[np.asarray(M, dtype=complex), list(q)] for M, q in slots_of(case["layers"])]
    psi0 = np_psi(case["psi"])
    ref = apply_ref(slots_of(case["layers"]), psi0, n)
    try:
        out = np.asarray(impl.B.BinaryBackend(n).statevector(copy.deepcopy(items), psi0), dtype=complex).reshape(-1)
    except Exception as e:  # noqa
        return "BinaryBackend raised %s: %s" % (type(e).__name__, str(e)[:80])
    if not np.array_equal(out, ref):
        return "BinaryBackend fed the same matrices item by item returns a different vector"
    return None


def float_family(ck):
    """floating-point layers with entries that are CLOSE to special values without being them (near-identity phases and
    perturbations, tiny and huge entries, non-symmetric matrices in both halves of the layer): every backend, the index-based
    one included, against the tensordot reference to 1e-12 relative (rounding is ~1e-15; an approximate identity / zero test
    inside a backend is 1e-5 .. 1e-8)"""
    import numpy as np
    from quantum_gates._simulation.backend import StandardBackend, EfficientBackend, BackendForOnes, BinaryBackend
    rng = np.random.default_rng(ck.seed + 177)
    fails = []

    def near_id():
        k = int(rng.integers(4)); eps = float(rng.choice([1e-4, 1e-6, 1e-7, 3e-9]))
        if k == 0: return np.diag([1.0, np.exp(1j * eps)])                     # a tiny virtual-Z-like phase
        if k == 1: return np.eye(2) + eps * (rng.normal(size=(2, 2)) + 1j * rng.normal(size=(2, 2)))
        if k == 2: return np.array([[np.cos(eps), -np.sin(eps)], [np.sin(eps), np.cos(eps)]], complex)   # tiny rotation, not symmetric
        return np.diag([1.0 + eps, 1.0 - eps]).astype(complex)

    def generic(d):
        return rng.normal(size=(d, d)) + 1j * rng.normal(size=(d, d))

    for n in ((2, 3, 4, 5, 6, 7, 8) if ck.tier == "quick" else (1, 2, 3, 4, 5, 6, 7, 8, 9, 10)):
        for rep in range(2 if ck.tier == "quick" else 5):
            layers = []
            for _ in range(int(rng.integers(1, 3))):
                l = []; k = 0
                while k < n:
                    r = rng.random()
                    if k + 1 < n and r < 0.2:
                        G = generic(4) if rng.random() < 0.6 else np.eye(4) + 1e-7 * generic(4)
                        l += [G, 1] if rng.random() < 0.5 else [1, G]; k += 2
                    else:
                        l.append(near_id() if r < 0.65 else generic(2)); k += 1
                layers.append(l)
            psi = rng.normal(size=2 ** n) + 1j * rng.normal(size=2 ** n)
            if rep % 2:       # a vector of tiny norm: the result is linear in the input, so it is tiny too -- and still complex
                psi = psi * complex(1e-20, 2e-20)
            items = []
            for l in layers:
                q, j = 0, 0
                while j < len(l):
                    e = l[j]
                    if isinstance(e, int):                       # [1, G]
                        items.append((l[j + 1], [q, q + 1])); q += 2; j += 2
                    elif e.shape == (4, 4):                      # [G, 1]
                        items.append((e, [q, q + 1])); q += 2; j += 2
                    else:
                        items.append((e, [q])); q += 1; j += 1
            ref = apply_ref(items, psi.astype(complex), n)
            tol = 1e-12 * (max(1.0, float(np.abs(ref).max())) if rep % 2 == 0 else float(np.abs(ref).max()))      # relative to the result's size for tiny inputs
            runs = [("StandardBackend", lambda: StandardBackend(n).statevector(copy.deepcopy(layers), psi.copy())),
                    ("BackendForOnes", lambda: BackendForOnes(n).statevector(copy.deepcopy(layers), psi.copy())),
                    ("BinaryBackend", lambda: BinaryBackend(n).statevector([[np.asarray(M, complex), list(q)] for M, q in items], psi.copy()))]
            if n >= 2:
                runs.append(("EfficientBackend", lambda: EfficientBackend(n).statevector(copy.deepcopy(layers), psi.copy())))
            for name, f in runs:
                ck.count("float_near_special_values", 1, key=(name, n, rep))
                try:
                    got = np.asarray(f(), complex).reshape(-1)
                except Exception as e:  # noqa
                    fails.append((name, n, "raised %s: %s" % (type(e).__name__, str(e)[:80]))); continue
                d = float(np.abs(got - ref).max())
                if not d <= tol:
                    fails.append((name, n, "differs from the layered product by %.3e (tolerance %.1e) on floating-point layers with near-identity entries" % (d, tol)))
    return fails


def reuse_family(ck):
    """one backend object used for several statevector() calls, with the SAME array objects updated in place between calls
    (identity -> non-identity and back) and with fresh arrays after the old ones were dropped: every call must still return the
    layered Kronecker product of the matrices as they are at call time"""
    import numpy as np, functools as ft, gc
    from quantum_gates._simulation.backend import StandardBackend, EfficientBackend, BackendForOnes
    rng = np.random.default_rng(ck.seed + 77)
    fails = []

    def pperm(d):
        M = np.zeros((d, d), complex)
        for i, j in enumerate(rng.permutation(d)):
            M[i, j] = [1, -1, 1j, -1j][int(rng.integers(4))]
        return M

    def ref(layers, psi):
        out = psi.astype(complex)
        for l in layers:
            out = ft.reduce(np.kron, l) @ out
        return out

    from quantum_gates._simulation.backend import BinaryBackend

    class BinaryAsLayers:            # the index-based backend fed the same layers item by item, ONE backend object for all calls
        __name__ = "BinaryBackend"
        def __init__(self, n): self.b = BinaryBackend(n); self.n = n
        def statevector(self, layers, psi):
            return self.b.statevector([[m, [k]] for l in layers for k, m in enumerate(l)], psi)
    BinaryAsLayers.__name__ = "BinaryBackend"

    for B, n in ((StandardBackend, 5), (EfficientBackend, 8), (BackendForOnes, 7), (BackendForOnes, 9), (BinaryAsLayers, 3), (BinaryAsLayers, 5)):
        be = B(n)
        mats = [np.eye(2, dtype=complex) if k % 2 == 0 else pperm(2) for k in range(n)]     # alternating identity / non-identity
        layers = [list(mats), [pperm(2) for _ in range(n)]]
        psi = (rng.integers(-2, 3, 2 ** n) + 1j * rng.integers(-2, 3, 2 ** n)).astype(complex)
        steps = []
        steps.append("first call")
        got = np.asarray(be.statevector(layers, psi), complex).ravel()
        ok = np.array_equal(got, ref(layers, psi))
        if not ok: fails.append((B.__name__, n, "first call"))
        # in-place update of the identity arrays (same objects, new values)
        for k in range(0, n, 2):
            mats[k][:] = pperm(2)
        got = np.asarray(be.statevector(layers, psi), complex).ravel()
        ck.count("backend_reuse_inplace_update", 1, key=(B.__name__, n, "inplace"))
        if not np.array_equal(got, ref(layers, psi)): fails.append((B.__name__, n, "second call after in-place update of matrices that were identities"))
        # and back to identities
        for k in range(0, n, 2):
            mats[k][:] = np.eye(2)
        got = np.asarray(be.statevector(layers, psi), complex).ravel()
        ck.count("backend_reuse_inplace_update", 1, key=(B.__name__, n, "back"))
        if not np.array_equal(got, ref(layers, psi)): fails.append((B.__name__, n, "third call after restoring identities in place"))
        # fresh arrays at (possibly) recycled addresses
        for rep in range(3):
            del layers, mats; gc.collect()
            mats = [pperm(2) if (k + rep) % 2 == 0 else np.eye(2, dtype=complex) for k in range(n)]
            layers = [list(mats)]
            got = np.asarray(be.statevector(layers, psi), complex).ravel()
            ck.count("backend_reuse_fresh_arrays", 1, key=(B.__name__, n, "fresh", rep))
            if not np.array_equal(got, ref(layers, psi)): fails.append((B.__name__, n, "call %d with freshly allocated arrays on a reused backend object" % (rep + 4)))
    return fails


def main(argv):
    ck = Check("C01", argv)
    ck.rule = ("a case = (backend, n, chunk setting, layer list, psi0) with Gaussian-integer matrices from {0,+-1,+-i} (row sums bounded, "
               "worst-case magnitude < 2^50 so complex128 arithmetic is exact) and Gaussian-integer psi0; non-trivial = at least one "
               "non-identity matrix in some layer; distinct = distinct (backend, n, chunk setting, layer shapes incl. placeholder sides, "
               "identity mask, matrix values hash)")
    ck.trusted = ["Coq 8.16.1 kernel + vm_compute",
                  "checks/c01.py harness: generators, case encoding/decoders (mk2, mk4, build, to_list), oe.contract wrapper",
                  "hand-written model coq/Model/Backends.v (tied to backend.py by correspondence only)",
                  "numpy primitives by their mathematical meaning: np.kron (= Mat.kron on big-endian bit indices), @ (= mv/mm), "
                  "reshape (row-major = concatenation of bit lists), opt_einsum.contract on the strings built by the code (= contractI)",
                  "copy.deepcopy isolates psi0 (checked at run time by comparing psi0 bytes, not proved)"]
    ck.assume = ["floating-point rounding is outside the model: correspondence uses exactly representable Gaussian integers",
                 "layers are Python lists of 2x2 / 4x4 ndarrays and the int placeholder 1"]
    impl = Impl()

    if ck.replay:
        doc = json.load(open(ck.replay))["replay"]
        if "chunk" in doc:
            n, mn, op = doc["chunk"]
            kind, val = run_chunk_list(impl, n, mn, op)
            lens = [len(c) for c in val] if kind == "ok" else val
            okc = kind == "ok" and [x for c in val for x in c] == list(range(n)) and all(val) and len(val) == nchunks_formula(n, mn, op)
            print("replay: _chunk_list(range(%d), %d, %d) ->" % (n, mn, op), lens, "| expected", nchunks_formula(n, mn, op), "chunks |", "holds" if okc else "VIOLATED")
            return 0 if okc else 1
        if "layers" not in doc:
            print("replay names a proof / correspondence obligation, nothing to execute:", doc.get("theorem") or doc.get("correspondence"))
            return 0
        case = {"backend": doc["backend"], "n": doc["n"], "mn": doc.get("min_chunk", 3), "op": doc.get("opt_chunk", 4),
                "layers": doc["layers"], "psi": doc["psi"] if isinstance(doc["psi"], dict) else [tuple(p) for p in doc["psi"]],
                "family": "replay", "cmp": "calls"}
        for l in case["layers"]:
            for e in l:
                if len(e) > 1:
                    e[1] = [tuple(x) for x in e[1]]
        res = impl.run(case)
        why = oracle_check(impl, case, res, ck.rng) if doc.get("check") != "binary" else binary_check(impl, case)
        print("replay:", short(case), "->", res["kind"], res.get("err", ""), "| oracle:", why or "holds")
        print("calls:", res["calls"])
        return 1 if why else 0

    bad = ck.hygiene()
    if bad:
        ck.report("hygiene", "forbidden construct in the Coq development: " + "; ".join(bad[:5]), {"theorem": "hygiene", "where": bad}, False)
    proofs_ok, failing, out = ck.coq_props()

    cases = gen_cases(ck)
    results = []
    oracle_fail = None
    t_impl = time.time()
    for idx, case in enumerate(cases):
        res = impl.run(case)
        if res["kind"] == "vec":
            if not integral(res["arr"]):
                res = {"kind": "other", "what": "non-integer amplitudes from Gaussian-integer input", "calls": res["calls"], "unchanged": res["unchanged"]}
            elif case["cmp"] == "vec":
                res["ints"] = ints_of(res["arr"])
        results.append(res)
        nontrivial = any(e[0] != "1" and not (e[0] == "2" and e[1] == ID2) for l in case["layers"] for e in l)
        key = (case["backend"], case["n"], case["mn"], case["op"],
               tuple("".join(e[0] for e in l) for l in case["layers"]),
               tuple("".join("I" if (e[0] == "2" and e[1] == ID2) else "." for e in l) for l in case["layers"]),
               hash(json.dumps(case["layers"])))
        ck.count(case["family"], 1, key=key if nontrivial else None, sample=dict(short(case), result=res["kind"], calls=[c for c, _ in res["calls"]][:2]))
        if case["domain"]:
            heavy = case["n"] >= 14
            extra = (idx % 5 == 0) and not heavy
            why = oracle_check(impl, case, res, ck.rng, extra=extra)
            ck.count("oracle_tensordot", 1)
            if extra:
                ck.count("oracle_linearity", 1)
            if why is None and case["n"] <= 8 and idx % 4 == 0 and case["backend"] == "eff":
                why = binary_check(impl, case)
                ck.count("oracle_binary_backend", 1)
                if why and oracle_fail is None:
                    oracle_fail = (case, why, "binary")
                    why = None
            if why and (oracle_fail is None or oracle_fail[0]["n"] > case["n"]):
                oracle_fail = (case, why, "layered")
    ck.extra["impl_wall_s"] = round(time.time() - t_impl, 1)
    float_fail = float_family(ck)
    ck.oblige("oracle: floating-point layers with near-identity / non-symmetric entries, all four backends, 1e-12 relative", not float_fail)
    if float_fail and not oracle_fail:
        b, n, what = float_fail[0]
        ck.report("oracle-float", "%s(%d): %s" % (b, n, what), {"backend": b, "n": n, "what": what, "how": "see float_family in checks/c01.py (seed %d)" % ck.seed})
    reuse_fail = reuse_family(ck)
    ck.oblige("oracle: a reused backend object with in-place updated / freshly allocated matrices still returns the layered product", not reuse_fail)
    if reuse_fail and not oracle_fail:
        b, n, what = reuse_fail[0]
        ck.report("oracle-reuse", "%s(%d): %s: result differs from the layered Kronecker product of the matrices at call time" % (b, n, what),
                  {"backend": b, "n": n, "what": what, "how": "see reuse_family in checks/c01.py (seed %d)" % ck.seed})
    if oracle_fail:
        case, why, kind = oracle_fail
        ck.report("oracle", "%s violates the layered-product specification: %s; input %s"
                  % ({"std": "StandardBackend", "eff": "EfficientBackend(%d,%d,%d)" % (case["n"], case["mn"], case["op"]), "ones": "BackendForOnes"}[case["backend"]]
                     if kind == "layered" else "BinaryBackend", why, json.dumps(short(case))),
                  dict(describe(case), why=why, check=kind))

    # the operand count of _chunk_list (hypothesis of C01_eff_spec): implementation vs closed formula vs model vs eff_nchunks in Coq
    chunk_shards, chunk_grid, chunk_fail = chunk_count_check(ck, impl)
    if chunk_fail and not oracle_fail:
        hit = chunk_probe(ck, impl, [st for st, _ in chunk_fail])
        if hit:
            case, why = hit
            oracle_fail = (case, why, "layered")
            ck.report("oracle", "EfficientBackend(%d,%d,%d) violates the layered-product specification: %s; input %s"
                      % (case["n"], case["mn"], case["op"], why, json.dumps(short(case))), dict(describe(case), why=why, check="layered"))
        else:
            ck.report("corr-chunks", "%s (%d settings deviate from eff_nchunks, the operand count in the hypothesis of C01_eff_spec); the property's own oracle passes on every explored input"
                      % (chunk_fail[0][1], len(chunk_fail)), {"correspondence": "C01 chunk_count", "chunk": list(chunk_fail[0][0])}, False)

    # model side, inside Coq: shards balanced by estimated cost
    def weight(case):
        if case["cmp"] != "vec":
            return 40 * len(case["layers"])
        n = case["n"]
        return (8 ** n if case["backend"] == "std" else (2 ** n) * 40) * max(1, len(case["layers"])) // 64 + 5
    order = sorted(range(len(cases)), key=lambda i: -weight(cases[i]))
    nshards = 32 if ck.tier == "quick" else 64
    bins = [[0, []] for _ in range(nshards)]
    for i in order:
        b = min(bins, key=lambda x: x[0])
        b[0] += weight(cases[i]); b[1].append(i)
    shards = []
    for k, (_, idxs) in enumerate(bins):
        if not idxs:
            continue
        items = [enc_case(cases[i], results[i], cases[i]["cmp"] == "vec") for i in idxs]
        body = PRELUDE + "Definition cases : list (bk * nat * list (list ecode) * list ZI * expect) :=\n " + coq_list(items) + ".\n"
        body += "Definition result := bad 0 cases.\nEval vm_compute in result.\n"
        shards.append(("c01_%d" % k, body, idxs))
    mismatches = []
    t_coq = time.time()
    chunk_mismatches = []
    nlay = len(shards)
    shards = shards + chunk_shards
    for k, ((name, rc, out2), (_, _, idxs)) in enumerate(zip(ck.coq_eval_many([(a, b) for a, b, _ in shards], timeout=1100), shards)):
        if rc != 0:
            mismatches.append(("coq-failed", name, out2[-600:]))
            continue
        txt = out2[out2.index("="):] if "=" in out2 else ""
        loc = [int(x) for x in txt.split(":")[0].replace("=", "").replace("[", " ").replace("]", " ").replace(";", " ").replace("%nat", "").split()] if txt else [-1]
        for i in loc:
            gi = idxs[i]
            if k >= nlay:
                chunk_mismatches.append(chunk_grid[gi])
                continue
            if not cases[gi]["domain"]:   # outside the property's domain: informational only
                ck.notes.append("model and implementation differ on the out-of-domain input %s -> %s (not a violation)"
                                % (json.dumps(short(cases[gi])), results[gi].get("err") or results[gi]["kind"]))
            else:
                mismatches.append(("mismatch", gi, None))
    ck.extra["coq_wall_s"] = round(time.time() - t_coq, 1)
    ck.oblige("correspondence model=implementation (vector, contract strings, operand shapes, exception) on %d cases" % len(cases), not mismatches)
    ck.oblige("correspondence _chunk_list: model chunk lengths = implementation, count = eff_nchunks (Coq) on %d settings" % len(chunk_grid), not chunk_mismatches)
    ck.oblige("direct oracle (tensordot slot application, psi0 unchanged, linearity, BinaryBackend) on the implementation", oracle_fail is None)
    ck.oblige("correspondence _chunk_list: implementation = closed formula eff_nchunks (non-empty chunks partitioning the list)", not chunk_fail)
    ck.exhaustive = False
    ck.extra["exhaustive_part"] = ("all layer shapes (block positions x placeholder sides) for n<=%d; all identity masks of one-qubit layers for n in %s"
                                   % ((6, "{5,7,8}") if ck.tier == "quick" else (7, "{5..10}")))
    ck.extra["vector_compared_in_coq_up_to_n"] = 11 if ck.tier == "quick" else 13

    if not proofs_ok and not oracle_fail:
        ck.report("proof:" + str(failing), "proof obligation no longer checks: %s" % failing, {"theorem": failing, "log": out[-1500:]}, False)
    if chunk_mismatches and not oracle_fail and not chunk_fail:
        n_, mn_, op_ = chunk_mismatches[0]
        ck.report("corr-chunks", "model chunk_list / eff_nchunks and EfficientBackend._chunk_list disagree (%d settings) e.g. on (n, min, opt) = (%d, %d, %d): implementation gave %s"
                  % (len(chunk_mismatches), n_, mn_, op_, str(run_chunk_list(impl, n_, mn_, op_))[:200]),
                  {"correspondence": "C01 chunk_count", "setting": [n_, mn_, op_]}, False)
    if mismatches and not oracle_fail:
        kind, where, info = mismatches[0]
        if kind == "mismatch":
            case, res = cases[where], results[where]
            got = {"kind": res["kind"], "err": res.get("err"), "calls": res["calls"]}
            ck.report("corr", "model and implementation disagree (%d cases) e.g. on %s: implementation gave %s; the property's own oracle passes on every explored input"
                      % (len(mismatches), json.dumps(short(case)), json.dumps(got, default=str)[:300]),
                      dict(describe(case), correspondence="C01 " + case["family"], impl=got), False)
        else:
            ck.report("corr-build", "correspondence file failed to compile: %s" % info, {"correspondence": where, "log": info}, False)
    return ck.finish()


if __name__ == "__main__":
    sys.exit(main(sys.argv[1:]))
