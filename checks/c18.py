"""C18 — bundled benchmark circuits (hadamard_reverse_qft_circ, ghz_circ, qft_circ) have their documented ideal outcome.
Theorems (all n >= 1): coq/Props/C18.v over Model/Bench.v.
Tie: the instruction lists of the REAL generators (`circ.data`) are compared exactly with the model's lists evaluated
by vm_compute inside Coq (n = 1..24 quick / 1..64 thorough).  The model's gate matrices are printed by Coq and the very
tables Coq printed are validated numerically against qiskit.quantum_info.Operator (n <= 6/8).
Direct oracle (independent of the model): qiskit Statevector/Operator simulation of the generated circuits."""
import sys, os, json, math, re
import numpy as np
from vlib.common import Check, coq_list, VERIF

TOL = 1e-9
GENS = ("hrqft", "ghz", "qft")


# ------------------------------------------------------------------------------------------------ implementation side
def load_generators():
    from quantum_gates._utility.quantum_algorithms import hadamard_reverse_qft_circ, ghz_circ, qft_circ
    return {"hrqft": hadamard_reverse_qft_circ, "ghz": ghz_circ, "qft": qft_circ}


CLASSES = {"h": "HGate", "cp": "CPhaseGate", "swap": "SwapGate", "cx": "CXGate", "barrier": "Barrier", "measure": "Measure"}


def dump(circ, n):
    """circ.data as a list of model instructions (tuples); anything unexpected becomes ('Other', text)"""
    out = []
    if circ.num_qubits != n or circ.num_clbits != n:
        out.append(("Other", "registers %d/%d" % (circ.num_qubits, circ.num_clbits)))
    gp = circ.global_phase
    if not (isinstance(gp, (int, float)) and float(gp) == 0.0):
        out.append(("Other", "global_phase %r" % (gp,)))
    for inst in circ.data:
        op = inst.operation
        name = op.name
        qs = [circ.find_bit(q).index for q in inst.qubits]
        cs = [circ.find_bit(c).index for c in inst.clbits]
        cls = getattr(op, "base_class", type(op)).__name__   # singleton instances report their base class
        if CLASSES.get(name) != cls or getattr(op, "condition", None) is not None:
            out.append(("Other", "%s/%s" % (name, cls)))
            continue
        if name in ("cp", "cx") and getattr(op, "ctrl_state", 1) != 1:
            out.append(("Other", "%s ctrl_state=%r" % (name, op.ctrl_state)))
            continue
        if name == "h" and len(qs) == 1 and not cs:
            out.append(("H", qs[0]))
        elif name == "swap" and len(qs) == 2 and not cs:
            out.append(("SWAP", qs[0], qs[1]))
        elif name == "cx" and len(qs) == 2 and not cs:
            out.append(("CX", qs[0], qs[1]))
        elif name == "barrier" and not cs:
            out.append(("Barrier", tuple(qs)))
        elif name == "measure" and len(qs) == 1 and len(cs) == 1:
            out.append(("Measure", qs[0], cs[0]))
        elif name == "cp" and len(qs) == 2 and not cs and len(op.params) == 1:
            try:
                a = float(op.params[0])
            except Exception:  # noqa
                out.append(("Other", "cp angle %r" % (op.params[0],)))
                continue
            k = None
            if a != 0.0 and math.isfinite(a):
                kk = int(round(math.log2(math.pi / abs(a))))
                # the angle is +-pi/2^k exactly in binary64 (scaling by a power of two is exact)
                if 0 <= kk <= 900 and abs(a) * 2.0 ** kk == math.pi:
                    k = kk
            if k is None:
                out.append(("Other", "cp angle %s is not pi/2^k" % a.hex()))
            else:
                out.append(("CP" if a > 0 else "CPinv", k, qs[0], qs[1]))
        else:
            out.append(("Other", "%s qubits=%r clbits=%r" % (name, qs, cs)))
    return out


def coq_gate(g):
    if g[0] == "Barrier":
        return "Barrier " + coq_list([str(q) for q in g[1]])
    if g[0] == "Other":
        return "Barrier [999]"      # never produced by the model: forces a mismatch
    return "%s %s" % (g[0], " ".join(str(x) for x in g[1:]))


def run_gen(gens, name, n):
    try:
        return ("ok", dump(gens[name](n), n))
    except Exception as ex:  # noqa
        return ("err", type(ex).__name__ + ": " + str(ex)[:100])


# ------------------------------------------------------------------------------------------------ direct oracle
def strip(circ):
    """(measurement-free copy, [(qubit, clbit)], problems)"""
    from qiskit import QuantumCircuit
    qc = QuantumCircuit(circ.num_qubits)
    meas, measured, problems = [], set(), []
    for inst in circ.data:
        name = inst.operation.name
        qs = [circ.find_bit(q).index for q in inst.qubits]
        cs = [circ.find_bit(c).index for c in inst.clbits]
        if name == "measure":
            meas.append((qs[0], cs[0])); measured.add(qs[0])
        elif name == "barrier":
            continue
        else:
            if any(q in measured for q in qs):
                problems.append("gate %s on %r after a measurement" % (name, qs))
            qc.append(inst.operation, qs)
    return qc, meas, problems


def bitrev(y, n):
    return int(format(y, "0%db" % n)[::-1], 2) if n else 0


def oracle(gens, name, n, full_unitary_upto, rng=None):
    """None when the documented outcome holds for generator `name` at n qubits, else a description"""
    from qiskit.quantum_info import Statevector, Operator
    try:
        circ = gens[name](n)
    except Exception as ex:  # noqa
        return "raised %s: %s" % (type(ex).__name__, str(ex)[:120])
    if circ.num_qubits != n or circ.num_clbits != n:
        return "circuit has %d qubits / %d clbits, expected %d/%d" % (circ.num_qubits, circ.num_clbits, n, n)
    qc, meas, problems = strip(circ)
    if problems:
        return problems[0]
    if sorted(meas) != [(q, q) for q in range(n)]:
        bad = [m for m in meas if m[0] != m[1]]
        return "measurement wiring is %r, expected qubit q -> clbit q for every q < %d%s" % (
            sorted(meas)[:8], n, (" (first wrong: qubit %d -> clbit %d)" % bad[0]) if bad else "")
    N = 2 ** n
    if name in ("hrqft", "ghz"):
        amp = Statevector.from_int(0, N).evolve(qc).data
        p = np.abs(amp) ** 2
        if name == "hrqft":
            if abs(p[0] - 1.0) > TOL:
                return "P(all zeros) = %.12g from |0..0>, expected 1" % p[0]
        else:
            if abs(p[0] - 0.5) > TOL or abs(p[N - 1] - 0.5) > TOL:
                return "P(0..0) = %.12g, P(1..1) = %.12g, expected 1/2 and 1/2" % (p[0], p[N - 1])
        return None
    # qft: U[y, x] = exp(2 pi i x rev(y) / N) / sqrt N   (DFT without the final qubit reversal)
    rev = np.array([bitrev(y, n) for y in range(N)], dtype=object)
    if n <= full_unitary_upto:
        U = Operator(qc).data
        xs = np.arange(N, dtype=object)
        ph = np.array([[(int(x) * int(r)) % N for x in xs] for r in rev], dtype=float)
        D = np.exp(2j * np.pi * ph / N) / math.sqrt(N)
        dev = np.abs(U - D)
        if dev.max() > TOL:
            y, x = np.unravel_index(int(dev.argmax()), dev.shape)
            return "<y|U|x> for x=%d y=%d is %r, DFT-without-reversal entry is %r" % (x, y, complex(U[y, x]), complex(D[y, x]))
        return None
    cols = [0, N - 1, 1, N // 2] + ([rng.randrange(N) for _ in range(2)] if rng else [])
    for x in cols:
        amp = Statevector.from_int(int(x), N).evolve(qc).data
        ph = np.array([(int(x) * int(r)) % N for r in rev], dtype=float)
        d = np.exp(2j * np.pi * ph / N) / math.sqrt(N)
        dev = np.abs(amp - d)
        if dev.max() > TOL:
            y = int(dev.argmax())
            return "<y|U|x> for x=%d y=%d is %r, DFT-without-reversal entry is %r" % (x, y, complex(amp[y]), complex(d[y]))
    return None


def doc_diagnostic_hrqft(gens, nmax=6):
    """Supplementary to the property (which only speaks about |0..0>): the docstring describes the circuit as Hadamards on
    all qubits followed by the inverse QFT, i.e. the unitary F^dagger H^{(x)n} with F[y, x] = exp(2 pi i x y / N)/sqrt N.
    Returns a description of the first basis input on which the generated circuit differs from that, or None."""
    from qiskit.quantum_info import Operator
    for n in range(1, nmax + 1):
        try:
            qc = strip(gens["hrqft"](n))[0]
            U = Operator(qc).data
        except Exception as ex:  # noqa
            return "n=%d: %r" % (n, ex)
        N = 2 ** n
        idx = np.arange(N)
        F = np.exp(2j * np.pi * np.outer(idx, idx) / N) / math.sqrt(N)
        Hn = np.array([[(-1) ** bin(a & b).count("1") for b in range(N)] for a in range(N)], dtype=float) / math.sqrt(N)
        dev = np.abs(U - F.conj().T @ Hn)
        if dev.max() > TOL:
            y, x = np.unravel_index(int(dev.argmax()), dev.shape)
            return "n=%d: on the basis input x=%d the amplitude at y=%d differs from (inverse QFT . H^n) by %.3g" % (n, x, y, dev.max())
    return None


# ------------------------------------------------------------------------------------------------ model semantics, numerically
TABLES_V = r"""
From Coq Require Import List Bool Arith.
Require Import QG.Base.Res QG.Model.Bench.
Import ListNotations.
Definition code (x : ent) : nat := match x with E0 => 0 | E1 => 1 | Eh => 2 | Emh => 3 | Ew true k => 10 + 2 * k | Ew false k => 11 + 2 * k end.
Definition bs := [false; true].
Definition ps := [(false, false); (false, true); (true, false); (true, true)].
Definition t2 (f : bool -> bool -> ent) := map (fun r => map (fun c => code (f r c)) bs) bs.
Definition t4 (f : bool * bool -> bool * bool -> ent) := map (fun r => map (fun c => code (f r c)) ps) ps.
Definition tables := [t2 Hs; t4 SWs; t4 CXs] ++ flat_map (fun k => [t4 (CPs true k); t4 (CPs false k)]) (seq 0 KMAX).
Eval vm_compute in tables.
"""


def parse_nat_lists(txt):
    """parse Coq's printed `= [[[a; b]; ...]; ...] : type` into nested python lists"""
    body = txt[txt.index("=") + 1:]
    body = body[:body.rindex(":")]
    body = body.replace("%nat", "").replace("%list", "").replace(";", ",")
    body = re.sub(r"\s+", "", body)
    return json.loads(body)


def entry(code):
    if code == 0:
        return 0.0
    if code == 1:
        return 1.0
    if code == 2:
        return 1 / math.sqrt(2)
    if code == 3:
        return -1 / math.sqrt(2)
    k, neg = divmod(code - 10, 2)
    return np.exp((-1j if neg else 1j) * math.pi / 2 ** k)


def ap1(T, q, A):
    """numpy transcription of Base/State.v apply1 on a tensor with one axis per qubit (qubit 0 = first axis):
    new[b] = sum_c A[b_q, c] old[b with q := c]"""
    T = np.tensordot(A, T, axes=([1], [q]))
    return np.moveaxis(T, 0, q)


def ap2(T, q1, q2, G):
    """numpy transcription of Base/State.v apply2; G is 4x4 with index 2*first + second"""
    G = G.reshape(2, 2, 2, 2)  # [r1, r2, c1, c2]
    T = np.tensordot(G, T, axes=([2, 3], [q1, q2]))   # axes r1, r2, rest...
    return np.moveaxis(T, [0, 1], [q1, q2])


# The transcription itself is checked EXACTLY against Base/State.v: Coq evaluates apply1/apply2 over Z on generic
# (non-symmetric) integer matrices and a generic integer state on 3 qubits, for every qubit / ordered qubit pair.
TRANSCRIPTION_V = r"""
From Coq Require Import List ZArith Bool.
Require Import QG.Base.State.
Import ListNotations.
Local Open Scope Z_scope.
Fixpoint allb (n : nat) : list (list bool) := match n with O => [[]] | S m => map (cons false) (allb m) ++ map (cons true) (allb m) end.
Definition b2 (x : bool) : Z := if x then 1 else 0.
Definition idx (b : list bool) : Z := fold_left (fun a x => 2 * a + b2 x) b 0.
Definition psi (b : list bool) : Z := 3 + 7 * idx b + idx b * idx b * idx b.
Definition A : m2 Z := fun r c => 1 + 2 * b2 r + 5 * b2 c + 9 * b2 r * b2 c.
Definition pidx (p : bool * bool) : Z := 2 * b2 (fst p) + b2 (snd p).
Definition G : m4 Z := fun r c => 1 + 3 * pidx r + 17 * pidx c + pidx r * pidx r * pidx c.
Definition r1 := map (fun q => map (apply1 Z Z.add Z.mul q A psi) (allb 3)) [0; 1; 2]%nat.
Definition r2 := map (fun qq => map (apply2 Z Z.add Z.mul (fst qq) (snd qq) G psi) (allb 3)) [(0, 1); (1, 0); (0, 2); (2, 0); (1, 2); (2, 1)]%nat.
Eval vm_compute in (r1 ++ r2).
"""


def transcription_expected():
    idx = np.arange(8, dtype=object)
    psi = (3 + 7 * idx + idx ** 3).reshape(2, 2, 2)
    A = np.array([[1 + 2 * r + 5 * c + 9 * r * c for c in range(2)] for r in range(2)], dtype=object)
    G = np.array([[1 + 3 * r + 17 * c + r * r * c for c in range(4)] for r in range(4)], dtype=object)
    out = [[int(v) for v in ap1(psi, q, A).reshape(-1)] for q in range(3)]
    out += [[int(v) for v in ap2(psi, a, b, G).reshape(-1)] for a, b in [(0, 1), (1, 0), (0, 2), (2, 0), (1, 2), (2, 1)]]
    return out


def model_unitary(gates, n, tables):
    """Base/State.v semantics (apply1/apply2, qubit 0 = first axis) of a dumped instruction list, with the matrices
    Coq printed; returned in qiskit's little-endian index convention."""
    N = 2 ** n
    T = np.eye(N, dtype=complex).reshape((2,) * n + (N,))

    for g in gates:
        if g[0] == "H":
            T = ap1(T, g[1], tables["H"])
        elif g[0] == "SWAP":
            T = ap2(T, g[1], g[2], tables["SWAP"])
        elif g[0] == "CX":
            T = ap2(T, g[1], g[2], tables["CX"])
        elif g[0] in ("CP", "CPinv"):
            T = ap2(T, g[2], g[3], tables[(g[0], g[1])])
        elif g[0] in ("Barrier", "Measure"):
            pass
        else:
            raise ValueError("unmodelled instruction %r" % (g,))
    U = T.reshape(N, N)
    # rows and columns are indexed with qubit 0 as the MOST significant bit (column j = input basis state whose
    # State.v bit list is the binary expansion of j).  Convert both indices to qiskit's little-endian numbering.
    perm = np.array([bitrev(i, n) for i in range(N)])
    return U[np.ix_(perm, perm)]


# ------------------------------------------------------------------------------------------------ main
def main(argv):
    ck = Check("C18", argv)
    quick = ck.tier == "quick"
    NT = 24 if quick else 64          # tie range
    NO = 10 if quick else 14          # oracle range
    NU = 8 if quick else 10           # full-unitary (Operator) range for qft
    NS = 8 if quick else 10           # numeric validation of the model's gate semantics
    ck.rule = ("correspondence cases = (generator, n): the instruction list of the real generator (operation class, qubit and "
               "clbit indices, cp angle recovered as an exact dyadic multiple of pi) against the model's list; every case "
               "with n >= 2 is non-trivial (distinct = distinct (generator, n)); oracle cases = (generator, n) simulated by "
               "qiskit; semantics cases = (generator, n) model unitary vs qiskit Operator")
    ck.trusted = ["Coq 8.16.1 kernel + vm_compute",
                  "model coq/Model/Bench.v is hand-written: tied to quantum_algorithms.py only by the exact instruction-list correspondence (n <= %d)" % NT,
                  "qiskit's meaning of h/cp/swap/cx, little-endian Operator/Statevector ordering and QuantumCircuit.inverse(): "
                  "the model's gate matrices (printed by Coq) are validated against qiskit.quantum_info.Operator numerically for n <= %d only" % NS,
                  "checks/c18.py: dump(), the oracle, model_unitary (its apply1/apply2 transcription is itself compared exactly with Base/State.v evaluated in Coq on generic integer data)",
                  "phase-ring interface (e additive, e(1/2) = -1, 2h^2 = 1): section hypotheses, all discharged for Coquelicot's C in Proofs/BenchC.v (CPhase)"]
    ck.assume = ["floating-point rounding of the simulator is outside the theorems (oracle tolerance 1e-9)",
                 "n >= 1; n = 0 is outside the property's domain (recorded as informational)"]
    gens = load_generators()

    if ck.replay:
        doc = json.load(open(ck.replay))["replay"]
        name, n = doc.get("generator"), doc.get("n")
        if name in GENS and isinstance(n, int):
            print("replay: generator=%s n=%d -> oracle: %s" % (name, n, oracle(gens, name, n, NU, ck.rng) or "holds"))
            print("instructions:", run_gen(gens, name, n)[1][:40] if n <= 6 else "(omitted)")
            if name == "hrqft":
                print("docstring diagnostic (beyond the property):", doc_diagnostic_hrqft(gens) or "unitary equals (inverse QFT . H^n) for n <= 6")
        else:
            print("replay: nothing executable in", doc)
        return 0

    bad = ck.hygiene()
    if bad:
        ck.report("hygiene", "forbidden construct in the Coq development: " + "; ".join(bad[:5]), {"theorem": "hygiene", "where": bad}, False)
    proofs_ok, failing, out = ck.coq_props()

    # ---- direct oracle on the implementation
    oracle_fail = {}
    for n in range(1, NO + 1):
        for name in GENS:
            why = oracle(gens, name, n, NU, ck.rng)
            ck.count("oracle_" + name, 1, key=n if n >= 2 else None, sample={"generator": name, "n": n, "oracle": why or "holds"})
            if why and name not in oracle_fail:
                oracle_fail[name] = (n, why)
    for name, (n, why) in oracle_fail.items():
        ck.report("oracle:" + name, "%s(%d) does not have its documented ideal outcome: %s" % (
            {"hrqft": "hadamard_reverse_qft_circ", "ghz": "ghz_circ", "qft": "qft_circ"}[name], n, why),
            {"generator": name, "n": n, "why": why})
    ck.oblige("direct oracle (qiskit simulation) on n = 1..%d" % NO, not oracle_fail)

    # ---- instruction lists of the implementation
    dumps = {}
    for n in range(0, NT + 1):
        for name in GENS:
            dumps[(name, n)] = run_gen(gens, name, n)
            fam = "tie_" + name if n >= 1 else "malformed_n0"
            r = dumps[(name, n)]
            ck.count(fam, 1, key=n if n >= 2 else None,
                     sample={"generator": name, "n": n, "instructions": [list(map(str, g)) for g in r[1][:6]] if r[0] == "ok" else r[1]})

    # malformed stream (outside the domain n >= 1, informational): what the implementation does is recorded only
    for badn in (-1, 2.5, "3"):
        for name in GENS:
            try:
                gens[name](badn); r = "returned a circuit"
            except Exception as ex:  # noqa
                r = type(ex).__name__
            ck.count("malformed_other", 1, sample={"generator": name, "n": repr(badn), "result": r})

    # ---- model side inside Coq
    def lst(r):
        return coq_list([coq_gate(g) for g in r[1]]) if r[0] == "ok" else "[Barrier [998]]"
    prelude = ("From Coq Require Import List Bool Arith.\nRequire Import QG.Base.Res QG.Model.Bench.\nImport ListNotations.\n"
               "Definition chk (c : nat * list gate * list gate * list gate) : list (nat * nat) :=\n"
               "  let '(n, a, b, d) := c in\n"
               "  (if match hrqft n with Ok l => gates_eqb l a | Err _ => false end then [] else [(n, 1)]) ++\n"
               "  (if gates_eqb (ghz n) b then [] else [(n, 2)]) ++ (if gates_eqb (qft n) d then [] else [(n, 3)]).\n")
    nshard = 8
    shards = []
    for s in range(nshard):
        ns = [n for n in range(0, NT + 1) if n % nshard == s]
        if not ns:
            continue
        items = ["(%d, %s, %s, %s)" % (n, lst(dumps[("hrqft", n)]), lst(dumps[("ghz", n)]), lst(dumps[("qft", n)])) for n in ns]
        body = prelude + "Definition cases : list (nat * list gate * list gate * list gate) :=\n " + coq_list(items) + ".\n"
        body += "Definition result := flat_map chk cases.\nEval vm_compute in result.\n"
        shards.append(("c18_%d" % s, body))
    mismatches = []   # (generator, n) or ("coq-failed", log)
    for name, rc, out2 in ck.coq_eval_many(shards):
        if rc != 0 or "=" not in out2:
            mismatches.append(("coq-failed", name + ": " + out2[-400:]))
            continue
        try:
            pairs = parse_nat_lists(out2.replace("(", "[").replace(")", "]").replace("nil", "[]"))
        except Exception:  # noqa
            mismatches.append(("coq-failed", name + ": unparsable " + out2[-300:]))
            continue
        for n, which in pairs:
            if n == 0:
                ck.notes.append("n=0 (outside the domain): model and implementation differ for %s: implementation gives %r (not a violation)"
                                % (GENS[which - 1], dumps[(GENS[which - 1], 0)][1] if dumps[(GENS[which - 1], 0)][0] == "err" else "a circuit"))
            else:
                mismatches.append((GENS[which - 1], n))
    mismatches.sort(key=lambda m: (m[0] == "coq-failed", m[1] if isinstance(m[1], int) else 0))
    ck.oblige("correspondence: instruction lists model = implementation for 3 generators, n = 1..%d" % NT, not mismatches)

    # ---- the model's gate matrices (as printed by Coq) against qiskit's Operator
    sem_fail = None
    rc, tout = ck.coq_eval(TABLES_V.replace("KMAX", str(NS + 1)), name="c18_tables")
    tables = None
    if rc == 0 and "=" in tout:
        try:
            raw = parse_nat_lists(tout)
            conv = lambda t: np.array([[entry(c) for c in row] for row in t], dtype=complex)
            tables = {"H": conv(raw[0]), "SWAP": conv(raw[1]), "CX": conv(raw[2])}
            for k in range(NS + 1):
                tables[("CP", k)] = conv(raw[3 + 2 * k]); tables[("CPinv", k)] = conv(raw[4 + 2 * k])
        except Exception as ex:  # noqa
            sem_fail = "cannot parse the gate tables printed by Coq: %r" % (ex,)
    else:
        sem_fail = "gate-table file failed to compile: " + tout[-300:]
    if tables is not None:
        from qiskit.quantum_info import Operator
        for n in range(1, NS + 1):
            for name in GENS:
                r = dumps[(name, n)]
                if r[0] != "ok" or any(g[0] == "Other" for g in r[1]):
                    if sem_fail is None:
                        sem_fail = "instruction list of %s(%d) contains instructions outside the model: %s" % (name, n, str(r[1])[:200])
                    continue
                try:
                    Um = model_unitary(r[1], n, tables)
                    Uq = Operator(strip(gens[name](n))[0]).data
                    dev = float(np.abs(Um - Uq).max())
                except Exception as ex:  # noqa
                    dev = float("inf"); ck.notes.append("semantics comparison raised %r" % (ex,))
                ck.count("semantics_" + name, 1, key=n, sample={"generator": name, "n": n, "max_dev": dev})
                if dev > 1e-10 and sem_fail is None:
                    sem_fail = "State.v semantics of the model's %s(%d) instruction list differs from qiskit's Operator by %.3g" % (name, n, dev)
    ck.oblige("model gate matrices (printed by Coq) reproduce qiskit.quantum_info.Operator for n = 1..%d" % NS, sem_fail is None)
    # the numpy transcription of apply1/apply2 against Base/State.v itself (exact, integers)
    rc, trout = ck.coq_eval(TRANSCRIPTION_V, name="c18_transcription")
    try:
        tr_ok = rc == 0 and parse_nat_lists(trout.replace("%Z", "")) == transcription_expected()
    except Exception as ex:  # noqa
        tr_ok = False; ck.notes.append("transcription check raised %r" % (ex,))
    ck.count("transcription_apply12", 9, key="3 qubits, generic integer matrices")
    ck.oblige("numpy transcription of Base/State.v apply1/apply2 agrees exactly with Coq on generic integer data (3 qubits, all qubit choices)", tr_ok)
    if not tr_ok and sem_fail is None:
        sem_fail = "checks/c18.py ap1/ap2 no longer transcribe Base/State.v apply1/apply2: " + trout[-300:]
    ck.exhaustive = False
    ck.extra["exhaustive_part"] = "every n in 1..%d for the instruction lists, every n in 1..%d for the simulation oracle" % (NT, NO)

    # ---- reporting of proof / correspondence failures (rule 6)
    if not proofs_ok and not oracle_fail:
        ck.report("proof:" + str(failing), "proof obligation no longer checks: %s" % failing, {"theorem": failing, "log": out[-1500:]}, False)
    if mismatches:
        kind, where = mismatches[0]
        if kind == "coq-failed":
            if not oracle_fail:
                ck.report("corr-build", "correspondence file failed to compile: %s" % where, {"correspondence": "C18 instruction lists", "log": where}, False)
        elif kind not in oracle_fail:
            # search for a concrete failing input of this generator with the oracle beyond the routine range
            found = None
            for n in range(1, (12 if quick else 14) + 1):
                why = oracle(gens, kind, n, NU, ck.rng)
                if why:
                    found = (n, why); break
            impl = dumps[(kind, where)]
            head = "instruction list of %s(%d) differs from the model (implementation: %s)" % (kind, where, str(impl[1])[:300])
            if found:
                ck.report("oracle:" + kind, head + "; failing input n=%d: %s" % found, {"generator": kind, "n": found[0], "why": found[1]})
            else:
                extra = ""
                if kind == "hrqft":
                    d = doc_diagnostic_hrqft(gens)
                    extra = ("; beyond the property (which only fixes the image of |0..0>), the circuit is no longer 'Hadamards then "
                             "inverse QFT' as its docstring says: " + d) if d else "; the unitary still equals (inverse QFT . H^n) for n <= 6"
                ck.report("corr:" + kind, head + "; the simulation oracle passes on every explored n" + extra,
                          {"correspondence": "C18 instruction lists", "generator": kind, "n": where, "note": extra,
                           "impl": [list(map(str, g)) for g in impl[1]][:200] if impl[0] == "ok" else impl[1]}, False)
    if sem_fail and not oracle_fail and not mismatches:
        ck.report("semantics", sem_fail, {"correspondence": "C18 gate semantics vs qiskit Operator", "why": sem_fail}, False)
    return ck.finish()


if __name__ == "__main__":
    sys.exit(main(sys.argv[1:]))
