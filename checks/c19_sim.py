"""C19 marker-file simulation: a top-level (picklable) callable for the three batch runners.
arg = (directory, label, behaviour).  Every call creates one new uniquely named file `<label>.<uuid>` in the directory
(so a call made twice is visible), then returns the (elapsed, label) pair the pool variant prints, or raises."""
import os, time, uuid


def simulation(arg):
    t0 = time.time()
    d, label, behaviour = arg
    fd = os.open(os.path.join(d, "%d.%s" % (label, uuid.uuid4().hex)), os.O_CREAT | os.O_EXCL | os.O_WRONLY)
    os.close(fd)
    if behaviour == "raise":
        raise ValueError("simulation %d fails" % label)
    return (time.time() - t0, label)
