"""C17 translator: Python `ast` of simulations_utility.compute_Hellinger_distance  ->  Gallina over the vocabulary of
coq/Model/Hellinger.v (and, from the same walk, a pure-Python mirror over float lists).

Fail-closed: every AST node class, operator, callee and typing combination that is not listed here raises
`Untranslatable`; the check then treats the tie as broken and goes to the violation search.

Typing (fixed reading, recorded in the evidence): the three positional arguments are (array, array, natural number) in
this order, whatever their annotations say (the source annotates the arrays as `float`).  Locals get the type of their
right-hand side.  Types: 'vec' (1-d numpy array of reals = list R), 'real', 'nat'.

Statement forms        x = <expr>
                       for i in range(<nat expr>):  acc = <real expr over i, acc, locals>
                       return <real expr>                                  (last statement)
Expression forms       names, int/float literals, -e, e+e, e-e, e*e, e/e (reals), e**<literal k>,
                       array+array, array-array, array*array (numpy broadcasting rule -> may raise ValueError),
                       real*array, array*real, np.sqrt(e), array[<nat expr>] (may raise IndexError)
Nat expressions        nat names, literals >= 0, + * **, and - (truncated; only as a range() count)
"""
import ast, math, textwrap
from fractions import Fraction

FUNC = "compute_Hellinger_distance"
GEN_NAME = "gen_compute_Hellinger_distance"


class Untranslatable(Exception):
    pass


def _no(node, why):
    raise Untranslatable("%s at line %s: %s" % (type(node).__name__, getattr(node, "lineno", "?"), why))


COQ_KEYWORDS = {"fun", "let", "in", "match", "with", "end", "if", "then", "else", "forall", "exists", "fix", "as", "return",
                "Type", "Prop", "Set", "at", "using", "where", "for", "cofix", "IF", "R", "sqrt", "Ok", "Err", "nat", "list",
                "vsqrt", "vbin", "vsub", "vadd", "vmul", "vpow", "vscale", "vget", "for_range", "map2", "sumR", "hell", "bc",
                "pvec", "sqdiff", "res", "rbind", "rmap", "S", "O", "pow", "seq", "map", "length", "nth", "np", "range"}


class Tr:
    def __init__(self):
        self.env = {}          # python name -> type
        self.tmp = 0

    def fresh(self):
        self.tmp += 1
        return "t%d_" % self.tmp

    # ------------------------------------------------------------------ nat expressions
    def nat(self, e, allow_sub):
        """returns (coq, py)"""
        if isinstance(e, ast.Name):
            if self.env.get(e.id) != "nat":
                _no(e, "name %r is not a natural number here" % e.id)
            return e.id, e.id
        if isinstance(e, ast.Constant):
            if type(e.value) is not int or e.value < 0 or e.value > 64:
                _no(e, "only small non-negative integer literals are natural numbers")
            return "%d" % e.value, "%d" % e.value
        if isinstance(e, ast.BinOp):
            ops = {ast.Add: ("+", "+"), ast.Mult: ("*", "*"), ast.Pow: ("^", "**")}
            if type(e.op) in ops:
                (a, pa), (b, pb) = self.nat(e.left, allow_sub), self.nat(e.right, allow_sub)
                c, p = ops[type(e.op)]
                return "(%s %s %s)" % (a, c, b), "(%s %s %s)" % (pa, p, pb)
            if type(e.op) is ast.Sub and allow_sub:
                (a, pa), (b, pb) = self.nat(e.left, allow_sub), self.nat(e.right, allow_sub)
                return "(%s - %s)" % (a, b), "max(0, %s - %s)" % (pa, pb)
            _no(e, "operator %s not allowed in a natural-number expression" % type(e.op).__name__)
        _no(e, "not a natural-number expression")

    # ------------------------------------------------------------------ real / array expressions
    def expr(self, e, pre):
        """returns (type, coq, py); appends ('let'|'bind', name, coq, py) to pre for sub-terms that may raise"""
        if isinstance(e, ast.Name):
            t = self.env.get(e.id)
            if t not in ("vec", "real"):
                _no(e, "name %r is unknown or not a real/array here" % e.id)
            return t, e.id, e.id
        if isinstance(e, ast.Constant):
            v = e.value
            if type(v) is int:
                if abs(v) > 10 ** 6:
                    _no(e, "integer literal too large")
                return "real", ("%d" % v if v >= 0 else "(%d)" % v), repr(float(v))
            if type(v) is float and math.isfinite(v):
                fr = Fraction(v)  # exact
                if fr.denominator == 1 and abs(fr.numerator) <= 10 ** 6:
                    return "real", ("%d" % fr.numerator if fr >= 0 else "(%d)" % fr.numerator), repr(v)
                if abs(fr.numerator) < 2 ** 62 and fr.denominator < 2 ** 62:
                    return "real", "(%d / %d)" % (fr.numerator, fr.denominator), repr(v)
            _no(e, "literal %r not supported" % (v,))
        if isinstance(e, ast.UnaryOp):
            if isinstance(e.op, ast.USub):
                t, c, p = self.expr(e.operand, pre)
                if t == "real":
                    return "real", "(- %s)" % c, "(- %s)" % p
            _no(e, "unary operator not supported here")
        if isinstance(e, ast.Call):
            f = e.func
            if (isinstance(f, ast.Attribute) and isinstance(f.value, ast.Name) and f.value.id == "np" and f.attr == "sqrt"
                    and len(e.args) == 1 and not e.keywords and not isinstance(e.args[0], ast.Starred)):
                t, c, p = self.expr(e.args[0], pre)
                if t == "vec":
                    return "vec", "(vsqrt %s)" % c, "vsqrt(%s)" % p
                return "real", "(sqrt %s)" % c, "rsqrt(%s)" % p
            # np.asarray(x, dtype=float): the same vector of reals (it only fixes the element type to double precision)
            if (isinstance(f, ast.Attribute) and isinstance(f.value, ast.Name) and f.value.id == "np" and f.attr == "asarray" and len(e.args) == 1
                    and not isinstance(e.args[0], ast.Starred) and len(e.keywords) == 1 and e.keywords[0].arg == "dtype"
                    and isinstance(e.keywords[0].value, ast.Name) and e.keywords[0].value.id == "float"):
                t, c, p = self.expr(e.args[0], pre)
                if t != "vec":
                    _no(e, "np.asarray of a non-array")
                return "vec", c, p
            _no(e, "only np.sqrt(<one argument>) / np.asarray(<array>, dtype=float) may be called")
        if isinstance(e, ast.Subscript):
            t, c, p = self.expr(e.value, pre)
            if t != "vec":
                _no(e, "subscript of a non-array")
            if isinstance(e.slice, (ast.Slice, ast.Tuple)):
                _no(e, "slices / tuple indices not supported")
            ic, ip = self.nat(e.slice, allow_sub=False)
            x = self.fresh()
            pre.append(("bind", x, "vget %s (%s)%%nat" % (c, ic), "vget(%s, %s)" % (p, ip)))
            return "real", x, x
        if isinstance(e, ast.BinOp):
            op = type(e.op)
            if op is ast.Pow:
                t, c, p = self.expr(e.left, pre)
                k = e.right
                if not (isinstance(k, ast.Constant) and type(k.value) is int and 0 <= k.value <= 16):
                    _no(e, "exponent must be a small natural-number literal")
                if t == "vec":
                    return "vec", "(vpow %s %d)" % (c, k.value), "vpow(%s, %d)" % (p, k.value)
                return "real", "(%s ^ %d)" % (c, k.value), "rpow(%s, %d)" % (p, k.value)
            if op not in (ast.Add, ast.Sub, ast.Mult, ast.Div):
                _no(e, "operator %s not supported" % op.__name__)
            ta, ca, pa = self.expr(e.left, pre)
            tb, cb, pb = self.expr(e.right, pre)
            if ta == "real" and tb == "real":
                s = {ast.Add: "+", ast.Sub: "-", ast.Mult: "*", ast.Div: "/"}[op]
                return "real", "(%s %s %s)" % (ca, s, cb), "(%s %s %s)" % (pa, s, pb)
            if ta == "vec" and tb == "vec":
                if op is ast.Div:
                    _no(e, "array / array not supported")
                prim = {ast.Add: "vadd", ast.Sub: "vsub", ast.Mult: "vmul"}[op]
                x = self.fresh()
                pre.append(("bind", x, "%s %s %s" % (prim, ca, cb), "%s(%s, %s)" % (prim, pa, pb)))
                return "vec", x, x
            if op is ast.Mult:
                (cs, ps), (cv, pv) = ((ca, pa), (cb, pb)) if ta == "real" else ((cb, pb), (ca, pa))
                return "vec", "(vscale %s %s)" % (cs, cv), "vscale(%s, %s)" % (ps, pv)
            _no(e, "mixed real/array operator %s not supported" % op.__name__)
        _no(e, "expression form not supported")

    # ------------------------------------------------------------------ statements
    def check_target(self, node, t):
        if len(node.targets) != 1 or not isinstance(node.targets[0], ast.Name):
            _no(node, "only `name = expr` assignments")
        name = node.targets[0].id
        if name in COQ_KEYWORDS or name.endswith("_") and name.startswith("t") or not name.isidentifier() or not name.isascii():
            _no(node, "local name %r collides with the vocabulary" % name)
        return name

    def function(self, fn):
        a = fn.args
        if a.posonlyargs or a.vararg or a.kwonlyargs or a.kwarg or a.defaults or a.kw_defaults or len(a.args) != 3 or fn.decorator_list:
            _no(fn, "signature must be three plain positional arguments")
        names = [x.arg for x in a.args]
        if len(set(names)) != 3 or any(n in COQ_KEYWORDS or not n.isascii() for n in names):
            _no(fn, "argument names collide with the vocabulary")
        for n, t in zip(names, ("vec", "vec", "nat")):
            self.env[n] = t
        body = list(fn.body)
        if body and isinstance(body[0], ast.Expr) and isinstance(body[0].value, ast.Constant) and isinstance(body[0].value.value, str):
            body = body[1:]
        coq, py = [], []
        if not body or not isinstance(body[-1], ast.Return):
            _no(fn, "last statement must be `return <expr>`")
        for st in body[:-1]:
            if isinstance(st, ast.Assign):
                pre = []
                t, c, p = self.expr(st.value, pre)
                name = self.check_target(st, t)
                if self.env.get(name, t) != t or name in names:
                    _no(st, "re-binding %r at a different type / re-binding an argument" % name)
                self.emit(pre, coq, py, "  ", "    ")
                coq.append("  let %s := %s in" % (name, c))
                py.append("    %s = %s" % (name, p))
                self.env[name] = t
            elif isinstance(st, ast.For):
                if st.orelse or not isinstance(st.target, ast.Name) or getattr(st, "type_comment", None):
                    _no(st, "only `for <name> in range(...)` without else")
                it = st.iter
                if not (isinstance(it, ast.Call) and isinstance(it.func, ast.Name) and it.func.id == "range" and len(it.args) == 1
                        and not it.keywords and not isinstance(it.args[0], ast.Starred)):
                    _no(st, "loop must iterate over range(<one natural-number expression>)")
                cc, cp = self.nat(it.args[0], allow_sub=True)
                i = st.target.id
                if i in self.env or i in COQ_KEYWORDS or not i.isascii():
                    _no(st, "loop variable %r shadows another name" % i)
                if len(st.body) != 1 or not isinstance(st.body[0], ast.Assign):
                    _no(st, "loop body must be a single assignment to the accumulator")
                asg = st.body[0]
                acc = self.check_target(asg, "real")
                if self.env.get(acc) != "real":
                    _no(asg, "accumulator %r must be a real bound before the loop" % acc)
                self.env[i] = "nat"
                pre = []
                t, c, p = self.expr(asg.value, pre)
                del self.env[i]
                if t != "real":
                    _no(asg, "accumulator update must be a real")
                inner_c, inner_p = [], []
                self.emit(pre, inner_c, inner_p, "      ", "        ")
                coq.append("  %s <- for_range (%s)%%nat (fun (%s : nat) (%s : R) =>" % (acc, cc, i, acc))
                coq.extend(inner_c)
                coq.append("      Ok %s) %s ;;" % (c, acc))
                py.append("    for %s in range(%s):" % (i, cp))
                py.extend(inner_p)
                py.append("        %s = %s" % (acc, p))
            else:
                _no(st, "statement form not supported")
        ret = body[-1]
        if ret.value is None:
            _no(ret, "bare return")
        pre = []
        t, c, p = self.expr(ret.value, pre)
        if t != "real":
            _no(ret, "the function must return a real")
        self.emit(pre, coq, py, "  ", "    ")
        coq.append("  Ok %s." % c)
        py.append("    return %s" % p)
        head = "Definition %s (%s %s : list R) (%s : nat) : res R :=" % (GEN_NAME, names[0], names[1], names[2])
        pyhead = "def mirror(%s, %s, %s):" % tuple(names)
        return head + "\n" + "\n".join(coq) + "\n", pyhead + "\n" + "\n".join(py) + "\n"

    @staticmethod
    def emit(pre, coq, py, ind_c, ind_p):
        for kind, x, c, p in pre:
            coq.append("%s%s <- %s ;;" % (ind_c, x, c))
            py.append("%s%s = %s" % (ind_p, x, p))


HEADER = """(* GENERATED on every run by checks/c17_translate.py from the current source of
   quantum_gates._utility.simulations_utility.compute_Hellinger_distance -- do not edit, not committed. *)
From Coq Require Import Reals List.
Require Import QG.Base.Res QG.Model.Hellinger.
Local Open Scope R_scope.

"""


def translate(module_source):
    """module_source: text of simulations_utility.py.  Returns dict(coq=<file text>, py=<mirror source>, lines=(a,b))."""
    tree = ast.parse(module_source)
    np_ok = any(isinstance(n, ast.Import) and any(al.name == "numpy" and al.asname == "np" for al in n.names) for n in tree.body)
    if not np_ok:
        raise Untranslatable("module does not `import numpy as np` at top level")
    fns = [n for n in tree.body if isinstance(n, ast.FunctionDef) and n.name == FUNC]
    if len(fns) != 1:
        raise Untranslatable("expected exactly one top-level def %s, found %d" % (FUNC, len(fns)))
    # the name np / range must not be rebound anywhere at module level other than the import
    for n in ast.walk(tree):
        if isinstance(n, (ast.Name,)) and isinstance(n.ctx, (ast.Store, ast.Del)) and n.id in ("np", "range"):
            raise Untranslatable("np / range is rebound in the module")
        if isinstance(n, (ast.FunctionDef, ast.ClassDef)) and n.name in ("np", "range"):
            raise Untranslatable("np / range is rebound in the module")
        if isinstance(n, ast.arg) and n.arg in ("np", "range"):
            raise Untranslatable("np / range is rebound in the module")
    coq, py = Tr().function(fns[0])
    return {"coq": HEADER + coq, "py": py, "lines": (fns[0].lineno, fns[0].end_lineno), "def": coq}


# ---------------------------------------------------------------------- pure-Python mirror of the Coq vocabulary
# (IEEE binary64 in place of R; same operation order as the Gallina definitions in coq/Model/Hellinger.v)
def rsqrt(x):
    return math.sqrt(x)


def rpow(x, k):      # Coq: x ^ 0 = 1, x ^ (S k) = x * x ^ k
    r = 1.0
    for _ in range(k):
        r = x * r
    return r


def vsqrt(v):
    return [math.sqrt(x) for x in v]


def _vbin(op, a, b):
    if len(a) == len(b):
        return [op(x, y) for x, y in zip(a, b)]
    if len(a) == 1:
        return [op(a[0], y) for y in b]
    if len(b) == 1:
        return [op(x, b[0]) for x in a]
    raise ValueError("operands could not be broadcast together")


def vsub(a, b):
    return _vbin(lambda x, y: x - y, a, b)


def vadd(a, b):
    return _vbin(lambda x, y: x + y, a, b)


def vmul(a, b):
    return _vbin(lambda x, y: x * y, a, b)


def vpow(v, k):
    return [rpow(x, k) for x in v]


def vscale(c, v):
    return [c * x for x in v]


def vget(v, i):
    if not 0 <= i < len(v):
        raise IndexError("index out of bounds")
    return v[i]


def compile_mirror(py_src):
    ns = {"vsqrt": vsqrt, "vsub": vsub, "vadd": vadd, "vmul": vmul, "vpow": vpow, "vscale": vscale, "vget": vget,
          "rsqrt": rsqrt, "rpow": rpow, "max": max, "range": range, "__builtins__": {}}
    exec(compile(py_src, "<c17 mirror>", "exec"), ns)
    return ns["mirror"]


if __name__ == "__main__":
    import sys
    r = translate(open(sys.argv[1]).read())
    print(r["coq"])
    print(r["py"])
