"""Implementation side of the C09 check, run in a fresh interpreter:  c09_harness.py <jobs.json> <out.json>.
Importable as a module so that worker processes started with `spawn` can unpickle the injected classes.

Instruments (all injected through the public constructor arguments of MrAndersonSimulator):
  DrawGates   gate set whose every gate draws a fixed number of np.random.normal() variates (bitflip: a data-dependent
              number) and returns a matrix built from them; the drawn values are appended to the process-local DRAWS
  RecBinary / RecEfficient   circuit classes that, in statevector(), write one JSON line per shot to
              $C09_LOGDIR/<pid>.jsonl: the draws of DrawGates since the previous shot, the generator position marker
              (next variate of a clone of the generator) and the Born vector (hex)
  FakePool    replacement for multiprocessing.Pool under the harness's control: real chunking (Pool._get_tasks), the
              schedule (chunk -> worker, execution order, delivery order) and the workers' initial generator states are
              given; every "worker" is a saved np.random state"""
import sys, os, json, itertools, time
import numpy as np

DRAWS = []
COST = {"X": 2, "SX": 1, "CNOT": 3, "CNOT_inv": 4, "ECR": 2, "ECR_inv": 5, "relaxation": 1, "depolarizing": 1}
BITFLIP_CAP = 3


def _draw(k):
    v = [float(np.random.normal()) for _ in range(k)]
    DRAWS.extend(v)
    return v


def _m2(v):
    a, b = v[0], v[-1]
    return np.array([[1 + 0.11 * a, 0.07j * b], [0.05 * a - 0.02j, 1 - 0.09 * b]], dtype=complex)


class DrawGates:
    def relaxation(self, *a): return _m2(_draw(COST["relaxation"]))
    def depolarizing(self, *a): return _m2(_draw(COST["depolarizing"]))
    def X(self, *a): return _m2(_draw(COST["X"]))[::-1].copy()
    def SX(self, *a): return _m2(_draw(COST["SX"])) + 0.5
    def _m4(self, k): v = _draw(k); return np.kron(_m2(v[:2]), _m2(v[1:]))
    def CNOT(self, *a): return self._m4(COST["CNOT"])
    def CNOT_inv(self, *a): return self._m4(COST["CNOT_inv"])
    def ECR(self, *a): return self._m4(COST["ECR"])
    def ECR_inv(self, *a): return self._m4(COST["ECR_inv"])

    def bitflip(self, *a):
        # adaptive: one variate, then up to BITFLIP_CAP more while they are positive (the non-positive one is consumed too)
        v = _draw(1)
        for _ in range(BITFLIP_CAP):
            e = _draw(1)[0]
            v.append(e)
            if not e > 0:
                break
        return _m2(v)


def _marker():
    st = np.random.get_state()
    r = np.random.RandomState()
    r.set_state(st)
    return float(r.normal())


def _log_shot(psi):
    d = os.environ.get("C09_LOGDIR")
    born = np.square(np.absolute(np.asarray(psi, dtype=complex)))
    rec = {"pid": os.getpid(), "t": time.time(), "draws": [x.hex() for x in DRAWS], "marker": _marker().hex(), "born": [float(x).hex() for x in born]}
    del DRAWS[:]
    if d:
        with open(os.path.join(d, "%d.jsonl" % os.getpid()), "a") as fh:
            fh.write(json.dumps(rec) + "\n")


def _mk(basename):
    import quantum_gates._simulation.circuit as c
    base = getattr(c, basename)

    class Rec(base):
        def statevector(self, psi0):
            psi = super().statevector(psi0)
            _log_shot(psi)
            return psi
    Rec.__name__ = Rec.__qualname__ = "Rec" + basename
    return Rec


RecBinaryCircuit = _mk("BinaryCircuit")
RecEfficientCircuit = _mk("EfficientCircuit")
RecCircuit = _mk("Circuit")


class RecVec:
    """no-op gates; statevector = TABLE[one randint draw]; logs the draw.  TABLE travels with the instance (pickled)."""
    TABLE = []

    def __init__(self, nqubit, depth, gates):
        self.nqubit = nqubit
        self.table = RecVec.TABLE

    def _noop(self, *a, **k): return None
    Rz = I = bitflip = relaxation = depolarizing = X = SX = CNOT = ECR = _noop

    def statevector(self, psi0):
        i = int(np.random.randint(len(self.table)))
        psi = np.array([complex(a, b) for a, b in self.table[i]])
        DRAWS.append(float(i))
        _log_shot(psi)
        return psi


class FakePool:
    """stands in for multiprocessing.Pool; configured through FakePool.PLAN = dict(fork=bool, assign=[...], exec=[...],
    deliver=[...], spawn_seeds=[...]) or PLAN=None for the identity schedule"""
    PLAN = None
    SEEN = {}

    def __init__(self, n):
        self.n = n
        FakePool.SEEN = {"n_processes": n}
        self.parent_state = np.random.get_state()

    def imap_unordered(self, func, iterable, chunksize=1):
        from multiprocessing.pool import Pool
        iterable = list(iterable)
        chunks = [list(x) for _, x in Pool._get_tasks(func, iterable, chunksize)]
        plan = FakePool.PLAN or {}
        C = len(chunks)
        assign = plan.get("assign") or [i % self.n for i in range(C)]
        order = plan.get("exec") or list(range(C))
        deliver = plan.get("deliver") or list(range(C))
        FakePool.SEEN.update(chunksize=chunksize, chunk_lengths=[len(c) for c in chunks], nargs=len(iterable),
                             seeds=[[int(w) for w in a["seed"]] if "seed" in a else None for a in iterable])
        ws = {}
        for w in set(assign):
            if plan.get("fork", True):
                ws[w] = self.parent_state
            else:
                ws[w] = np.random.RandomState(plan.get("spawn_seeds", [11, 22, 33])[w % 3] + w).get_state()
        results = {}
        for c in order:
            np.random.set_state(ws[assign[c]])
            results[c] = [func(a) for a in chunks[c]]
            ws[assign[c]] = np.random.get_state()
        np.random.set_state(self.parent_state)
        for c in deliver:
            for r in results[c]:
                yield r

    def close(self): pass
    def join(self): pass


def devparam(nphys):
    return {"T1": np.full(nphys, 5e-5), "T2": np.full(nphys, 4e-5), "p": np.full(nphys, 2e-2), "rout": np.full(nphys, 5e-2),
            "p_int": np.full((nphys, nphys), 0.2), "t_int": np.full((nphys, nphys), 3e-7), "tm": np.full(nphys, 1e-6), "dt": np.array([2.2e-10])}


def read_logs(d):
    recs = []
    for f in sorted(os.listdir(d)):
        with open(os.path.join(d, f)) as fh:
            for k, line in enumerate(fh):
                r = json.loads(line)
                r["k"] = k
                recs.append(r)
        os.remove(os.path.join(d, f))
    return recs


def run_job(job, logdir):
    """job: circ spec, cls, gates ('draw'|'standard'|'vec'), shots, parallel, pool ('real'|'fake'), plan, start ('fork'|'spawn'),
    npseed, predraw (normals/words consumed before the run), cpu (patched cpu_count or None), table (for vec)"""
    import multiprocessing, io, contextlib
    from checks import c14_common as H
    from quantum_gates._simulation.simulator import MrAndersonSimulator
    import quantum_gates._gates.gates as gg
    qc = H.build_circuit(job["circ"])
    n = len(job["labels"])
    cls = {"RecBinaryCircuit": RecBinaryCircuit, "RecEfficientCircuit": RecEfficientCircuit, "RecCircuit": RecCircuit, "RecVec": RecVec}[job["cls"]]
    gates = {"draw": DrawGates(), "standard": gg.standard_gates, "weak": gg.ScaledNoiseGates(noise_scaling=1e-8), "vec": None}[job["gates"]]
    if job["gates"] == "vec":
        RecVec.TABLE = job["table"]
    psi0 = np.zeros(2 ** n, dtype={"c64": np.complex64, "f32": np.float32, "c128": np.complex128}.get(job.get("psi_dtype"), float)); psi0[0] = 1
    real_pool, real_cpu = multiprocessing.Pool, multiprocessing.cpu_count
    if job.get("pool") == "fake":
        multiprocessing.Pool = FakePool
        FakePool.PLAN = job.get("plan")
    if job.get("cpu"):
        multiprocessing.cpu_count = lambda: job["cpu"]
    if job.get("start"):
        multiprocessing.set_start_method(job["start"], force=True)
    out = {}
    if job.get("nolog"):
        os.environ.pop("C09_LOGDIR", None)
    else:
        os.environ["C09_LOGDIR"] = logdir
    try:
        del DRAWS[:]
        np.random.seed(job["npseed"])
        pre = job.get("predraw", 0)
        if pre:
            if job["parallel"]:
                np.random.randint(0, 2 ** 32, size=pre, dtype=np.uint32)
            else:
                [np.random.normal() for _ in range(pre)]
        buf = io.StringIO()
        t0 = time.time()
        with contextlib.redirect_stdout(buf):
            sim = MrAndersonSimulator(gates=gates, CircuitClass=cls, parallel=job["parallel"])
            orig = sim._perform_simulation

            def spy(*a, **k):
                r = orig(*a, **k)
                out["r_mean"] = [float(x).hex() for x in r]
                return r
            sim._perform_simulation = spy
            try:
                res = sim.run(t_qiskit_circ=qc, qubits_layout=job["labels"], psi0=psi0, shots=job["shots"], device_param=devparam(job["circ"]["nphys"]), nqubit=n)
                out["res"] = {k: float(v).hex() for k, v in res.items()}
            except Exception as e:  # noqa
                out["err"] = "%s: %s" % (type(e).__name__, str(e)[:200])
        out["wall"] = round(time.time() - t0, 3)
        out["stdout"] = buf.getvalue()[-400:]
        # where the parent's generator stands after the run
        st = np.random.get_state()
        r = np.random.RandomState(); r.set_state(st)
        out["parent_next_word"] = int(r.randint(0, 2 ** 32, dtype=np.uint32))
        r.set_state(st)
        out["parent_next_normal"] = float(r.normal()).hex()
        out["recs"] = read_logs(logdir)
        del DRAWS[:]
        if job.get("pool") == "fake":
            out["pool"] = FakePool.SEEN
    finally:
        multiprocessing.Pool, multiprocessing.cpu_count = real_pool, real_cpu
    return out


def single_shot_at(job, position, seed=None):
    """Born vector of one shot run directly through _single_shot on a generator seeded with npseed and advanced by
    `position` normal variates (the model's prediction for a sequential shot starting at that stream position)"""
    import copy
    from checks import c14_common as H
    from quantum_gates._simulation import simulator as S
    import quantum_gates._gates.gates as gg
    import quantum_gates._simulation.circuit as cc
    qc = H.build_circuit(job["circ"])
    n = len(job["labels"])
    sim = S.MrAndersonSimulator()
    layout, _, _ = sim._process_layout(qc)
    n_rz, _, data = sim._preprocess_circuit(qc, layout, n)
    base = getattr(cc, job["cls"][3:])
    gates = {"draw": DrawGates(), "standard": gg.standard_gates, "weak": gg.ScaledNoiseGates(noise_scaling=1e-8)}[job["gates"]]
    psi0 = np.zeros(2 ** n); psi0[0] = 1
    np.random.seed(job["npseed"])
    [np.random.normal() for _ in range(position)]
    os.environ.pop("C09_LOGDIR", None)
    arg = {"data": data, "circ": base(n, len(data) - n_rz + 1, copy.deepcopy(gates)), "device_param": devparam(job["circ"]["nphys"]), "psi0": psi0, "qubit_layout": layout}
    if seed is not None:
        arg["seed"] = np.array(seed, dtype=np.uint32)
    v = S._single_shot(arg)
    del DRAWS[:]
    return [float(x).hex() for x in v]


def main():
    jobs = json.load(open(sys.argv[1]))
    logdir = os.environ["C09_LOGDIR"]
    outs = []
    for job in jobs:
        if job.get("kind") == "single_shot_at":
            outs.append({"born": [single_shot_at(job, p) for p in job["positions"]]})
        elif job.get("kind") == "single_shot_seeded":
            outs.append({"born": [single_shot_at(job, 0, sd) for sd in job["seeds"]]})
        else:
            outs.append(run_job(job, logdir))
    json.dump(outs, open(sys.argv[2], "w"))


if __name__ == "__main__":
    main()
