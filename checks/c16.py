"""C16 — fix_counts completes and bit-reverses any outcome table.
Theorems: coq/Props/C16.v over Model/FixCounts.v.  Tie: correspondence (model evaluated by vm_compute inside Coq vs the
implementation) exhaustive over all non-empty key subsets for small n, random beyond, plus a malformed stream."""
import sys, os, itertools, json
from vlib.common import Check, coq_list, VERIF

ERR = {"IndexError": "IndexError", "ValueError": "ValueError", "KeyError": "KeyError", "TypeError": "TypeError"}

PRELUDE = r"""
From Coq Require Import List Bool NArith Arith.
Require Import QG.Base.Res QG.Model.FixCounts.
Import ListNotations.
Local Open Scope N_scope.
(* decoder for the compact case encoding: key = (length, value) *)
Fixpoint nbits (len : nat) (x : N) : list bool :=
  match len with O => [] | S l => nbits l (N.div2 x) ++ [N.odd x] end.
Definition dec (t : list (nat * N * N)) : list (list bool * N) := map (fun e => (nbits (fst (fst e)) (snd (fst e)), snd e)) t.
Definition enc_out (o : list (list bool * N)) : list (nat * N * N) := map (fun kv => (length (fst kv), val (fst kv), snd kv)) o.
Definition triple_eqb (a b : nat * N * N) : bool :=
  Nat.eqb (fst (fst a)) (fst (fst b)) && N.eqb (snd (fst a)) (snd (fst b)) && N.eqb (snd a) (snd b).
Fixpoint list_eqb (a b : list (nat * N * N)) : bool :=
  match a, b with [] , [] => true | x :: a', y :: b' => triple_eqb x y && list_eqb a' b' | _, _ => false end.
Definition err_eqb (a b : err) : bool :=
  match a, b with IndexError, IndexError | ValueError, ValueError | KeyError, KeyError | TypeError, TypeError => true | _, _ => false end.
(* expected: inl table | inr error *)
Definition check1 (c : nat * list (nat * N * N) * (list (nat * N * N) + err)) : bool :=
  let '(n, t, e) := c in
  match fix_counts N 0 (dec t) n, e with
  | Ok o, inl x => list_eqb (enc_out o) x
  | Err a, inr b => err_eqb a b
  | _, _ => false
  end.
Fixpoint bad (i : nat) (cs : list (nat * list (nat * N * N) * (list (nat * N * N) + err))) : list nat :=
  match cs with [] => [] | c :: r => if check1 c then bad (S i) r else i :: bad (S i) r end.
"""


def enc_table(t):
    return coq_list(["(%d%%nat,%d,%d)" % (len(k), int(k, 2) if k else 0, v) for k, v in t])


def run_impl(fix_counts, table, n):
    try:
        out = fix_counts(dict(table), n)
        return ("ok", list(out.items()))
    except Exception as e:  # noqa
        return ("err", type(e).__name__)


def spec_oracle(table, n, res):
    """direct statement of the property on the implementation's output"""
    if res[0] != "ok":
        return "raised " + res[1]
    out = res[1]
    keys = [format(i, "b").zfill(n) for i in range(2 ** n)]
    if [k for k, _ in out] != keys:
        return "keys are not all 2^n strings in ascending order"
    d = dict(table)
    for k, v in out:
        want = d.get(k[::-1], 0)
        if v != want:
            return "value under %s is %r, expected %r" % (k, v, want)
    return None


def sim_clause(sc, gates, fix_counts, cls, labels, instrs, meas, psi0):
    """noise-free run, fix_counts, compared with Qiskit's own little-endian probabilities of the measured qubits (classical bit k = meas[k])"""
    import numpy as np
    nphys = max(labels) + 1
    _, res, _ = sc.run_spy(cls, labels, instrs, nphys, sc.dev_plain(nphys), psi0, gates=gates, shots=1)
    ideal = sc.qiskit_marginals(labels, instrs, meas, psi0)      # key character k = bit of meas[k] (classical bit k first)
    fc = fix_counts(dict(res), len(meas))
    want = [format(i, "b").zfill(len(meas)) for i in range(2 ** len(meas))]
    if list(fc) != want: return "keys are not the 2^m strings in ascending order"
    # Qiskit prints classical bit m-1 first: its key is the reverse of the ascending-classical-bit key
    d = max(abs(fc[k[::-1]] - ideal[k]) for k in ideal)
    return None if d <= 1e-9 else "probabilities differ from Qiskit's by %.3g" % d


def gen_cases(ck):
    cases = []  # (family, n, table(list of (key,value)))
    nmax_ex = 3 if ck.tier == "quick" else 4
    for n in range(1, nmax_ex + 1):
        keys = [format(i, "b").zfill(n) for i in range(2 ** n)]
        for mask in range(1, 2 ** (2 ** n)):
            sub = [keys[i] for i in range(2 ** n) if mask >> i & 1]
            ck.rng.shuffle(sub)
            cases.append(("exhaustive_n<=%d" % nmax_ex, n, [(k, 1 + j + 10 * int(k, 2)) for j, k in enumerate(sub)]))
    nrand = 400 if ck.tier == "quick" else 3000
    for _ in range(nrand):
        n = ck.rng.randint(4 if ck.tier == "quick" else 5, 8 if ck.tier == "quick" else 10)
        dens = ck.rng.choice([0.02, 0.1, 0.5, 0.9, 1.0])
        keys = [format(i, "b").zfill(n) for i in range(2 ** n) if ck.rng.random() < dens]
        if ck.rng.random() < 0.3:
            keys = [k for k in keys if k not in ("0" * n, "1" * n)]
        if not keys:
            keys = [format(ck.rng.randrange(2 ** n), "b").zfill(n)]
        ck.rng.shuffle(keys)
        cases.append(("random_n<=10", n, [(k, ck.rng.choice([0, 1, 7, 1000, 2 ** 40]) + j) for j, k in enumerate(keys)]))
    # malformed stream: empty table, keys of the wrong width, n = 0
    mal = [(2, []), (1, []), (2, [("1", 3), ("000", 1)]), (2, [("0", 1)]), (3, [("11", 5), ("0", 2)]), (0, [("", 4)]),
           (2, [("111", 1)]), (1, [("10", 2), ("01", 3)]), (3, [("1111", 9)]), (2, [("", 1), ("10", 2)])]
    for n, t in mal:
        cases.append(("malformed", n, t))
    return cases


def main(argv):
    ck = Check("C16", argv)
    ck.rule = ("correspondence cases = (n, table); exhaustive family enumerates every non-empty subset of the 2^n keys "
               "(insertion order shuffled); random family draws n and a key density; a case is non-trivial when the table "
               "lacks at least one key (something must be inserted) or has >= 2 keys (something must be reordered); "
               "distinct = distinct (n, key set, insertion order)")
    ck.trusted = ["Coq 8.16.1 kernel + vm_compute", "checks/c16.py correspondence harness and its compact case decoder (nbits)",
                  "model coq/Model/FixCounts.v is hand-written: tied to simulations_utility.fix_counts only by correspondence",
                  "Python dict/sorted/int/format semantics as modelled (dict_of, sort_items, pyint2, format_b, zfill)",
                  "third clause (C16_simulator_result_little_endian): Model/SimRun.v, the hand-written model of MrAndersonSimulator.run()'s validation, normalisation and "
                  "_measurament, is tied to simulator.py by C14's exact correspondence (run in C14's check); here the clause is additionally run against Qiskit's Statevector; "
                  "over the reals: stdlib ClassicalDedekindReals.sig_forall_dec / sig_not_dec and FunctionalExtensionality.functional_extensionality_dep"]
    ck.assume = ["values are compared as Python ints (the function never computes with values)"]
    from quantum_gates._utility.simulations_utility import fix_counts

    if ck.replay:
        doc = json.load(open(ck.replay))["replay"]
        if doc.get("family") == "simulator":
            import numpy as np
            import checks.sim_common as sc
            from quantum_gates._gates.gates import noise_free_gates
            if "instrs" in doc:
                instrs = [(a, list(b), c) for a, b, c in doc["instrs"]]
                print("replay:", doc["cls"], "measured in order", doc["meas"], "->",
                      sim_clause(sc, noise_free_gates, fix_counts, doc["cls"], doc["labels"], instrs, doc["meas"], np.array([complex(*z) for z in doc["psi0"]])) or "holds")
            else:
                print("replay:", doc["why"])
            return 0
        res = run_impl(fix_counts, [tuple(x) for x in doc["table"]], doc["n"])
        print("replay:", doc, "->", res, "oracle:", spec_oracle([tuple(x) for x in doc["table"]], doc["n"], res))
        return 0

    bad = ck.hygiene()
    if bad:
        ck.report("hygiene", "forbidden construct in the Coq development: " + "; ".join(bad[:5]), {"theorem": "hygiene", "where": bad}, False)
    ok, failing, out = ck.coq_props()
    proofs_ok = ok

    cases = gen_cases(ck)
    results = []
    oracle_fail = None
    for fam, n, t in cases:
        r = run_impl(fix_counts, t, n)
        # applying twice (second family): feed the output back
        results.append(r)
        nontrivial = len(t) >= 2 or (0 < len(t) < 2 ** n)
        ck.count(fam, 1, key=(n, tuple(k for k, _ in t)) if nontrivial else None, sample={"n": n, "table": t[:6], "result": r[1][:6] if r[0] == "ok" else r[1]})
        if fam != "malformed":
            why = spec_oracle(t, n, r)
            if why and oracle_fail is None:
                oracle_fail = (n, t, why)
            if r[0] == "ok":  # twice
                r2 = run_impl(fix_counts, r[1], n)
                ck.count("twice", 1)
                d = dict(t)
                if r2[0] != "ok" or [v for _, v in r2[1]] != [d.get(format(i, "b").zfill(n), 0) for i in range(2 ** n)]:
                    if oracle_fail is None:
                        oracle_fail = (n, t, "second application does not return the completed table in the original orientation")
    # "all values": the function never computes with the values, so negative numbers, zeros of any type, nan, inf, huge ints and
    # non-numbers must come back as the very same objects under the reversed key (the model is polymorphic in the value type)
    def special_table(n):
        keys = [format(i, "b").zfill(n) for i in range(2 ** n) if ck.rng.random() < ck.rng.choice([0.3, 0.7, 1.0])] or ["1" * n]
        ck.rng.shuffle(keys)
        mk = [lambda j: -3 - j, lambda j: -0.0175 - j * 1e-9, lambda j: float("nan"), lambda j: float("0.0"), lambda j: float("-0.0"), lambda j: float("inf"),
              lambda j: 2 ** 70 + j, lambda j: 5e-324, lambda j: 0, lambda j: complex(0, -1 - j), lambda j: (j, "tuple"), lambda j: 0.5125 + j * 1e-9]
        return [(k, ck.rng.choice(mk)(j)) for j, k in enumerate(keys)]
    for rep in range(60 if ck.tier == "quick" else 600):
        n = ck.rng.randint(1, 4); t = special_table(n)
        ck.count("special_values", 1, key=(n, rep))
        try:
            out = list(fix_counts(dict(t), n).items())
        except Exception as e:  # noqa
            why = "raised %s on a table with values %r" % (type(e).__name__, [v for _, v in t][:4]); out = None
        if out is not None:
            why = None
            d = dict(t)
            if [k for k, _ in out] != [format(i, "b").zfill(n) for i in range(2 ** n)]:
                why = "keys are not all 2^n strings in ascending order"
            else:
                for k, v in out:
                    if k[::-1] in d:
                        if v is not d[k[::-1]]:
                            why = "the entry %r: %r does not appear under its reversed key with its value unchanged (got %r)" % (k[::-1], d[k[::-1]], v); break
                    elif not (type(v) is int and v == 0):
                        why = "key %s maps to %r, expected 0" % (k, v); break
        if why and oracle_fail is None:
            oracle_fail = (n, [(k, repr(v)) for k, v in t], why)
    # third clause: a simulator result whose measurements were issued in ascending classical-bit order (any qubit order, any subset)
    # becomes Qiskit's little-endian table.  Noise-free runs of every circuit class against Qiskit's Statevector.
    sim_fail = None
    try:
        import numpy as np
        import checks.sim_common as sc
        from quantum_gates._gates.gates import noise_free_gates
        nrng = np.random.default_rng(ck.seed)
        for cls in sc.CLASSES:
            for t in range(6 if ck.tier == "quick" else 40):
                n = int(nrng.integers(1, 5)); labels = list(range(n))
                body = sc.rand_circuit(nrng, labels, int(nrng.integers(2, 10)), adjacent=cls != "BinaryCircuit")
                perm = [int(q) for q in nrng.permutation(n)][:n if t % 3 else int(nrng.integers(1, n + 1))]
                instrs, meas = sc.add_measures(nrng, body, labels, subset=perm)
                psi0 = nrng.normal(size=2 ** n) + 1j * nrng.normal(size=2 ** n); psi0 /= np.linalg.norm(psi0)
                ck.count("simulator_result_to_qiskit_keys", 1, key=(cls, n, tuple(meas), repr(instrs)) if len(meas) >= 2 else None,
                         sample={"cls": cls, "measured_in_order": meas})
                why = sim_clause(sc, noise_free_gates, fix_counts, cls, labels, instrs, meas, psi0)
                if why and sim_fail is None:
                    sim_fail = {"family": "simulator", "cls": cls, "labels": labels, "instrs": [[a, list(b), c] for a, b, c in instrs], "meas": meas,
                                "psi0": [[float(z.real), float(z.imag)] for z in psi0], "why": why}
        # the same simulator object, the same measure instructions (physical qubit -> classical bit), but another set of used qubits:
        # the measured qubits sit at other positions of the register
        for labs_a, labs_b in (([0, 1, 2], [1, 2, 4]), ([0, 2, 3], [2, 3, 5]), ([1, 3], [0, 1, 3]), ([0, 1, 2, 3], [1, 2, 3, 6])):
            common = [q for q in labs_a if q in labs_b]
            meas_order = [int(q) for q in nrng.permutation(common)]
            for labels in (labs_a, labs_b, labs_a):
                body = sc.rand_circuit(nrng, labels, int(nrng.integers(3, 9)), adjacent=False)
                instrs, meas = sc.add_measures(nrng, body, labels, subset=meas_order)
                psi0 = nrng.normal(size=2 ** len(labels)) + 1j * nrng.normal(size=2 ** len(labels)); psi0 /= np.linalg.norm(psi0)
                ck.count("simulator_result_to_qiskit_keys", 1, key=("BinaryCircuit", tuple(labels), tuple(meas), repr(instrs)),
                         sample={"cls": "BinaryCircuit", "labels": labels, "measured_in_order": meas})
                why = sim_clause(sc, noise_free_gates, fix_counts, "BinaryCircuit", labels, instrs, meas, psi0)
                if why and sim_fail is None:
                    sim_fail = {"family": "simulator", "cls": "BinaryCircuit", "labels": labels, "instrs": [[a, list(b), c] for a, b, c in instrs], "meas": meas,
                                "psi0": [[float(z.real), float(z.imag)] for z in psi0], "why": why + " (after a run of the same simulator with the same measure instructions on other qubits)"}
    except Exception as e:  # noqa
        sim_fail = {"family": "simulator", "why": "the simulator clause could not be run: %s: %s" % (type(e).__name__, str(e)[:200])}
    if sim_fail and not oracle_fail:
        ck.report("oracle:simulator", "fix_counts of a simulator result is not Qiskit's little-endian table: %s (%s, qubits measured in the order %s)"
                  % (sim_fail["why"], sim_fail.get("cls"), sim_fail.get("meas")), sim_fail)
    if oracle_fail:
        n, t, why = oracle_fail
        ck.report("oracle", "fix_counts violates its specification: %s (n=%d, table=%s)" % (why, n, t[:8]), {"n": n, "table": t, "why": why})

    # model side, inside Coq
    shards, per = [], 400
    for s in range(0, len(cases), per):
        items = []
        for (fam, n, t), r in zip(cases[s:s + per], results[s:s + per]):
            exp = "inl " + enc_table(r[1]) if r[0] == "ok" else "inr %s" % ERR.get(r[1], "OutOfFuel")
            items.append("(%d%%nat, %s, %s)" % (n, enc_table(t), exp))
        body = PRELUDE + "Definition cases : list (nat * list (nat * N * N) * (list (nat * N * N) + err)) :=\n " + coq_list(items) + ".\n"
        body += "Definition result := bad 0 cases.\nEval vm_compute in result.\n"
        shards.append(("c16_%d" % (s // per), body))
    mismatches = []
    for (name, rc, out2), s in zip(ck.coq_eval_many(shards), range(0, len(cases), per)):
        if rc != 0:
            mismatches.append(("coq-failed", name, out2[-400:]))
            continue
        txt = out2[out2.index("="):] if "=" in out2 else ""
        idx = [int(x) for x in txt.split(":")[0].replace("=", "").replace("[", " ").replace("]", " ").replace(";", " ").replace("%nat", "").split()] if txt else [-1]
        for i in idx:
            if cases[s + i][0] == "malformed":   # outside the property's domain: informational only
                ck.notes.append("model and implementation differ on the out-of-domain input %r (not a violation)" % (cases[s + i][1:],))
            else:
                mismatches.append(("mismatch", s + i, None))
    ck.oblige("correspondence model=implementation on %d cases" % len(cases), not mismatches)
    ck.exhaustive = False
    ck.extra["exhaustive_part"] = "all non-empty subsets of n-bit keys for n<=%d" % (3 if ck.tier == "quick" else 4)

    if not proofs_ok and not oracle_fail:
        ck.report("proof:" + str(failing), "proof obligation no longer checks: %s" % failing, {"theorem": failing, "log": out[-1500:]}, False)
    if mismatches and not oracle_fail:
        kind, where, info = mismatches[0]
        if kind == "mismatch":
            fam, n, t = cases[where]
            ck.report("corr", "model and implementation disagree on n=%d table=%s (implementation: %s); the property's own oracle passes on every explored input"
                      % (n, t[:8], results[where]), {"correspondence": "C16 fix_counts", "n": n, "table": t, "impl": results[where]}, False)
        else:
            ck.report("corr-build", "correspondence file failed to compile: %s" % info, {"correspondence": where, "log": info}, False)
    return ck.finish()


if __name__ == "__main__":
    sys.exit(main(sys.argv[1:]))
