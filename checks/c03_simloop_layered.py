"""C03, layered classes: exact correspondence of coq/Model/SimLoopLayered.v (translate_calls_layered: _preprocess_circuit + the
else-branch of _apply_gates_on_circuit + the read-out loop, shared by Circuit / StandardCircuit / EfficientCircuit / OneCircuit) with
the real simulator.

Implementation side: the real MrAndersonSimulator.run with the recording gate set of sim_common (Spy) and a recording subclass of the
class under test that logs every public method call the simulator issues (Rz, SX, X, ECR, CNOT, relaxation, bitflip AND I: name,
indices, argument values) and then executes the real method, so that the class's own exceptions (Circuit asserts adjacency, phi[q]
beyond the register) end the shot exactly as they do in production; statevector() is replaced by the identity (the backends are
C01's subject and the oracle's, not this correspondence's).  Device tables with pairwise distinct entries name table and index of
every argument; rz angles are multiples of 1/8 and dt = 0.5, so angle and duration tokens are exact integers.
Model side: SimLoopLayered.run_calls_layered (process_layout, translate_calls_layered, then the builder state machine of
Model/Builders.v on the calls for the class's own exceptions) evaluated by vm_compute and compared inside Coq (case_ok_layered).
A second family calls _preprocess_circuit and _apply_gates_on_circuit directly on hand-made instruction objects, arbitrary layouts
and nqubit, with an object that records and executes nothing (case_ok_layered_direct).
Domain of the property for these classes: used labels = 0..n-1 and every cx / ecr on neighbouring labels; anything else is
generated too (scattered labels, distant pairs, malformed tuples) but is informational only."""
import numpy as np
import checks.sim_common as sc
import checks.c03_simloop as sl

LAYERED = ["Circuit", "StandardCircuit", "EfficientCircuit", "OneCircuit"]
CLS_COQ = {"Circuit": "ClsGrid", "StandardCircuit": "ClsAlt", "EfficientCircuit": "ClsAlt", "OneCircuit": "ClsAlt"}
METH = dict(sl.METH, I=7)

PRELUDE = """From Coq Require Import List NArith ZArith.
Require Import QG.Base.Res QG.Model.SimRun QG.Model.SimLoop QG.Model.SimLoopLayered.
Import ListNotations.
Open Scope Z_scope.
"""

_REC = {"calls": []}


def recording_class(cls_name, execute=True):
    base = sc.circuit_class(cls_name)

    class Rec(base):
        def statevector(self, psi0):
            return psi0

    def mk(name, nidx):
        orig = getattr(base, name)

        def f(self, *a):
            _REC["calls"].append((name, [int(x) for x in a[:nidx]], [float(x) for x in a[nidx:]]))
            return orig(self, *a) if execute else None
        return f
    for name, nidx in (("Rz", 1), ("SX", 1), ("X", 1), ("ECR", 2), ("CNOT", 2), ("relaxation", 1), ("bitflip", 1), ("I", 1)):
        setattr(Rec, name, mk(name, nidx))
    Rec.__name__ = cls_name
    return Rec


def view_calls(calls):
    out = []
    for name, idx, args in calls:
        if name == "I":
            out.append([7, 1] + idx); continue
        out.extend(sl.view_calls([(name, idx, args)]))
    return out


def run_recorded(cls_name, instrs, nphys, nq=None):
    """the real run() with the recording gate set and the recording subclass; ('ok', call views) or ('err', exception name)"""
    from quantum_gates._simulation.simulator import MrAndersonSimulator
    labels = sl.used_labels(instrs); n = len(labels) if nq is None else nq
    dev = sc.dev_distinct(nphys)
    psi0 = np.zeros(2 ** n); psi0[0] = 1
    _REC["calls"] = []
    try:
        MrAndersonSimulator(gates=sc.Spy(), CircuitClass=recording_class(cls_name)).run(
            t_qiskit_circ=sl.build(nphys, instrs), qubits_layout=list(labels), psi0=psi0, shots=1, device_param=dev, nqubit=n)
    except Exception as e:  # noqa
        return ("err", type(e).__name__)
    return ("ok", view_calls(_REC["calls"]))


def run_direct(cls_name, raw, layout, nq, nphys=10):
    """_preprocess_circuit, then one shot's _apply_gates_on_circuit on a recording object of the class that executes nothing"""
    import quantum_gates._simulation.simulator as sim
    _REC["calls"] = []
    try:
        s = sim.MrAndersonSimulator(gates=sc.Spy(), CircuitClass=None)
        _, _, data = s._preprocess_circuit(sl._FakeCirc([sl.fake_instr(*r) for r in raw]), list(layout), nq)
        circ = recording_class(cls_name, execute=False)(max(nq, 1), 1, sc.Spy())
        circ.nqubit = nq
        sim._apply_gates_on_circuit(data, circ, sc.dev_distinct(nphys), list(layout))
    except Exception as e:  # noqa
        return ("err", type(e).__name__)
    return ("ok", view_calls(_REC["calls"]))


# ------------------------------------------------------------------ domain
def in_domain(instrs):
    """used labels are 0..n-1 and every two-qubit gate acts on neighbouring labels"""
    labels = sl.used_labels(instrs)
    return labels == list(range(len(labels))) and all(abs(q[0] - q[1]) == 1 for nm, q, _ in instrs if nm in ("cx", "ecr"))


# ------------------------------------------------------------------ Coq terms
def coq_case_run(cls_name, instrs, nq, res):
    th = [e if n == "rz" else 0 for n, _, e in instrs]; du = [e if n == "delay" else 0 for n, _, e in instrs]
    data = "[" + ";".join(sl.coq_instr(n, q, [e] if n == "measure" else []) for n, q, e in instrs) + "]"
    exp = "inl %s" % sl.coq_zll(res[1]) if res[0] == "ok" else "inr %d" % sl.ERR.get(res[1], 0)
    return "(%s, %s, %s, %s, %s, %s)" % (CLS_COQ[cls_name], sl.coq_zl(th), sl.coq_zl(du), "None" if nq is None else "Some %s" % sl.coq_Z(nq), data, exp)


def shard_run(cases):
    ty = "lclass * list Z * list Z * option Z * list SimRun.instr * (list (list Z) + Z)"
    return (PRELUDE + "Definition cases : list (%s) :=\n [" % ty + ";\n  ".join(cases) + "].\n"
            "Definition result := bad_from (fun c : %s =>\n" % ty +
            "  let '(cls, th, du, nq, data, e) := c in case_ok_layered cls th du nq data e) 0 cases.\nEval vm_compute in result.\n")


def shard_direct(cases):
    ty = "list Z * list Z * list N * Z * list SimRun.instr * (list (list Z) + Z)"
    return (PRELUDE + "Definition cases : list (%s) :=\n [" % ty + ";\n  ".join(cases) + "].\n"
            "Definition result := bad_from (fun c : %s =>\n" % ty +
            "  let '(th, du, used, nq, data, e) := c in case_ok_layered_direct th du used nq data e) 0 cases.\nEval vm_compute in result.\n")


# ------------------------------------------------------------------ generators
def alphabet():
    """instructions on the labels 0 < 1 < 2 (3 only ever delayed / barriered): both directions of cx / ecr on both neighbouring pairs,
    delays on a used and on an otherwise unused label, barriers, a mid-circuit measure, an identity gate"""
    return [("rz", [0], 3), ("rz", [2], -5), ("sx", [1], None), ("x", [0], None), ("x", [2], None), ("cx", [0, 1], None), ("cx", [2, 1], None),
            ("ecr", [1, 2], None), ("ecr", [1, 0], None), ("delay", [1], 17), ("delay", [3], 11), ("barrier", [0, 1, 2, 3], None),
            ("measure", [1], 1), ("id", [2], None)]


def exhaustive_cases(depth):
    """every sequence of <= depth letters, then all three labels measured (so that the layout is [0, 1, 2]), in rotating order"""
    import itertools
    A = alphabet(); out = []; t = 0
    for d in range(depth + 1):
        for seq in itertools.product(A, repeat=d):
            order = [(t + k) % 3 for k in range(3)]; t += 1
            out.append((list(seq) + [("measure", [q], k) for k, q in enumerate(order)], 4))
    return out


def random_case(rng, domain=True):
    """(instrs, nphys); domain: labels 0..n-1, neighbouring pairs; otherwise scattered labels and / or distant pairs (on labels 0..n-1
    with n >= 3 a distant pair is what Circuit.CNOT / ECR assert against)"""
    n = int(rng.integers(1, 6))     # up to 5 qubits: beyond the n <= 4 instances of the traced layered branch (circuit_trace.py)
    distant = (not domain) and rng.random() < 0.4
    if domain:
        labels = list(range(n)); nphys = int(rng.integers(n, n + 3))
    elif distant:
        n = int(rng.integers(3, 5)); labels = list(range(n)); nphys = n
    else:
        nphys = int(rng.integers(n, 9))
        labels = sorted(int(x) for x in rng.choice(nphys, n, replace=False)) if rng.random() < 0.7 else list(range(n))
    spare = [q for q in range(nphys) if q not in labels]
    ins = []
    for _ in range(int(rng.integers(1, 13))):
        r = rng.random()
        if r < 0.20: ins.append(("rz", [int(rng.choice(labels))], int(rng.integers(-24, 25))))
        elif r < 0.32: ins.append(("sx", [int(rng.choice(labels))], None))
        elif r < 0.42: ins.append(("x", [int(rng.choice(labels))], None))
        elif r < 0.50: ins.append(("delay", [int(rng.choice(labels + spare[:2]))], int(rng.integers(1, 99))))
        elif r < 0.58: ins.append(("barrier", [int(x) for x in rng.choice(nphys, int(rng.integers(1, nphys + 1)), replace=False)], None))
        elif r < 0.62: ins.append(("id", [int(rng.choice(labels))], None))
        elif n > 1:
            if domain or rng.random() < 0.5:
                a = int(rng.integers(n - 1)); a, b = labels[a], labels[a + 1]
                if rng.random() < 0.5: a, b = b, a
            else:
                a, b = [int(x) for x in rng.choice(labels, 2, replace=False)]
            ins.append((str(rng.choice(["cx", "ecr"])), [a, b], None))
    for q in labels:
        if not any(q in i[1] and i[0] != "delay" and len(i[1]) <= 2 for i in ins):
            ins.insert(int(rng.integers(0, len(ins) + 1)), (("sx", "x", "rz")[int(rng.integers(3))], [q], int(rng.integers(-9, 9))))
    if distant:
        a = int(rng.integers(0, n - 2)); b = int(rng.integers(a + 2, n))
        if rng.random() < 0.5: a, b = b, a
        ins.insert(int(rng.integers(0, len(ins) + 1)), (str(rng.choice(["cx", "ecr"])), [a, b], None))
    ins = [(nm, q, (e if nm in ("rz", "delay") else None)) for nm, q, e in ins]
    meas = [int(q) for q in rng.choice(labels, int(rng.integers(1, n + 1)), replace=False)]
    for k, q in enumerate(meas):
        pos = len(ins) if rng.random() < 0.6 else int(rng.integers(0, len(ins) + 1))
        ins.insert(pos, ("measure", [q], k))
    return ins, nphys


def direct_case(rng, malformed):
    """(raw instructions, layout, nq, in_domain): layouts 0..n-1 as well as scattered ones, nq below / at / above the layout's length"""
    n = int(rng.integers(1, 5))
    layout = list(range(n)) if rng.random() < 0.6 else sorted(int(x) for x in rng.choice(9, n, replace=False))
    nq = n if not malformed and rng.random() < 0.6 else int(rng.integers(0, n + (3 if malformed else 1)))
    raw = []
    for _ in range(int(rng.integers(0, 9))):
        name = str(rng.choice(["rz", "sx", "x", "cx", "ecr", "delay", "barrier", "measure", "id", "reset"]))
        pool = list(range(9)) if rng.random() < 0.3 else layout
        k = int(rng.integers(-24, 25)); d = int(rng.integers(1, 99))
        if name in ("cx", "ecr"):
            qs = [int(x) for x in rng.choice(pool, 2, replace=False)] if len(pool) > 1 else [pool[0]]
        elif name == "barrier":
            qs = [int(x) for x in rng.choice(9, int(rng.integers(1, 5)), replace=False)]
        else:
            qs = [int(rng.choice(pool))]
        cs = [int(rng.integers(0, 4))] if name == "measure" else []
        if name == "measure" and qs[0] in layout and layout.index(qs[0]) >= nq:
            continue   # swap_detector[index] = clbit would raise after the loop: C14's front (swap_check), not this model
        if malformed and rng.random() < 0.25:
            if rng.random() < 0.5 and qs: qs = qs[:-1]
            elif name == "measure": cs = []
            else: qs = qs + [int(rng.integers(0, 9))]
        raw.append((name, qs, cs, k, d))
    ok_shape = all((len(q) == 2 and q[0] != q[1]) if nm in ("cx", "ecr") else (len(q) >= 1 if nm == "barrier" else len(q) == 1) for nm, q, _, _, _ in raw) \
        and all(len(c) == 1 for nm, _, c, _, _ in raw if nm == "measure")
    return raw, layout, nq, ok_shape and not malformed


# ------------------------------------------------------------------ direct oracle (independent of the model): noise-free run vs Qiskit
def oracle(cls_name, instrs, nphys, rng, tries=2):
    """the property's own oracle on the given circuit: real noise-free run of the class vs Qiskit's ideal marginals, random psi0.
    returns (None | reason, psi0 used)"""
    from quantum_gates._simulation.simulator import MrAndersonSimulator
    from quantum_gates._gates.gates import noise_free_gates
    labels = sl.used_labels(instrs); n = len(labels)
    meas = [i[1][0] for i in instrs if i[0] == "measure"]
    for _ in range(tries):
        psi0 = rng.normal(size=2 ** n) + 1j * rng.normal(size=2 ** n); psi0 /= np.linalg.norm(psi0)
        try:
            res = MrAndersonSimulator(gates=noise_free_gates, CircuitClass=sc.circuit_class(cls_name)).run(
                t_qiskit_circ=sl.build(nphys, instrs), qubits_layout=list(labels), psi0=psi0, shots=1, device_param=sc.dev_plain(nphys), nqubit=n)
        except Exception as e:  # noqa
            return "noise-free run raised %s: %s" % (type(e).__name__, str(e)[:100]), psi0
        ideal = sc.qiskit_marginals(labels, sl.float_instrs(instrs), meas, psi0)
        if set(res) != set(ideal): return "outcome keys differ from the 2^m strings of the measured qubits", psi0
        d = max(abs(res[k] - ideal[k]) for k in ideal)
        if d > 1e-9: return "probabilities differ from the ideal Born marginals by %.3g" % d, psi0
    return None, None
