"""C06 — composite two-qubit gates apply each qubit's own noise on that qubit.
Tie T: coq/Gen/GenGates.v is regenerated from the current factories.py by symbolic execution (checks/gates_trace.py);
coq/Props/C06.v proves own_params_spec for the four regenerated composites.  The trace itself is validated against
intercepted real calls; the direct oracle inspects the real composites with recording / probing constituent stubs."""
import sys, json, os
import numpy as np
from vlib.common import Check
from vlib import symtrace as st


def main(argv):
    ck = Check("C06", argv)
    ck.rule = ("obligations = theorems of Props/C06.v over the regenerated GenGates.v; evaluations = numeric validations of the traced "
               "constituent-call tables against the real composite factories at random arguments + direct-oracle probes (each constituent "
               "pulse's slot found by perturbing its matrix, its (p,T1,T2) compared with the slot's qubit); distinct = (gate, argument draw)")
    ck.trusted = ["Coq 8.16.1 kernel + vm_compute", "vlib/symtrace.py + checks/gates_trace.py (symbolic execution of the real factories.py by operator overloading; "
                  "fail-closed; validated numerically on every run against intercepted real calls)",
                  "Model/Composite.v own_params_spec is the reading of 'own noise' (slot conventions: CNOT (c,t), CNOT_inv (t,c), ECR/ECR_inv (c,t), tied to the drive phases by phase_own)",
                  "noise statistics of a constituent pulse are determined by the arguments it is constructed with (equality of sampling programs)"]
    import checks.gates_trace as gt
    import checks.gates_common as gc
    rng = np.random.default_rng(ck.seed)

    if ck.replay:
        doc = json.load(open(ck.replay))["replay"]
        if "gate" in doc:
            print("replay constituent calls of", doc["gate"], gc.real_composite_calls(doc["gate"], doc["args"]))
        bad = gc.oracle_own_params(rng, 2)
        print("oracle_own_params:", bad[:3])
        return 0

    bad = ck.hygiene()
    if bad:
        ck.report("hygiene", "forbidden construct: " + "; ".join(bad[:5]), {"theorem": "hygiene", "where": bad}, False)
    trace_err = None
    try:
        T = gt.trace_everything()
        gt.write_gen(T)
        ck.oblige("symbolic trace of factories.py/gates.py regenerated (fail-closed)", True)
    except Exception as e:  # noqa
        T = None; trace_err = "%s: %s" % (type(e).__name__, e)
        ck.oblige("symbolic trace of factories.py/gates.py regenerated (fail-closed)", False)
    ok, failing, out = (False, "trace", trace_err) if T is None else ck.coq_props()

    # validation of the trace against the real code
    vbad = []
    if T is not None:
        n = 6 if ck.tier == "quick" else 40
        cnt, vbad = gc.validate_composites(T, rng, n)
        ck.count("trace_validation_composites", cnt, key=None)
        for nm, c in T["comp"].items():
            ck.count("traced_tables", 1, key=nm, sample={"gate": nm, "calls": [(x[0], [repr(a) for a in x[1]]) for x in c["calls"]], "tree": repr(c["tree"])})
        ck.oblige("traced call tables == real constituent calls at random arguments", not vbad)
    # direct oracle
    obad = gc.oracle_own_params(rng, 3 if ck.tier == "quick" else 20)
    ck.count("oracle_own_params", (3 if ck.tier == "quick" else 20) * 4 * 7, key=("oracle", ck.seed))
    for i in range(3 if ck.tier == "quick" else 20):
        ck.distinct.add(("oracle_draw", i))
    if obad:
        nm, k, name, args = obad[0]
        ck.report("oracle:%s:%s" % (nm, name), "%s: constituent call #%d (%s) does not carry the noise parameters of the qubit of its tensor slot" % (nm, k, name),
                  {"gate": nm, "args": [float(x) for x in args], "call_index": k, "constituent": name})
    elif not ok:
        ck.report("proof:" + str(failing), "proof obligation / regeneration no longer checks: %s" % failing, {"theorem": str(failing), "log": (out or "")[-1500:]}, False)
    elif vbad:
        ck.report("trace-validation", "traced call table disagrees with the real composite factory: %r" % (vbad[0][:2],), {"correspondence": "trace validation", "case": repr(vbad[0])}, False)
    return ck.finish()


if __name__ == "__main__":
    sys.exit(main(sys.argv[1:]))
