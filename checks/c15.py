"""C15 — device parameters survive a save/load round trip unchanged.
Theorems: coq/Props/C15.v over Model/DevParams.v.  Tie: exact correspondence -- the model is executed inside Coq
(vm_compute, values as tokens = bit patterns) on the same objects / directories as the implementation, step by step
(save, load into a fresh object), comparing every written file (token positions), every loaded array (shape and
token positions), is_complete() and __eq__.  Direct oracle (independent of the model): shapes and float.hex() of every
array after each cycle, == with the original, FileNotFoundError + incomplete object on missing files."""
import random as random_mod
import sys, os, json, itertools, tempfile, shutil, warnings
import numpy as np
from vlib.common import Check, coq_list, VERIF
from checks.c15_c20_common import (FIELDS, COQ_FLD, QUICK_BACKENDS, quiet, fhex, Tokens, backend_names, make_backend, Pool,
                                   nat_list, n_list)

FILES = {"T1": "T1.txt", "T2": "T2.txt", "p": "p.txt", "rout": "rout.txt", "p_int": "p_int.txt", "t_int": "t_int.txt",
         "tm": "tm.txt", "dt": "dt.txt"}            # the documented on-disk names (not read from the class)
F_META, F_JSON = "metadata.json", "device_parameters.json"
CODES = {"ok": 0, "FileNotFoundError": 1, "ValueError": 2, "Exception": 3, "KeyError": 4}

PRELUDE = r"""
From Coq Require Import List Bool NArith Arith.
Require Import QG.Base.Res QG.Model.DevParams.
Import ListNotations.
Local Open Scope N_scope.
Notation A := (arr N). Notation O := (obj N N). Notation F := (fs N N).
Definition idN (x : N) := x.
Fixpoint list_eqb {X} (e : X -> X -> bool) (a b : list X) : bool :=
  match a, b with [], [] => true | x :: a', y :: b' => e x y && list_eqb e a' b' | _, _ => false end.
Definition opt_eqb {X} (e : X -> X -> bool) (a b : option X) : bool :=
  match a, b with Some x, Some y => e x y | None, None => true | _, _ => false end.
Definition rec8_eqb {X} (e : X -> X -> bool) (a b : rec8 X) : bool :=
  e (rT1 a) (rT1 b) && e (rT2 a) (rT2 b) && e (rP a) (rP b) && e (rRout a) (rRout b) &&
  e (rPint a) (rPint b) && e (rTint a) (rTint b) && e (rTm a) (rTm b) && e (rDt a) (rDt b).
Definition arr_eqb (a b : A) : bool := list_eqb Nat.eqb (shape a) (shape b) && list_eqb N.eqb (data a) (data b).
Fixpoint jv_eqb (a b : jv N) : bool :=
  match a, b with
  | JNum x, JNum y => N.eqb x y
  | JList l, JList m =>
      (fix go (l : list (jv N)) (m : list (jv N)) : bool :=
         match l, m with [], [] => true | x :: l', y :: m' => jv_eqb x y && go l' m' | _, _ => false end) l m
  | _, _ => false
  end.
Definition J1 (l : list N) : jv N := JList (map JNum l).
Definition J2 (ll : list (list N)) : jv N := JList (map J1 ll).
Definition jdoc_eqb (a b : jdoc N N) : bool := rec8_eqb (opt_eqb jv_eqb) (jfields a) (jfields b) && opt_eqb N.eqb (jmeta a) (jmeta b).
Definition obj_eqb (a b : O) : bool :=
  list_eqb Nat.eqb (layout a) (layout b) && rec8_eqb (opt_eqb arr_eqb) (fields a) (fields b) && opt_eqb N.eqb (metadata a) (metadata b).
Definition fs_eqb (a b : F) : bool :=
  rec8_eqb (opt_eqb (list_eqb (list_eqb N.eqb))) (texts a) (texts b) && opt_eqb N.eqb (metafile a) (metafile b) &&
  opt_eqb jdoc_eqb (jsonfile a) (jsonfile b).
Definition canon_eqb (a b : O) : bool :=
  let ca := canon N N N idN a in let cb := canon N N N idN b in
  rec8_eqb (opt_eqb jv_eqb) (fst ca) (fst cb) && opt_eqb N.eqb (snd ca) (snd cb).
Definition code (r : out unit) : nat :=
  match r with Done _ => 0 | Raise (Py FileNotFoundError) => 1 | Raise (Py ValueError) => 2 | Raise PlainException => 3
             | Raise (Py KeyError) => 4 | Raise _ => 9 end%nat.
Inductive step := SSave (fm : format) | SLoad (fm : format) | SLoadInto (fm : format).
Definition run_step (s : step) (st : F * O) : (F * O) * nat :=
  match s with
  | SSave fm => let '(f', r) := save N N N idN fm (snd st) (fst st) in ((f', snd st), code r)
  | SLoad fm => let '(o', r) := load N N N idN fm (fst st) (init N N (layout (snd st))) in ((fst st, o'), code r)
  | SLoadInto fm => let '(o', r) := load N N N idN fm (fst st) (snd st) in ((fst st, o'), code r)
  end.
(* expected after each step: outcome code, directory, object, is_complete(), (object == original) *)
Fixpoint run_check (o0 : O) (steps : list step) (st : F * O) (exp : list (nat * F * O * bool * bool)) : bool :=
  match steps, exp with
  | [], [] => true
  | s :: ss, (c, f, o, cpl, eq) :: es =>
      let '(st', c') := run_step s st in
      Nat.eqb c c' && fs_eqb (fst st') f && obj_eqb (snd st') o && Bool.eqb (is_complete N N (snd st')) cpl &&
      Bool.eqb (canon_eqb (snd st') o0) eq && run_check o0 ss st' es
  | _, _ => false
  end.
Fixpoint bad (i : nat) (cs : list bool) : list nat :=
  match cs with [] => [] | c :: r => if c then bad (S i) r else i :: bad (S i) r end.
"""


# ---------------------------------------------------------------------------------------------- snapshots
def ser(obj):
    if isinstance(obj, np.ndarray):
        return obj.tolist()
    return str(obj)


def meta_token(T, m):
    try:
        return T.other(json.dumps(m, default=ser))
    except Exception as e:  # noqa
        return T.other("undumpable:" + type(e).__name__)


def snap_obj(dp, T):
    flds, hexes = {}, {}
    for k in FIELDS:
        v = getattr(dp, k)
        if v is None:
            flds[k] = hexes[k] = None
            continue
        a = np.asarray(v, dtype=float)
        flds[k] = (tuple(int(x) for x in a.shape), [T.tok(x) for x in a.ravel()])
        hexes[k] = (tuple(int(x) for x in np.shape(v)), [fhex(x) for x in a.ravel()])
    return {"layout": [int(q) for q in dp.qubits_layout], "fields": flds, "meta": None if dp.metadata is None else meta_token(T, dp.metadata),
            "hex": hexes}


def nested_tokens(T, x):
    if isinstance(x, list):
        return [nested_tokens(T, y) for y in x]
    if isinstance(x, (int, float)) and not isinstance(x, bool):
        return ("n", T.tok(x))
    return ("n", T.other("json:" + repr(x)))


def snap_fs(d, T):
    texts = {}
    for k in FIELDS:
        p = d + FILES[k]
        if not os.path.exists(p):
            texts[k] = None
            continue
        txt = open(p).read()
        lines = txt.split("\n")
        if lines and lines[-1] == "":
            lines = lines[:-1]
        texts[k] = [[T.text(t) for t in ln.split()] for ln in lines]
    meta = None
    if os.path.exists(d + F_META):
        try:
            meta = meta_token(T, json.load(open(d + F_META)))
        except Exception:  # noqa
            meta = T.other("rawmeta:" + open(d + F_META).read())
    jdoc = None
    if os.path.exists(d + F_JSON):
        doc = json.load(open(d + F_JSON))
        jdoc = {"fields": {k: (nested_tokens(T, doc[k]) if k in doc else None) for k in FIELDS},
                "meta": meta_token(T, doc["metadata"]) if "metadata" in doc else None}
    return {"texts": texts, "meta": meta, "json": jdoc}


# ---------------------------------------------------------------------------------------------- Coq literals
def opt(x, f):
    return "None" if x is None else "(Some %s)" % f(x)


def rec8(d, f):
    return "(R8 " + " ".join(opt(d[k], f) for k in FIELDS) + ")"


def jv_lit(x, pool):
    if isinstance(x, tuple):
        return "(JNum %d)" % x[1]
    if all(isinstance(y, tuple) for y in x):
        return pool.ref("(J1 %s)" % n_list(y[1] for y in x), "jv N")
    if all(isinstance(y, list) and all(isinstance(z, tuple) for z in y) for y in x):
        return pool.ref("(J2 [%s])" % ";".join(n_list(z[1] for z in y) for y in x), "jv N")
    return "(JList [%s])" % ";".join(jv_lit(y, pool) for y in x)


def obj_lit(o, pool):
    arr = lambda sd: pool.ref("(mkArr %s %s)" % (nat_list(sd[0]), n_list(sd[1])), "A")
    return pool.ref("(mkObj %s %s %s)" % (nat_list(o["layout"]), rec8(o["fields"], arr), opt(o["meta"], str)), "O")


def fs_lit(f, pool):
    lines = lambda ls: pool.ref("[%s]" % ";".join(n_list(l) for l in ls), "list (list N)")
    jd = lambda j: "(mkJdoc %s %s)" % (rec8(j["fields"], lambda x: jv_lit(x, pool)), opt(j["meta"], str))
    return pool.ref("(mkFs %s %s %s)" % (rec8(f["texts"], lines), opt(f["meta"], str), opt(f["json"], jd)), "F")


STEP = {("save", "json"): "SSave AsJson", ("save", "txt"): "SSave AsTexts", ("load", "json"): "SLoad AsJson",
        ("load", "txt"): "SLoad AsTexts", ("loadinto", "json"): "SLoadInto AsJson", ("loadinto", "txt"): "SLoadInto AsTexts"}


def case_lit(run, pool):
    o0 = obj_lit(run["init_obj"], pool)
    exp = ["(%d%%nat, %s, %s, %s, %s)" % (CODES.get(t["outcome"], 99), fs_lit(t["fs"], pool), obj_lit(t["obj"], pool),
                                          "true" if t["complete"] else "false", "true" if t["eq"] else "false") for t in run["trace"]]
    return "run_check %s [%s] (%s, %s) [%s]" % (o0, ";".join(STEP[s] for s in run["steps"]), fs_lit(run["init_fs"], pool), o0, ";".join(exp))


# ---------------------------------------------------------------------------------------------- running the implementation
def build_obj(DP, layout, fields, metadata):
    dp = DP(list(layout))
    for k in FIELDS:
        setattr(dp, k, fields.get(k))
    dp.metadata = metadata
    return dp


def run_case(DP, case, scratch, T):
    """case: dict(layout, fields{name: array|list|None}, metadata, steps[(op,fmt)], tamper[(file, text|None)])"""
    d = tempfile.mkdtemp(dir=scratch) + "/"
    dp0 = case["dp"] if "dp" in case else build_obj(DP, case["layout"], case["fields"], case["metadata"])
    for op in case.get("pre", []):       # build the directory content: save first, then tamper
        with quiet():
            (dp0.save_to_json if op == "json" else dp0.save_to_texts)(d)
    for fn, text in case.get("tamper", []):
        if text is None:
            if os.path.exists(d + fn):
                os.remove(d + fn)
        else:
            open(d + fn, "w").write(text)
    run = {"init_obj": snap_obj(dp0, T), "init_fs": snap_fs(d, T), "steps": list(case["steps"]), "trace": []}
    cur = dp0
    for op, fm in case["steps"]:
        tgt = cur
        if op == "load":
            tgt = DP(list(cur.qubits_layout))
        fn = {"save": {"json": "save_to_json", "txt": "save_to_texts"}, "load": {"json": "load_from_json", "txt": "load_from_texts"},
              "loadinto": {"json": "load_from_json", "txt": "load_from_texts"}}[op][fm]
        outcome = "ok"
        try:
            with quiet(), warnings.catch_warnings():
                warnings.simplefilter("ignore")
                getattr(tgt, fn)(d)
        except Exception as e:  # noqa
            outcome = type(e).__name__
        cur = tgt
        try:
            eq = bool(cur == dp0)
        except Exception:  # noqa
            eq = None
        run["trace"].append({"outcome": outcome, "fs": snap_fs(d, T), "obj": snap_obj(cur, T), "complete": bool(cur.is_complete()), "eq": eq})
    shutil.rmtree(d, ignore_errors=True)
    return run


def oracle(case, run):
    """the property stated directly on the implementation's behaviour (no model involved)"""
    kind = case["oracle"]
    h0 = run["init_obj"]["hex"]
    if kind == "roundtrip":
        for (op, fm), t in zip(run["steps"], run["trace"]):
            if t["outcome"] != "ok":
                return "%s %s raised %s" % (op, fm, t["outcome"])
            if op == "load":
                for k in FIELDS:
                    h = t["obj"]["hex"][k]
                    if h is None:
                        return "%s is None after loading %s" % (k, fm)
                    if h[0] != h0[k][0]:
                        return "%s has shape %s after a %s round trip, the original has %s" % (k, h[0], fm, h0[k][0])
                    if h[1] != h0[k][1]:
                        i = next(i for i, (a, b) in enumerate(zip(h[1], h0[k][1])) if a != b)
                        return "%s[%d] is %s after a %s round trip, the original is %s" % (k, i, h[1][i], fm, h0[k][1][i])
                if not t["eq"]:
                    return "the object loaded from %s does not compare equal to the original" % fm
                if not t["complete"]:
                    return "the object loaded from %s is not complete" % fm
    elif kind == "missing":
        for (op, fm), t in zip(run["steps"], run["trace"]):
            if op in ("load", "loadinto"):
                if t["outcome"] != "FileNotFoundError":
                    return "loading %s with a missing file gave %s, not FileNotFoundError" % (fm, t["outcome"])
                if op == "load" and (t["complete"] or any(v is not None for v in t["obj"]["hex"].values())):
                    return "a failed load left a (partially) filled object, is_complete()=%s" % t["complete"]
    elif kind == "failed_load":
        for (op, fm), t in zip(run["steps"], run["trace"]):
            if op == "load" and t["outcome"] != "ok" and t["complete"]:
                return "a load that raised %s left an object that reports itself complete" % t["outcome"]
            if op == "load" and t["outcome"] == "ok" and not t["complete"]:
                return "a load returned normally but the object is not complete"
    return None


# ---------------------------------------------------------------------------------------------- case generation
EXTREME = [5e-324, 2.2250738585072014e-308, 1e308, 1.7976931348623157e308, float("inf"), -float("inf"), float("nan"), -0.0, 0.0,
           0.1, 1 / 3, -1e-300, 2.0 ** -1074 * 3, 123456789.12345678, 1e-5, 4.940656458412465442e-324]


def hand_obj(layout, rng, values=None, m=None):
    n = len(layout)
    m = (max(layout) + 1) if m is None else m
    pick = (lambda: rng.choice(values)) if values else (lambda: rng.choice([rng.random(), rng.random() * 1e-6, rng.uniform(-1, 1) * 10 ** rng.randint(-300, 300)]))
    vec = lambda k: np.array([pick() for _ in range(k)], dtype=float)
    tab = np.array([[0.0 if (i == j or rng.random() < 0.4) else pick() for j in range(m)] for i in range(m)], dtype=float).reshape(m, m)
    tab2 = np.array([[0.0 if tab[i, j] == 0 else pick() for j in range(m)] for i in range(m)], dtype=float).reshape(m, m)
    return {"T1": vec(n), "T2": vec(n), "p": vec(n), "rout": vec(n), "p_int": tab, "t_int": tab2, "tm": vec(n), "dt": [pick()]}


def overwrite_family(ck, DP):
    rng = random_mod.Random(ck.seed + 15)
    for rep in range(6 if ck.tier == "quick" else 40):
        lay = sorted(rng.sample(range(6), rng.randint(1, 4)))
        fm0 = rng.choice(["json", "txt", "mixed"])
        d = tempfile.mkdtemp(dir=ck.scratch) + "/"
        objs = [build_obj(DP, lay, hand_obj(lay, rng), {"qubits_layout": lay, "device": "hand-%d" % k, "k": k}) for k in range(2)]
        seq = [0, 1, 0, 1, 1, 0][:rng.randint(3, 6)]
        for step, k in enumerate(seq):
            # "mixed": the location already holds the OTHER format's files of another parameter set; each format is its own snapshot
            fm = fm0 if fm0 != "mixed" else ["json", "txt"][step % 2]
            ck.count("overwrite_same_location", 1, key=(rep, step))
            try:
                with quiet(), warnings.catch_warnings():
                    warnings.simplefilter("ignore")
                    (objs[k].save_to_json if fm == "json" else objs[k].save_to_texts)(d)
                    got = DP(list(lay)); (got.load_from_json if fm == "json" else got.load_from_texts)(d)
            except Exception as e:  # noqa
                return ("cycle %d (%s) in a re-used location raised %s" % (step, fm, type(e).__name__), {"layout": lay, "format": fm, "sequence": seq[:step + 1]})
            for f in FIELDS:
                a, b = np.asarray(getattr(got, f), dtype=float), np.asarray(getattr(objs[k], f), dtype=float)
                if a.shape != b.shape or a.tobytes() != b.tobytes():
                    return ("after saving parameter set #%d over set #%d in the same location (%s), the load returns %s that is not bit-identical to what was just saved"
                            % (k, seq[step - 1] if step else k, fm, f), {"layout": lay, "format": fm, "sequence": seq[:step + 1], "field": f})
            if not (got == objs[k]) or (fm == "json" and got.metadata != objs[k].metadata):
                return ("after saving parameter set #%d over another one in the same location (%s), the loaded object does not compare equal to what was just saved" % (k, fm),
                        {"layout": lay, "format": fm, "sequence": seq[:step + 1]})
        shutil.rmtree(d, ignore_errors=True)
    return None


def cycles(fmts):
    return [(op, fm) for fm in fmts for op in ("save", "load")]


def gen_cases(ck, DP):
    rng = ck.rng
    cases = []
    # 1. parameters imported from the bundled fake backends
    names = (QUICK_BACKENDS + [x for x in ("FakeBrussels", "FakeStrasbourg") if x not in QUICK_BACKENDS]) if ck.tier == "quick" else backend_names()
    skipped = []
    for nm in names:
        try:
            b = make_backend(nm)
            nq = b.num_qubits
        except Exception as e:  # noqa
            skipped.append((nm, type(e).__name__)); continue
        cap = (nq - 1) if (ck.tier == "thorough" or nq <= 30) else 30
        mid = min(nq - 1, max(1, cap // 2))
        lays = {"single0": [0], "single_high": [min(nq - 1, cap)], "contiguous": list(range(min(nq, 4))),
                "scattered": sorted({0, mid, min(nq - 1, cap)}), "unordered": [q for q in [mid, 0, min(nq - 1, cap), 1] if q < nq]}
        if nm == "FakeKyiv":
            lays["single_last"] = [nq - 1]
        # qubits whose calibration the backend reports with a non-float scalar type (e.g. the integer gate error 1 of a faulty qubit)
        try:
            pr = b.properties()
            odd = [q for q in range(nq) if any(not isinstance(v, float) for v in (pr.gate_error("x", [q]), pr.t1(q), pr.t2(q), pr.readout_error(q), pr.readout_length(q)))]
            if odd:
                lays["non_float_calibration"] = odd[:3] + [q for q in (0,) if q not in odd[:3]]
        except Exception:  # noqa
            pass
        seen = set()
        for lname, lay in lays.items():
            lay = list(dict.fromkeys(lay))
            if tuple(lay) in seen:
                continue
            seen.add(tuple(lay))
            dp = DP(list(lay))
            try:
                with quiet():
                    dp.load_from_backend(b)
            except Exception as e:  # noqa
                skipped.append((nm, type(e).__name__)); break
            for fm in ("json", "txt"):
                cases.append({"family": "backend_x_layout_x_format_x_2cycles", "domain": True, "oracle": "roundtrip", "dp": dp, "steps": cycles([fm, fm]),
                              "replay": {"kind": "backend", "backend": nm, "layout": lay, "formats": [fm, fm]}, "key": (nm, tuple(lay), fm)})
    # the same import with the layout's labels given as numpy integers (list(np.arange(k)), np.int64 labels): the metadata then carries numpy scalars
    for nm in names[:3 if ck.tier == "quick" else 12]:
        try:
            b = make_backend(nm); nq = b.num_qubits
            for lay in ([np.int64(q) for q in range(min(nq, 3))], [np.int64(min(nq - 1, 4)), np.int64(1)] if nq > 2 else [np.int64(0)]):
                dp = DP(list(lay))
                with quiet():
                    dp.load_from_backend(b)
                for fm in ("json", "txt"):
                    cases.append({"family": "backend_numpy_integer_labels", "domain": True, "oracle": "roundtrip", "dp": dp, "steps": cycles([fm, fm]),
                                  "replay": {"kind": "backend", "backend": nm, "layout": [int(q) for q in lay], "numpy_labels": True, "formats": [fm, fm]},
                                  "key": (nm, "np", tuple(int(q) for q in lay), fm)})
        except Exception as e:  # noqa
            skipped.append((nm, type(e).__name__))
    ck.extra["backends_used"] = len(names) - len({s[0] for s in skipped})
    ck.extra["backends_skipped"] = sorted(set(skipped))
    # 2. exhaustive small scope: every list of distinct labels over {0..3} (64 layouts), both formats and one mixed sequence
    small = [list(p) for r in range(1, 5) for p in itertools.permutations(range(4), r)]
    if ck.tier == "quick":
        small = [l for l in small if len(l) <= 2] + rng.sample([l for l in small if len(l) > 2], 14)
    for lay in small:
        f = hand_obj(lay, rng)
        for fmts in (["json", "json"], ["txt", "txt"], ["txt", "json"]):
            cases.append({"family": "exhaustive_layouts_labels<=3", "domain": True, "oracle": "roundtrip", "layout": lay, "fields": f,
                          "metadata": {"qubits_layout": lay, "device": "hand", "nested": {"a": [1, 2.5, None], "t": (1, 2)}}, "steps": cycles(fmts),
                          "key": (tuple(lay), tuple(fmts))})
    # 3. extreme floats
    for lay in ([0], [3], [1, 0], [0, 2, 5], [4, 1, 3, 0]):
        for rep in range(2 if ck.tier == "quick" else 6):
            f = hand_obj(lay, rng, values=EXTREME)
            for fmts in (["json", "json"], ["txt", "txt"]):
                cases.append({"family": "extreme_floats", "domain": True, "oracle": "roundtrip", "layout": lay, "fields": f, "metadata": {"x": float("inf")},
                              "steps": cycles(fmts), "key": (tuple(lay), rep, tuple(fmts))})
    # 4. random layouts / values, Python-list fields as load_from_backend leaves them
    for i in range(30 if ck.tier == "quick" else 300):
        n = rng.randint(1, 8)
        lay = rng.sample(range(13), n)
        f = hand_obj(lay, rng)
        if rng.random() < 0.5:
            f = {k: (v.tolist() if (isinstance(v, np.ndarray) and v.ndim == 1) else v) for k, v in f.items()}
        fmts = [rng.choice(["json", "txt"]) for _ in range(rng.randint(1, 3))]
        cases.append({"family": "random_layouts", "domain": True, "oracle": "roundtrip", "layout": lay, "fields": f, "metadata": {"i": i, "qubits_layout": lay},
                      "steps": cycles(fmts), "key": (tuple(lay), tuple(fmts), i)})
    # 5. missing files: each text file, the metadata file, the json file; fresh object and an already complete object
    for lay in ([0], [2, 0]):
        f = hand_obj(lay, rng)
        md = {"qubits_layout": lay}
        for fn in list(FILES.values()) + [F_META]:
            cases.append({"family": "missing_file", "domain": True, "oracle": "missing", "layout": lay, "fields": f, "metadata": md, "pre": ["txt", "json"],
                          "tamper": [(fn, None)], "steps": [("load", "txt"), ("loadinto", "txt")], "key": (tuple(lay), fn)})
        cases.append({"family": "missing_file", "domain": True, "oracle": "missing", "layout": lay, "fields": f, "metadata": md, "pre": ["txt"],
                      "tamper": [], "steps": [("load", "json"), ("loadinto", "json")], "key": (tuple(lay), F_JSON)})
        cases.append({"family": "missing_file", "domain": True, "oracle": "missing", "layout": lay, "fields": f, "metadata": md, "pre": [],
                      "tamper": [], "steps": [("load", "txt"), ("load", "json")], "key": (tuple(lay), "empty directory")})
    # 6. damaged directories: a load that fails for another reason must not leave a complete object either
    lay = [1, 0]
    f = hand_obj(lay, rng)
    md = {"qubits_layout": lay}
    good = {k: (np.asarray(v).tolist()) for k, v in f.items()}
    dmg = [("txt", [("p_int.txt", "1.0 2.0\n3.0\n")]), ("txt", [("T1.txt", "1.0 2.0\n3.0\n")]), ("txt", [("dt.txt", "1 2\n3\n")]),
           ("txt", [("tm.txt", "1.0\n\n2.0\n")]), ("txt", [("T2.txt", "")]), ("txt", [("rout.txt", "1.0 2.0\n")]),
           ("json", [(F_JSON, json.dumps({k: v for k, v in dict(good, metadata=md).items() if k != "tm"}))]),
           ("json", [(F_JSON, json.dumps(dict(good, metadata=md, t_int=[[1.0, 2.0], [3.0]])))]),
           ("json", [(F_JSON, json.dumps(dict(good, T1=[[1.0], [2.0, 3.0]])))]),
           ("json", [(F_JSON, json.dumps(dict(good, metadata=md, p=3.5, dt=[[[1.0]]])))])]
    for i, (fm, tam) in enumerate(dmg):
        cases.append({"family": "damaged_directory", "domain": True, "oracle": "failed_load", "layout": lay, "fields": f, "metadata": md, "pre": ["txt", "json"],
                      "tamper": tam, "steps": [("load", fm)], "key": i})
    # 7. outside the property's domain (informational): incomplete objects, ranks the text format cannot carry, repeated labels
    off = []
    o = dict(f); o["p"] = None
    off.append(([1, 0], o, md))
    o = dict(f); o["T1"] = np.float64(3.25)
    off.append(([1, 0], o, md))
    o = dict(f); o["p_int"] = np.arange(8.0).reshape(2, 2, 2)
    off.append(([1, 0], o, md))
    o = dict(f); o["dt"] = [1.5, 2.5]
    off.append(([1, 0], o, md))
    o = dict(f); o["p_int"] = np.arange(4.0).reshape(1, 4); o["t_int"] = np.arange(3.0).reshape(3, 1)
    off.append(([1, 0], o, md))
    o = hand_obj([0, 0], rng, m=1)
    off.append(([0, 0], o, md))
    o = hand_obj([2], rng); o["T1"] = np.array([1.0, 2.0, 3.0]); o["tm"] = np.array([[1.0, 2.0], [3.0, 4.0]])
    off.append(([2], o, md))
    o = dict(f); o["T2"] = np.array([[1.0], [2.0]])
    off.append(([1, 0], o, md))
    o = dict(f); o["metadata_none"] = True
    off.append(([1, 0], o, None))
    for i, (lay_, o, m_) in enumerate(off):
        for fmts in (["json"], ["txt"]):
            cases.append({"family": "outside_domain", "domain": False, "oracle": None, "layout": lay_, "fields": {k: o.get(k) for k in FIELDS}, "metadata": m_,
                          "steps": cycles(fmts), "key": (i, fmts[0])})
    return cases


def replay_of(case):
    if "replay" in case:
        return case["replay"]
    enc = {k: (None if v is None else {"shape": list(np.shape(v)), "hex": [float(x).hex() for x in np.asarray(v, float).ravel()]}) for k, v in case["fields"].items()}
    return {"kind": "hand", "layout": case["layout"], "fields": enc, "metadata": case["metadata"], "pre": case.get("pre", []),
            "tamper": case.get("tamper", []), "steps": case["steps"], "oracle": case["oracle"]}


def case_from_replay(DP, doc):
    if doc["kind"] == "backend":
        dp = DP([np.int64(q) for q in doc["layout"]] if doc.get("numpy_labels") else list(doc["layout"]))
        with quiet():
            dp.load_from_backend(make_backend(doc["backend"]))
        return {"dp": dp, "steps": cycles(doc["formats"]), "oracle": "roundtrip"}
    flds = {k: (None if v is None else np.array([float.fromhex(h) for h in v["hex"]]).reshape(v["shape"])) for k, v in doc["fields"].items()}
    return {"layout": doc["layout"], "fields": flds, "metadata": doc["metadata"], "pre": doc.get("pre", []),
            "tamper": [tuple(t) for t in doc.get("tamper", [])], "steps": [tuple(s) for s in doc["steps"]], "oracle": doc.get("oracle") or "roundtrip"}


def main(argv):
    ck = Check("C15", argv)
    ck.rule = ("a case = (parameter object, directory content, sequence of save/load steps); families: fake backend x layout "
               "(single qubit low/high label, contiguous, scattered, unordered) x format x two cycles; every list of distinct labels "
               "over {0..3} x {json,json / txt,txt / txt,json}; extreme float values; random layouts with mixed format sequences; "
               "each single missing file; damaged directories; an out-of-domain stream (informational). A case is non-trivial "
               "when at least one file is written or read; distinct = distinct (family, layout, formats, source)")
    ck.trusted = ["Coq 8.16.1 kernel + vm_compute", "checks/c15.py harness: tokenisation of floats by float.hex(), parsing of the written files",
                  "model coq/Model/DevParams.v is hand-written: tied to device_parameters.py only by this correspondence run",
                  "numpy savetxt/loadtxt/array/tolist and json dump/load as modelled; correctly rounded decimal print/parse of binary64 (a value is an injective token)",
                  "json_idem: json.dump(json.load(json.dump(metadata))) gives the same text (hypothesis of the theorems; exercised by the == oracle)"]
    ck.assume = ["the location is an existing writable directory prefix", "NaN payloads are not distinguished (every NaN prints as 'nan')",
                 "layout labels are distinct non-negative ints (text format needs tables with >= 2 rows when there are >= 2 qubits)"]
    from quantum_gates._utility.device_parameters import DeviceParameters as DP

    if ck.replay:
        doc = json.load(open(ck.replay))["replay"]
        case = case_from_replay(DP, doc["case"] if "case" in doc else doc)
        run = run_case(DP, case, ck.scratch, Tokens())
        why = oracle(case, run)
        print("replay: steps", run["steps"], "outcomes", [t["outcome"] for t in run["trace"]])
        print("replay: shapes before", {k: (v[0] if v else None) for k, v in run["init_obj"]["hex"].items()})
        print("replay: shapes after ", {k: (v[0] if v else None) for k, v in run["trace"][-1]["obj"]["hex"].items()})
        print("replay: oracle ->", why or "property holds on this input")
        shutil.rmtree(ck.scratch, ignore_errors=True)
        return 1 if why else 0

    bad = ck.hygiene()
    if bad:
        ck.report("hygiene", "forbidden construct in the Coq development: " + "; ".join(bad[:5]), {"theorem": "hygiene", "where": bad}, False)
    proofs_ok, failing, out = ck.coq_props()

    cases = gen_cases(ck, DP)
    T = Tokens()
    runs, oracle_fail = [], None
    for c in cases:
        r = run_case(DP, c, ck.scratch, T)
        runs.append(r)
        ck.count(c["family"], 1, key=c["key"], sample={"layout": r["init_obj"]["layout"], "steps": ["%s:%s" % s for s in c["steps"]],
                                                         "outcomes": [t["outcome"] for t in r["trace"]],
                                                         "shapes": {k: (list(v[0]) if v else None) for k, v in r["trace"][-1]["obj"]["hex"].items()}})
        if c["oracle"]:
            ck.count("oracle:" + c["oracle"], 1)
            why = oracle(c, r)
            if why and oracle_fail is None:
                oracle_fail = (c, why)
    # repeated cycles that RE-USE one location with different parameter sets (save A, load, save B over it, load, save A, load):
    # each load must return what was saved last, bit for bit, and compare equal to it
    if oracle_fail is None:
        why = overwrite_family(ck, DP)
        ck.oblige("oracle: repeated save/load cycles re-using one location with different contents return the last saved object", why is None)
        if why:
            ck.report("oracle-overwrite", "save/load round trip violated: " + why[0], {"family": "overwrite_same_location", "detail": why[1]})
    if oracle_fail:
        c, why = oracle_fail
        ck.report("oracle", "save/load round trip violated: %s (family %s, layout %s, steps %s)" % (why, c["family"], runs[cases.index(c)]["init_obj"]["layout"], c["steps"]),
                  {"case": replay_of(c), "why": why})

    # model side, inside Coq: shards bounded by literal size
    shards, cur, cur_idx, pool = [], [], [], Pool()
    def flush():
        nonlocal cur, cur_idx, pool
        if cur:
            body = PRELUDE + pool.text() + "Definition result := bad 0 [\n " + ";\n ".join(cur) + "].\nEval vm_compute in result.\n"
            shards.append(("c15_%d" % len(shards), body, cur_idx))
        cur, cur_idx, pool = [], [], Pool()
    for i, r in enumerate(runs):
        cur.append(case_lit(r, pool)); cur_idx.append(i)
        if len(cur) >= 40 or pool.size > 400000:
            flush()
    flush()
    mismatches = []
    for (name, rc, out2), (_, _, idxs) in zip(ck.coq_eval_many([(n, b) for n, b, _ in shards]), shards):
        if rc != 0 or "=" not in out2:
            mismatches.append(("coq-failed", name, out2[-600:])); continue
        txt = out2[out2.index("="):].split(":")[0]
        for x in txt.replace("=", " ").replace("[", " ").replace("]", " ").replace(";", " ").replace("%nat", "").split():
            i = idxs[int(x)]
            if cases[i]["domain"]:
                mismatches.append(("mismatch", i, None))
            else:
                ck.notes.append("model and implementation differ on the out-of-domain case %r (not a violation)." % (cases[i]["key"],))
    ck.oblige("correspondence model=implementation on %d cases (%d steps)" % (len(cases), sum(len(c["steps"]) for c in cases)), not mismatches)
    ck.exhaustive = False
    ck.extra["exhaustive_part"] = "all lists of distinct labels over {0..3} (64 layouts) in the thorough tier; all of length <= 2 plus a sample in quick"
    ck.extra["tokens"] = len(T.ids)

    if not proofs_ok and not oracle_fail:
        ck.report("proof:" + str(failing), "proof obligation no longer checks: %s" % failing, {"theorem": failing, "log": out[-1500:]}, False)
    if mismatches and not oracle_fail:
        kind, where, info = mismatches[0]
        if kind == "mismatch":
            c, r = cases[where], runs[where]
            ck.report("corr", "model and implementation disagree on family %s, layout %s, steps %s (implementation outcomes %s); the property's own oracle passes on every explored input"
                      % (c["family"], r["init_obj"]["layout"], c["steps"], [t["outcome"] for t in r["trace"]]),
                      {"correspondence": "C15 " + c["family"], "case": replay_of(c), "mismatching_cases": len(mismatches)}, False)
        else:
            ck.report("corr-build", "correspondence file failed to compile: %s" % info, {"correspondence": where, "log": info}, False)
    return ck.finish()


if __name__ == "__main__":
    sys.exit(main(sys.argv[1:]))
