"""C08, run_is_spec for the loop models: the theorems C08_calls_own_params(_layered), C08_run_is_spec_index and the relabel / subset
corollaries of Props/C08.v speak about coq/Model/SimLoop.v and coq/Model/SimLoopLayered.v.  Those models are tied to simulator.py by
the exact call-sequence correspondence of checks/c03_simloop.py / c03_simloop_layered.py (method calls with the table entry behind
every argument value, placements, exceptions).  So that C08's verdict does not silently rest on another check's run, the same
correspondence is executed here on C08's own (smaller) case set: exhaustive depth 1, random circuits on scattered labels with both
directions of cx / ecr, and the two loop functions called directly on hand-made layouts.

When it breaks, the failing input is searched with C08's direct oracle (sim_common.spec_calls: own calibration values and current
virtual phases, written independently of every model) on the mismatching circuits first."""
import checks.sim_common as sc
import checks.c03_simloop as sl
import checks.c03_simloop_layered as ll


def to_sc(instrs):
    """c03_simloop's instruction format -> sim_common's, as the simulator treats it (rz carries its angle; an id gate and a delay
    on a label that nothing else uses produce no gate-set call)"""
    used = sl.used_labels(instrs); out = []
    for nm, qs, e in instrs:
        if nm == "id" or (nm == "delay" and qs[0] not in used): continue
        out.append((nm, list(qs), (e / 8.0 if nm == "rz" else e)))
    return out


def own_oracle(cls, instrs, nphys):
    """C08's oracle on one circuit: gate-set call log of the real run == own calibration values / own current phases.  None | reason"""
    labels = sl.used_labels(instrs); dev = sc.dev_distinct(nphys); ins = to_sc(instrs)
    try:
        log, _, _ = sc.run_spy(cls, labels, ins, nphys, dev)
    except Exception as e:  # noqa
        return "run raised %s: %s" % (type(e).__name__, str(e)[:100])
    spec = sc.spec_calls(labels, ins, dev, cls != "BinaryCircuit")
    if not sc.logs_equal(log, spec):
        got = next((a for a, b in zip(log, spec) if not sc.logs_equal([a], [b])), log[-1:])
        return "gate-set calls do not carry the operation's own calibration values / current virtual phases: got %r" % (got,)
    return None


def run_correspondence(ck, rng):
    """returns None when every in-domain case agrees, otherwise the arguments of ck.report"""
    quick = ck.tier == "quick"
    # ---- index class
    sl_cases = [(ins, nphys, "exhaustive") for ins, nphys in sl.exhaustive_cases(1)]
    for _ in range(150 if quick else 1500):
        ins, nphys = sl.random_case(rng); sl_cases.append((ins, nphys, "random"))
    sl_terms = []; sl_res = []
    for ins, nphys, fam in sl_cases:
        r = sl.run_recorded(ins, nphys); sl_res.append(r)
        sl_terms.append(sl.coq_case_run(ins, None, r))
        ck.count("simloop_translate", 1, key=(fam, repr(ins)) if len(ins) > 1 else None,
                 sample={"family": fam, "instrs": [list(map(str, i)) for i in ins[:8]], "calls": r[1][:4] if r[0] == "ok" else r[1]})
    dir_cases = [sl.direct_case(rng, malformed=(t % 3 == 2)) for t in range(120 if quick else 1200)]
    dir_terms = []
    for raw, layout, nq, dom in dir_cases:
        r = sl.run_direct(raw, layout, nq)
        dir_terms.append(sl.coq_case_direct(raw, layout, nq, r))
        ck.count("simloop_translate_direct" if dom else "simloop_translate_malformed", 1, key=(repr(raw), tuple(layout), nq) if raw else None)
    # ---- layered classes
    ll_cases = []
    for i, (ins, nphys) in enumerate(ll.exhaustive_cases(1)):
        ll_cases.append((ll.LAYERED[i % 4], ins, nphys, "exhaustive", True))
    for t in range(120 if quick else 1200):
        ins, nphys = ll.random_case(rng, domain=True); ll_cases.append((ll.LAYERED[t % 4], ins, nphys, "random", ll.in_domain(ins)))
    ll_terms = []; ll_res = []
    for cls, ins, nphys, fam, dom in ll_cases:
        r = ll.run_recorded(cls, ins, nphys); ll_res.append(r)
        ll_terms.append(ll.coq_case_run(cls, ins, None, r))
        ck.count("simloop_translate_layered" if dom else "simloop_translate_layered_outside", 1, key=(cls, fam, repr(ins)) if len(ins) > 1 else None,
                 sample={"cls": cls, "family": fam, "instrs": [list(map(str, i)) for i in ins[:8]], "calls": r[1][:6] if r[0] == "ok" else r[1]})
    ld_cases = [ll.direct_case(rng, malformed=(t % 3 == 2)) for t in range(80 if quick else 800)]
    ld_terms = []
    for i, (raw, layout, nq, dom) in enumerate(ld_cases):
        r = ll.run_direct(ll.LAYERED[i % 4], raw, layout, nq)
        ld_terms.append(sl.coq_case_direct(raw, layout, nq, r))
        ck.count("simloop_translate_layered_direct" if dom else "simloop_translate_layered_malformed", 1, key=(repr(raw), tuple(layout), nq) if raw else None)
    per = 300; shards = []
    for s0 in range(0, len(sl_terms), per): shards.append(("c08_simloop_%d" % (s0 // per), sl.shard_run(sl_terms[s0:s0 + per]), "run", s0))
    for s0 in range(0, len(dir_terms), per): shards.append(("c08_simdirect_%d" % (s0 // per), sl.shard_direct(dir_terms[s0:s0 + per]), "direct", s0))
    for s0 in range(0, len(ll_terms), per): shards.append(("c08_simlay_%d" % (s0 // per), ll.shard_run(ll_terms[s0:s0 + per]), "lrun", s0))
    for s0 in range(0, len(ld_terms), per): shards.append(("c08_simlaydirect_%d" % (s0 // per), ll.shard_direct(ld_terms[s0:s0 + per]), "ldirect", s0))
    bad = []; build = None
    for (name, rc, out), (_, _, kind, s0) in zip(ck.coq_eval_many([(a, b) for a, b, _, _ in shards]), shards):
        idx = sl.parse_bad(out) if rc == 0 else None
        if idx is None:
            build = build or (name, out[-600:]); continue
        for i in idx:
            k = s0 + i
            if kind == "run": bad.append(("run", k))
            elif kind == "direct" and dir_cases[k][3]: bad.append(("direct", k))
            elif kind == "lrun" and ll_cases[k][4]: bad.append(("lrun", k))
            elif kind == "ldirect" and ld_cases[k][3]: bad.append(("ldirect", k))
            else: ck.notes.append("loop model and implementation differ on an out-of-domain input of family %s (not a violation)" % kind)
    ck.oblige("correspondence (own run): recorded method calls + argument table entries + placements of the real instruction loop == "
              "SimLoop.translate_calls / SimLoopLayered.translate_calls_layered in Coq (%d + %d index, %d + %d layered cases)"
              % (len(sl_terms), len(dir_terms), len(ll_terms), len(ld_terms)), not bad and build is None)
    if not bad and build is None:
        return None
    # failing input of the property itself: the mismatching circuits first, then a sample of the others
    cand = [("BinaryCircuit",) + sl_cases[i][:2] for k, i in bad if k == "run"][:40] + [ll_cases[i][:3] for k, i in bad if k == "lrun"][:40]
    cand += [("BinaryCircuit",) + c[:2] for c in sl_cases[::5]][:30] + [c[:3] for c in ll_cases[::5] if c[4]][:30]
    for cls, ins, nphys in cand:
        why = own_oracle(cls, ins, nphys)
        if why:
            doc = {"family": "simloop", "cls": cls, "labels": sl.used_labels(ins), "nphys": nphys, "instrs": [[a, list(b), c] for a, b, c in ins], "what": why}
            return ("oracle:simloop:%s" % cls, "%s %s: %s (the instruction loop differs from its Coq model)" % (cls, doc["labels"], why), doc, True)
    if bad:
        k, i = bad[0]
        if k == "run":
            ins, nphys, fam = sl_cases[i]
            doc = {"family": "simloop", "cls": "BinaryCircuit", "correspondence": "C08 simloop_translate (%s)" % fam, "nphys": nphys,
                   "instrs": [[a, list(b), c] for a, b, c in ins], "impl": sl_res[i]}
        elif k == "lrun":
            cls, ins, nphys, fam, _ = ll_cases[i]
            doc = {"family": "simloop", "cls": cls, "correspondence": "C08 simloop_translate_layered (%s)" % fam, "nphys": nphys,
                   "instrs": [[a, list(b), c] for a, b, c in ins], "impl": ll_res[i]}
        else:
            raw, layout, nq, _ = (dir_cases if k == "direct" else ld_cases)[i]
            doc = {"correspondence": "C08 simloop_translate%s_direct" % ("" if k == "direct" else "_layered"), "raw": raw, "layout": layout, "nq": nq}
        return ("corr:simloop", "the real instruction loop issues other method calls / passes other table entries than its Coq model on %s; "
                "C08_calls_own_params / C08_run_is_spec_index no longer speak about this code" % (doc.get("instrs") or doc.get("raw")), doc, False)
    return ("corr-build:simloop", "correspondence file failed to compile: %s" % (build,), {"correspondence": build[0], "log": build[1]}, False)
