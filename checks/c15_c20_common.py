"""Helpers shared by checks/c15.py and checks/c20.py: float tokens, fake-backend enumeration, Coq literal pools."""
import contextlib, io, json, math, os, warnings
import numpy as np

FIELDS = ["T1", "T2", "p", "rout", "p_int", "t_int", "tm", "dt"]          # order of DeviceParameters._names
COQ_FLD = {"T1": "T1", "T2": "T2", "p": "P", "rout": "Rout", "p_int": "Pint", "t_int": "Tint", "tm": "Tm", "dt": "Dt"}
QUICK_BACKENDS = ["FakeManilaV2", "FakeYorktownV2", "FakeLagosV2", "FakeGuadalupeV2", "FakeCairoV2", "FakePeekskill",
                  "FakeKyiv", "FakeWashingtonV2"]


def quiet():
    return contextlib.redirect_stdout(io.StringIO())


def fhex(x):
    """bit pattern of a binary64 as text; every NaN is 'nan' (text formats carry no payload)"""
    x = float(x)
    return "nan" if math.isnan(x) else x.hex()


class Tokens:
    """injective map bit pattern -> small integer; 0.0 is token 0"""

    def __init__(self):
        self.ids = {fhex(0.0): 0}

    def tok(self, x):
        return self.ids.setdefault(fhex(x), len(self.ids))

    def text(self, s):
        """token of a number written as text in a file"""
        try:
            return self.tok(float(s))
        except ValueError:
            return self.ids.setdefault("text:" + s, len(self.ids))

    def other(self, key):
        return self.ids.setdefault("other:" + str(key), len(self.ids))


def backend_names():
    from qiskit_ibm_runtime import fake_provider
    return sorted(n for n in dir(fake_provider) if n.startswith("Fake") and n not in ("FakeProviderForBackendV2", "FakeProviderFactory"))


def make_backend(name):
    from qiskit_ibm_runtime import fake_provider
    with warnings.catch_warnings():
        warnings.simplefilter("ignore")
        return getattr(fake_provider, name)()


class Pool:
    """Coq literal pool for one generated file: large literals are defined once and referred to by name"""

    def __init__(self, prefix="d"):
        self.defs, self.names, self.prefix, self.size = [], {}, prefix, 0

    def ref(self, text, typ=None, threshold=60):
        if len(text) < threshold:
            return text
        if text not in self.names:
            nm = "%s%d" % (self.prefix, len(self.names))
            self.names[text] = nm
            self.defs.append("Definition %s%s := %s." % (nm, (" : " + typ) if typ else "", text))
            self.size += len(text)
        return self.names[text]

    def text(self):
        return "\n".join(self.defs) + "\n"


def nat_list(xs):
    return "[" + ";".join("%d%%nat" % int(x) for x in xs) + "]"


def n_list(xs):
    return "[" + ";".join(str(int(x)) for x in xs) + "]"
