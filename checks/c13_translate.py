"""C13 translator: reads the CURRENT source of quantum_gates/_gates/pulse.py with `ast` and emits coq/Gen/GenPulse.v:
the two return expressions of GaussianPulse (waveform, parametrisation) and the loc/scale validation over section
variables pdf, cdf (scipy.stats.norm.pdf/cdf, arguments (x, loc, scale) as in the source), the way GaussianPulse /
ConstantPulse / ConstantPulseNumerical hand (waveform, parametrisation, use_lookup) to Pulse.__init__, the getters,
one/identity, and the class constants epsilon / check_n_points.  Fails closed on anything outside this vocabulary.
The three validation predicates of Pulse are modelled by hand (coq/Model/Pulse.v) and tied by the accept/reject runs."""
import ast, hashlib
from fractions import Fraction
from c12_translate import (Evaluator, Obj, PyTuple, Closure, TranslateError, fail, is_real, coq_of, coq_prop, py_of, free_vars,
                           q_coq, write_if_changed)

SELF = Obj("self")


class PulseEval(Evaluator):
    def __init__(self, cls_methods, attrs):
        super().__init__()
        self.m = cls_methods       # name -> FunctionDef of GaussianPulse
        self.attrs = attrs         # self._loc / self._scale as set by __init__
        self.super_kwargs = None
        self.validate_called = None
        self.typechecks = []

    def expr(self, n, env):
        if isinstance(n, ast.List):
            items = []
            for x in n.elts:
                if isinstance(x, ast.Name) and x.id in ("int", "float"):
                    items.append(x.id)
                elif isinstance(x, ast.Attribute) and isinstance(x.value, ast.Name) and x.value.id == "np" and x.attr in ("float64", "float32", "int64"):
                    items.append("np." + x.attr)
                else:
                    fail(n, "list of something else than numeric types")
            return Obj("types", items=items)
        if isinstance(n, ast.Name) and n.id in ("type", "super") and n.id not in env:
            return Obj(n.id + "fn")
        if isinstance(n, ast.Name) and n.id == "GaussianPulse" and n.id not in env:
            return Obj("cls")
        if isinstance(n, ast.Constant) and isinstance(n.value, bool):
            return Obj("bool", value=n.value)
        return super().expr(n, env)

    def attribute(self, n, env):
        # scipy.stats.norm.pdf / cdf
        chain, b = [n.attr], n.value
        while isinstance(b, ast.Attribute):
            chain.append(b.attr); b = b.value
        if isinstance(b, ast.Name) and b.id == "scipy" and "scipy" not in env:
            chain = chain[::-1]
            if chain in (["stats", "norm", "pdf"], ["stats", "norm", "cdf"]):
                return Obj("normfn", name=chain[2])
            fail(n, "scipy function outside the vocabulary")
        base = self.expr(n.value, env)
        if base is SELF:
            if n.attr in self.attrs:
                return self.attrs[n.attr]
            if n.attr in self.m:
                return Obj("method", name=n.attr)
            fail(n, "attribute of self that is neither set by __init__ nor a method")
        if isinstance(base, Obj) and base.tag == "superobj" and n.attr == "__init__":
            return Obj("superinit")
        fail(n, "unknown attribute")

    def call_obj(self, f, args, kwargs, n, env):
        if not isinstance(f, Obj):
            fail(n, "call of a non-callable term")
        if f.tag == "normfn":
            if kwargs or len(args) != 3 or not all(is_real(x) for x in args):
                fail(n, "scipy.stats.norm.%s must be called as (x, loc, scale)" % f.name)
            return ("app", f.name, args)
        if f.tag == "typefn":
            if kwargs or len(args) != 1 or not (isinstance(args[0], tuple) and args[0][0] == "var"):
                fail(n, "type() of something else than a parameter")
            return Obj("typeof", var=args[0][1])
        if f.tag == "superfn":
            if kwargs or not (len(args) == 0 or (len(args) == 2 and isinstance(args[0], Obj) and args[0].tag == "cls" and args[1] is SELF)):
                fail(n, "unexpected super(...) form")
            return Obj("superobj")
        if f.tag == "superinit":
            if args or self.super_kwargs is not None:
                fail(n, "super().__init__ must be called once with keyword arguments")
            self.super_kwargs = kwargs
            return Obj("none")
        if f.tag == "method" and f.name == "_validate_inputs":
            if kwargs or len(args) != 2 or self.validate_called is not None:
                fail(n, "_validate_inputs must be called once as (loc, scale)")
            self.validate_called = args
            fd = self.m["_validate_inputs"]
            if [ast.dump(d) for d in fd.decorator_list] != [ast.dump(ast.Name(id="staticmethod", ctx=ast.Load()))]:
                fail(fd, "_validate_inputs is not a plain staticmethod")
            ps = [a.arg for a in fd.args.args]
            if len(ps) != 2:
                fail(fd, "_validate_inputs signature changed")
            r = self.block(list(fd.body), dict(zip(ps, args)))
            if r is not None:
                fail(fd, "_validate_inputs returns a value")
            return Obj("none")
        fail(n, "call of an unknown object %r" % (f,))

    def compare_obj(self, op, l, r, n, env):
        if isinstance(op, ast.In) and isinstance(l, Obj) and l.tag == "typeof" and isinstance(r, Obj) and r.tag == "types":
            return Obj("typecheck", var=l.var, types=r.items)
        fail(n, "unknown comparison")

    def store(self, target, value, node, env):
        if isinstance(target, ast.Attribute) and self.expr(target.value, env) is SELF:
            if target.attr in self.attrs:
                fail(node, "attribute set twice")
            self.attrs[target.attr] = value
            return
        fail(node, "assignment to an unsupported target")

    def block(self, stmts, env, assigned=frozenset()):
        # expression statements that are calls (validation, super().__init__) are executed for their effect
        if stmts and isinstance(stmts[0], ast.Expr) and isinstance(stmts[0].value, ast.Call):
            self.expr(stmts[0].value, env)
            return self.block(stmts[1:], env, assigned)
        return super().block(stmts, env, assigned)


def _plain_args(fd, names=None, defaults_ok=True):
    a = fd.args
    if a.vararg or a.kwarg or a.kwonlyargs or a.posonlyargs:
        fail(fd, "non-plain parameters")
    ps = [x.arg for x in a.args]
    if names is not None and ps != names:
        fail(fd, "signature changed: %s" % ps)
    return ps


def _const_default(fd, name, want):
    a = fd.args
    ps = [x.arg for x in a.args]
    off = len(ps) - len(a.defaults)
    i = ps.index(name) - off
    if i < 0 or not (isinstance(a.defaults[i], ast.Constant) and a.defaults[i].value is want):
        fail(fd, "default of %s is not %r" % (name, want))


def _single_return(fd, nparams):
    """function/method whose body is [docstring] return <expr>; returns (params, expr node)"""
    ps = _plain_args(fd)
    if len(ps) != nparams or fd.decorator_list:
        fail(fd, "unexpected signature of %s" % fd.name)
    body = [s for s in fd.body if not (isinstance(s, ast.Expr) and isinstance(s.value, ast.Constant) and isinstance(s.value.value, str))]
    if len(body) != 1 or not isinstance(body[0], ast.Return) or body[0].value is None:
        fail(fd, "%s is not a single return" % fd.name)
    return ps, body[0].value


def _class_body(cls):
    consts, methods = {}, {}
    for n in cls.body:
        if isinstance(n, ast.Expr) and isinstance(n.value, ast.Constant) and isinstance(n.value.value, str):
            continue
        if isinstance(n, ast.Assign) and len(n.targets) == 1 and isinstance(n.targets[0], ast.Name) and isinstance(n.value, ast.Constant):
            consts[n.targets[0].id] = n.value.value
            continue
        if isinstance(n, ast.FunctionDef):
            if n.name in methods:
                fail(n, "duplicate method")
            methods[n.name] = n
            continue
        fail(n, "unexpected statement in class %s" % cls.name)
    return consts, methods


def _super_kwargs_of(fd, clsname):
    """__init__(self) whose only statement is super(...).__init__(pulse=NAME, parametrization=NAME, perform_checks=CONST, use_lookup=CONST)"""
    _plain_args(fd, ["self"])
    body = [s for s in fd.body if not (isinstance(s, ast.Expr) and isinstance(s.value, ast.Constant))]
    if len(body) != 1 or not (isinstance(body[0], ast.Expr) and isinstance(body[0].value, ast.Call)):
        fail(fd, "%s.__init__ is not a single super().__init__ call" % clsname)
    c = body[0].value
    f = c.func
    ok = isinstance(f, ast.Attribute) and f.attr == "__init__" and isinstance(f.value, ast.Call) and isinstance(f.value.func, ast.Name) and f.value.func.id == "super"
    if ok and f.value.args:
        sa = f.value.args
        ok = len(sa) == 2 and isinstance(sa[0], ast.Name) and sa[0].id == clsname and isinstance(sa[1], ast.Name) and sa[1].id == "self"
    if not ok or c.args:
        fail(fd, "%s.__init__ does not call super().__init__ with keywords" % clsname)
    kw = {}
    for k in c.keywords:
        if isinstance(k.value, ast.Name):
            kw[k.arg] = ("name", k.value.id)
        elif isinstance(k.value, ast.Constant) and isinstance(k.value.value, bool):
            kw[k.arg] = ("bool", k.value.value)
        else:
            fail(fd, "unexpected keyword value")
    if set(kw) != {"pulse", "parametrization", "perform_checks", "use_lookup"}:
        fail(fd, "super().__init__ keywords changed: %s" % sorted(kw))
    return kw


def translate_pulse(path):
    src = open(path).read()
    mod = ast.parse(src)
    classes = {n.name: n for n in mod.body if isinstance(n, ast.ClassDef)}
    funcs = {n.name: n for n in mod.body if isinstance(n, ast.FunctionDef)}
    for need in ("Pulse", "ConstantPulse", "ConstantPulseNumerical", "GaussianPulse"):
        if need not in classes:
            raise TranslateError("class %s not found" % need)
    out = {"sha256": hashlib.sha256(src.encode()).hexdigest(), "path": path}

    # ---- module functions one / identity
    ev0 = Evaluator()
    out["funcs"] = {}
    for nm in ("one", "identity"):
        if nm not in funcs:
            raise TranslateError("function %s not found" % nm)
        ps, e = _single_return(funcs[nm], 1)
        t = ev0.expr(e, {ps[0]: ("var", "x")})
        if not is_real(t) or free_vars(t) - {"x"}:
            fail(funcs[nm], "body is not a real term in x")
        out["funcs"][nm] = t

    # ---- class Pulse: constants, what __init__ stores, what the getters return
    consts, pm = _class_body(classes["Pulse"])
    if set(consts) != {"epsilon", "check_n_points"}:
        raise TranslateError("Pulse class constants changed: %s" % sorted(consts))
    eps, npts = consts["epsilon"], consts["check_n_points"]
    if not (isinstance(eps, float) and isinstance(npts, int) and not isinstance(npts, bool)):
        raise TranslateError("epsilon / check_n_points of unexpected type")
    out["epsilon"], out["check_n_points"] = eps, npts
    if set(pm) != {"__init__", "get_pulse", "get_parametrization", "_pulse_is_valid", "_parametrization_is_valid", "_are_compatible"}:
        raise TranslateError("method set of Pulse changed: %s" % sorted(pm))
    init = pm["__init__"]
    _plain_args(init, ["self", "pulse", "parametrization", "perform_checks", "use_lookup"])
    _const_default(init, "perform_checks", False); _const_default(init, "use_lookup", False)
    body = [s for s in init.body if not (isinstance(s, ast.Expr) and isinstance(s.value, ast.Constant))]
    checks = []
    if not (body and isinstance(body[0], ast.If) and isinstance(body[0].test, ast.Name) and body[0].test.id == "perform_checks" and not body[0].orelse):
        fail(init, "Pulse.__init__ does not start with `if perform_checks:`")
    for s in body[0].body:
        c = s.test if isinstance(s, ast.Assert) else None
        if not (isinstance(c, ast.Call) and isinstance(c.func, ast.Attribute) and isinstance(c.func.value, ast.Name) and c.func.value.id == "self"
                and all(isinstance(x, ast.Name) for x in c.args) and not c.keywords):
            fail(s, "validation block contains something else than assert self._check(args)")
        checks.append((c.func.attr, [x.id for x in c.args]))
    if checks != [("_pulse_is_valid", ["pulse"]), ("_parametrization_is_valid", ["parametrization"]), ("_are_compatible", ["pulse", "parametrization"])]:
        raise TranslateError("validation sequence of Pulse.__init__ changed: %r" % (checks,))
    stored = {}
    for s in body[1:]:
        if not (isinstance(s, ast.Assign) and len(s.targets) == 1 and isinstance(s.targets[0], ast.Attribute) and isinstance(s.targets[0].value, ast.Name)
                and s.targets[0].value.id == "self" and isinstance(s.value, ast.Name)):
            fail(s, "Pulse.__init__ does something else than storing its arguments")
        stored[s.targets[0].attr] = s.value.id
    if stored != {"pulse": "pulse", "parametrization": "parametrization", "use_lookup": "use_lookup"}:
        raise TranslateError("Pulse.__init__ stores %r" % (stored,))
    for g, attr in (("get_pulse", "pulse"), ("get_parametrization", "parametrization")):
        ps, e = _single_return(pm[g], 1)
        if not (isinstance(e, ast.Attribute) and isinstance(e.value, ast.Name) and e.value.id == "self" and e.attr == attr):
            fail(pm[g], "%s does not return self.%s" % (g, attr))
    out["checks"] = checks

    # ---- shipped constant pulses
    out["constant"] = {}
    for cn in ("ConstantPulse", "ConstantPulseNumerical"):
        c2, m2 = _class_body(classes[cn])
        if c2 or set(m2) != {"__init__"}:
            raise TranslateError("%s changed shape" % cn)
        kw = _super_kwargs_of(m2["__init__"], cn)
        for k in ("pulse", "parametrization"):
            if kw[k][0] != "name" or kw[k][1] not in out["funcs"]:
                raise TranslateError("%s passes %s=%r" % (cn, k, kw[k]))
        if kw["use_lookup"][0] != "bool" or kw["perform_checks"][0] != "bool":
            raise TranslateError("%s passes non-constant flags" % cn)
        out["constant"][cn] = {"pulse": kw["pulse"][1], "parametrization": kw["parametrization"][1], "use_lookup": kw["use_lookup"][1]}

    # ---- GaussianPulse
    gc, gm = _class_body(classes["GaussianPulse"])
    if set(gm) != {"__init__", "_gaussian_pulse", "_gaussian_parametrization", "_validate_inputs"}:
        raise TranslateError("method set of GaussianPulse changed: %s" % sorted(gm))
    if set(gc) - {"use_lookup"} or gc.get("use_lookup", False) is not False:
        raise TranslateError("GaussianPulse class constants changed")
    ginit = gm["__init__"]
    _plain_args(ginit, ["self", "loc", "scale", "perform_checks"])
    ev = PulseEval(gm, {})
    r = ev.block(list(ginit.body), {"self": SELF, "loc": ("var", "loc"), "scale": ("var", "scale"), "perform_checks": ("boolvar", "perform_checks")})
    if r is not None:
        raise TranslateError("GaussianPulse.__init__ returns a value")
    if ev.validate_called != [("var", "loc"), ("var", "scale")]:
        raise TranslateError("GaussianPulse.__init__ does not call _validate_inputs(loc, scale)")
    if set(ev.attrs) != {"_loc", "_scale"}:
        raise TranslateError("GaussianPulse.__init__ sets %s" % sorted(ev.attrs))
    kw = ev.super_kwargs
    if kw is None or set(kw) != {"pulse", "parametrization", "perform_checks", "use_lookup"}:
        raise TranslateError("GaussianPulse.__init__ does not call super().__init__ with the four keywords")
    for k in ("pulse", "parametrization"):
        if not (isinstance(kw[k], Obj) and kw[k].tag == "method" and kw[k].name in ("_gaussian_pulse", "_gaussian_parametrization")):
            raise TranslateError("GaussianPulse passes %s=%r" % (k, kw[k]))
    if kw["perform_checks"] != ("boolvar", "perform_checks") or not (isinstance(kw["use_lookup"], Obj) and kw["use_lookup"].tag == "bool"):
        raise TranslateError("GaussianPulse passes unexpected flags")
    out["gauss_args"] = {"pulse": kw["pulse"].name, "parametrization": kw["parametrization"].name, "use_lookup": kw["use_lookup"].value}
    # requires recorded while executing _validate_inputs
    reqs, tchecks = [], []
    for q in ev.requires:
        if isinstance(q, Obj) and q.tag == "typecheck":
            tchecks.append((q.var, q.types))
        elif isinstance(q, tuple) and q[0] == "ne":
            reqs.append(q)
        else:
            raise TranslateError("unknown assertion in _validate_inputs")
    if len(reqs) != 1:
        raise TranslateError("_validate_inputs does not assert exactly one numeric condition")
    out["validate"] = reqs[0]
    out["typechecks"] = tchecks
    out["methods"] = {}
    for mn in ("_gaussian_pulse", "_gaussian_parametrization"):
        ps, e = _single_return(gm[mn], 2)
        ev2 = PulseEval(gm, dict(ev.attrs))
        t = ev2.expr(e, {ps[0]: SELF, ps[1]: ("var", "x")})
        if not is_real(t) or free_vars(t) - {"x", "loc", "scale"}:
            fail(gm[mn], "return value is not a real term in x, loc, scale")
        out["methods"][mn] = t
    out["coq"] = emit_coq(out)
    return out


def _sec(term):
    """pdf/cdf are section variables: print applications without extra parameters"""
    return coq_of(term)


def emit_coq(tr):
    L = []
    w = L.append
    w("(* GENERATED on every run by checks/c13_translate.py from %s" % tr["path"])
    w("   sha256 %s.  DO NOT EDIT. *)" % tr["sha256"])
    w("From Coq Require Import Reals.")
    w("Open Scope R_scope.\n")
    for nm, t in tr["funcs"].items():
        w("Definition %s (x : R) : R := %s." % (nm, coq_of(t)))
    w("")
    for cn, d in tr["constant"].items():
        w("(* %s.__init__: super().__init__(pulse=%s, parametrization=%s, use_lookup=%s) *)" % (cn, d["pulse"], d["parametrization"], d["use_lookup"]))
        w("Definition %s_waveform : R -> R := %s." % (cn, d["pulse"]))
        w("Definition %s_parametrization : R -> R := %s." % (cn, d["parametrization"]))
        w("Definition %s_use_lookup : bool := %s." % (cn, "true" if d["use_lookup"] else "false"))
    w("\n(* Pulse.epsilon (the float, exactly) and Pulse.check_n_points *)")
    w("Definition Pulse_epsilon : R := %s." % q_coq(Fraction(tr["epsilon"])))
    w("Definition Pulse_check_n_points : nat := %d.\n" % tr["check_n_points"])
    w("Section Gaussian.")
    w("(* scipy.stats.norm.pdf / cdf, called as (x, loc, scale) *)")
    w("Variables pdf cdf : R -> R -> R -> R.")
    w("(* constructor arguments; __init__ stores self._loc, self._scale and the methods below read them *)")
    w("Variables loc scale : R.\n")
    for mn, t in tr["methods"].items():
        w("Definition %s (x : R) : R := %s." % (mn.lstrip("_"), _sec(t)))
    v = tr["validate"]
    w("\n(* _validate_inputs(loc, scale): assert <lhs> != <rhs> *)")
    w("Definition validate_denominator : R := %s." % _sec(v[1]))
    w("Definition validate_inputs_ok : Prop := %s." % coq_prop(("ne", ("var", "validate_denominator"), v[2])))
    w("\n(* what GaussianPulse hands to Pulse.__init__ *)")
    w("Definition GaussianPulse_waveform : R -> R := %s." % tr["gauss_args"]["pulse"].lstrip("_"))
    w("Definition GaussianPulse_parametrization : R -> R := %s." % tr["gauss_args"]["parametrization"].lstrip("_"))
    w("Definition GaussianPulse_use_lookup : bool := %s." % ("true" if tr["gauss_args"]["use_lookup"] else "false"))
    w("End Gaussian.")
    return "\n".join(L) + "\n"


if __name__ == "__main__":
    import sys
    p = sys.argv[1] if len(sys.argv) > 1 else "/repo/src/quantum_gates/_gates/pulse.py"
    tr = translate_pulse(p)
    print(tr["coq"])
    print("(* typechecks: %r *)" % (tr["typechecks"],))
