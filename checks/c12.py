"""C12 — the integrator returns the pulse-shaped Ito integrals.

Tie (T): checks/c12_translate.py regenerates coq/Gen/GenIntegrator.v from the CURRENT integrator.py (fail closed) and the
theorems of coq/Props/C12.v are re-checked over it.  The translator is validated each run by evaluating a Python
mirror of every emitted term against the real objects (exact float equality), and the Coq meaning of the emitted
terms is exercised with `interval` / `integral` (Coq-Interval) against the implementation's floats.
Direct oracle (independent of translator and model): scipy quad of g(theta*F(t/a)) with tight tolerances vs
Integrator(pulse).integrate(key, theta, a); cold vs warm cache bit-identical; evaluation order irrelevant."""
import sys, os, json, math, pickle
from fractions import Fraction
from vlib.common import Check, VERIF, COQ, SRC
import c12_translate as T
import c13_translate as TP

TOL = 1e-7

# the specification's integrands, written here independently of the source
G = {
    "sin(theta/a)**2": lambda x: math.sin(x) ** 2,
    "sin(theta/(2*a))**4": lambda x: math.sin(x / 2) ** 4,
    "sin(theta/a)*sin(theta/(2*a))**2": lambda x: math.sin(x) * math.sin(x / 2) ** 2,
    "sin(theta/(2*a))**2": lambda x: math.sin(x / 2) ** 2,
    "cos(theta/a)**2": lambda x: math.cos(x) ** 2,
    "sin(theta/a)*cos(theta/a)": lambda x: math.sin(x) * math.cos(x),
    "sin(theta/a)": lambda x: math.sin(x),
    "cos(theta/(2*a))**2": lambda x: math.cos(x / 2) ** 2,
}
KEYLIST = list(G)


# ------------------------------------------------------------------------------------------------ pulses by spec
def poly_f(x):
    return 6.0 * x * (1.0 - x)


def poly_F(x):
    return x * x * (3.0 - 2.0 * x)


def sin2_f(x):
    return 2.0 * math.sin(math.pi * x) ** 2


def sin2_F(x):
    return x - math.sin(2.0 * math.pi * x) / (2.0 * math.pi)


def make_pulse(spec):
    """spec: ['const'] | ['constnum'] | ['gauss', loc, scale] | ['poly'] | ['sin2']; returns (pulse object, reference F)"""
    from quantum_gates._gates import pulse as P
    import scipy.stats
    kind = spec[0]
    if kind == "const":
        return P.ConstantPulse(), (lambda x: x)
    if kind == "constnum":
        return P.ConstantPulseNumerical(), (lambda x: x)
    if kind == "gauss":
        loc, scale = spec[1], spec[2]
        c0 = _ncdf((0.0 - loc) / scale); c1 = _ncdf((1.0 - loc) / scale)
        return P.GaussianPulse(loc=loc, scale=scale), (lambda x: (_ncdf((x - loc) / scale) - c0) / (c1 - c0))
    if kind == "poly":
        return P.Pulse(pulse=poly_f, parametrization=poly_F, perform_checks=False, use_lookup=False), poly_F
    if kind == "sin2":
        return P.Pulse(pulse=sin2_f, parametrization=sin2_F, perform_checks=False, use_lookup=False), sin2_F
    raise ValueError(spec)


def _ncdf(z):
    # independent of scipy.stats: the normal cdf through erfc
    return 0.5 * math.erfc(-z / math.sqrt(2.0))


def reference(spec, Fref, key, theta, a):
    import scipy.integrate
    g = G[key]
    pts = None
    if spec[0] == "gauss" and 0 < spec[1] < 1 and spec[2] < 0.2:
        pts = [a * min(max(spec[1] + s * spec[2], 0.0), 1.0) for s in (-6, -3, -1, 0, 1, 3, 6)]
        pts = sorted(set(p for p in pts if 0 < p < a))
    v, err = scipy.integrate.quad(lambda t: g(theta * Fref(t / a)), 0.0, a, epsabs=1e-13, epsrel=1e-13, limit=2000, points=pts)
    return v, err


def hexf(x):
    try:
        return float(x).hex()
    except Exception:
        return repr(x)


def run_impl(I, key, theta, a):
    try:
        return ("ok", float(I.integrate(key, theta, a)))
    except Exception as e:  # noqa
        return ("err", type(e).__name__)


def oracle_one(spec, key, theta, a, integrators=None):
    """returns (why or None, details)"""
    from quantum_gates._gates.integrator import Integrator
    pulse, Fref = make_pulse(spec)
    I = Integrator(pulse) if integrators is None else integrators.setdefault(json.dumps(spec), Integrator(pulse))
    r = run_impl(I, key, theta, a)
    ref, referr = reference(spec, Fref, key, theta, a)
    det = {"pulse": spec, "key": key, "theta": theta, "a": a, "got": r[1], "reference": ref, "reference_err": referr}
    if r[0] != "ok":
        return "integrate raised %s" % r[1], det
    if not (abs(r[1] - ref) <= TOL):   # also catches nan
        return "integrate returned %r, the integral of g(theta*F(t/a)) over [0,a] is %r (difference %.3g > %g)" % (r[1], ref, abs(r[1] - ref) if r[1] == r[1] else float("nan"), TOL), det
    if spec[0] in ("const", "constnum"):
        # the shipped constant pulses: also against the object's OWN parametrisation (the lookup route never calls it)
        import scipy.integrate
        Fobj = pulse.get_parametrization()
        ref2 = scipy.integrate.quad(lambda t: G[key](theta * Fobj(t / a)), 0.0, a, epsabs=1e-13, epsrel=1e-13, limit=2000)[0]
        if not (abs(r[1] - ref2) <= TOL):
            det["reference_own_parametrisation"] = ref2
            return "integrate returned %r, but with the pulse object's own parametrisation the integral of g(theta*F(t/a)) is %r" % (r[1], ref2), det
    w = run_impl(I, key, theta, a)     # warm
    if hexf(w[1]) != hexf(r[1]):
        return "cached value %r differs from the first evaluation %r" % (w[1], r[1]), det
    return None, det


def gen_cases(ck):
    """(family, pulse spec, key, theta, a)"""
    quick = ck.tier == "quick"
    thetas_core = [math.pi / 4, -math.pi / 4, math.pi / 2, -math.pi, math.pi, 2.0, -7.3, 0.0, 0, 1e-12, -1e-9, 1e-5, 25.0, 600.0, -1500.0]   # 'tiny and large'
    thetas_big = [100.0, -60.0]
    a_vals = [1.0, 0.3, 3.3, 3.2e-7 / 3.5e-8, 1.5, 1]
    pulses = [["const"], ["constnum"], ["gauss", 0.5, 0.25], ["gauss", 0.5, 0.1], ["gauss", 0.2, 0.5], ["gauss", -1.0, 2.0],
              ["gauss", 1.5, 0.7], ["gauss", 0.7, 0.05], ["poly"], ["sin2"]]
    cases = []
    # structured: every key x every pulse, a small grid of (theta, a)
    grid = [(thetas_core[i], a_vals[j]) for i in range(len(thetas_core)) for j in range(len(a_vals))]
    for p in pulses:
        for key in KEYLIST:
            if quick:
                sub = ck.rng.sample(grid, 7) + [(0.0, 3.3), (-math.pi / 4, 3.3), (2.0, 1.0)]
            else:
                sub = grid
            for th, a in sub:
                cases.append(("grid:" + p[0], p, key, th, a))
            for th in (thetas_big if not quick else thetas_big[:1]):
                cases.append(("large-angle:" + p[0], p, key, th, ck.rng.choice([1.0, 3.3])))
    # random
    n = 150 if quick else 1500
    for _ in range(n):
        kind = ck.rng.choice(["const", "constnum", "gauss", "gauss", "gauss", "poly", "sin2"])
        p = [kind]
        if kind == "gauss":
            while True:   # the documented domain: weight of the Gaussian on [0,1] above 1e-6
                p = ["gauss", round(ck.rng.uniform(-2, 3), 3), round(math.exp(ck.rng.uniform(math.log(0.05), math.log(10))), 4)]
                if _ncdf((1.0 - p[1]) / p[2]) - _ncdf((0.0 - p[1]) / p[2]) > 1e-6:
                    break
        th = ck.rng.choice([ck.rng.uniform(-7, 7), ck.rng.uniform(-40, 40), ck.rng.uniform(-1e-3, 1e-3)])
        a = ck.rng.choice([1.0, ck.rng.uniform(0.05, 12.0)])
        cases.append(("random:" + kind, p, ck.rng.choice(KEYLIST), th, a))
    return cases


# ------------------------------------------------------------------------------------------------ translator validation
def validate_translation(ck, tr):
    """evaluate the Python mirror of every emitted term against the real objects; exact float equality.
    returns list of (what, inputs) mismatches"""
    import numpy as np, scipy.integrate
    import quantum_gates._gates.integrator as ig
    from quantum_gates._gates.pulse import constant_pulse, GaussianPulse
    bad = []
    n = 0
    glob = {"np": np}
    mirror_tab = {"INTEGRAL": {}, "RESULT": {}}
    real_tab = {"INTEGRAL": ig.Integrator._INTEGRAL_LOOKUP, "RESULT": ig.Integrator._RESULT_LOOKUP}
    for tab in mirror_tab:
        for key, term in tr["tables"][tab].items():
            mirror_tab[tab][key] = eval("lambda theta, a: " + T.py_of(term), dict(glob))
    pts = [(ck.rng.uniform(-9, 9), ck.rng.uniform(0.05, 10)) for _ in range(40)] + [(0.0, 1.0), (1e-12, 3.3), (-2.5, 1.0), (0.75, 0.3)]
    with np.errstate(all="ignore"):
        for tab in mirror_tab:
            for key in KEYLIST:
                for th, a in pts:
                    n += 1
                    x, y = mirror_tab[tab][key](th, a), real_tab[tab][key](th, a)
                    if hexf(x) != hexf(y):
                        bad.append(("%s[%r]" % (tab, key), {"theta": th, "a": a, "mirror": hexf(x), "real": hexf(y)}))
        # key strings read as formulas: mirror at a=1 against the independent G (tolerance-free on the same libm? no: np vs math) -> use np both
        # methods
        gp = GaussianPulse(0.4, 0.3)
        Fg = gp.get_parametrization()
        quadv = lambda f, lo, hi: scipy.integrate.quad(f, lo, hi)[0]
        ana_src = "lambda KEY, theta, a: " + T.py_of(tr["analytical"])
        num_src = "lambda KEY, theta, a: " + T.py_of(tr["numerical"])
        qi_src = "lambda KEY, theta, a, %s: %s" % (tr["quad"]["var"], T.py_of(tr["quad"]["integrand"]))
        for use_lookup, F, pulse in ((True, (lambda x: x), constant_pulse), (False, Fg, gp)):
            env = dict(glob, TAB=mirror_tab, FUN={"F": F}, QUAD=quadv)
            ana = eval(ana_src, env); num = eval(num_src, env); qi = eval(qi_src, env)
            env2 = dict(env)
            env2["FUN"] = {"F": F, "analytical_integration": ana, "numerical_integration": num}
            integ = eval("lambda KEY, theta, a, use_lookup: " + T.py_of(tr["integrate"]), env2)
            for key in KEYLIST:
                for th, a in pts[:6] + pts[-4:]:
                    I = ig.Integrator(pulse)
                    n += 1
                    x, y = integ(key, th, a, use_lookup), I.integrate(key, th, a)
                    if hexf(x) != hexf(y):
                        bad.append(("integrate(use_lookup=%s)" % use_lookup, {"key": key, "theta": th, "a": a, "mirror": hexf(x), "real": hexf(y)}))
                    if use_lookup:
                        n += 1
                        x, y = ana(key, th, a), I._analytical_integration(key, th, a)
                        if hexf(x) != hexf(y):
                            bad.append(("_analytical_integration", {"key": key, "theta": th, "a": a, "mirror": hexf(x), "real": hexf(y)}))
                    else:
                        # capture what the real method hands to quad
                        cap = {}
                        orig = scipy.integrate.quad

                        def spy(f, *args, **kw):
                            cap["f"], cap["args"], cap["kw"] = f, args, kw
                            return orig(f, *args, **kw)
                        scipy.integrate.quad = spy
                        try:
                            y = I._numerical_integration(key, th, a)
                        finally:
                            scipy.integrate.quad = orig
                        n += 1
                        x = num(key, th, a)
                        if hexf(x) != hexf(y):
                            bad.append(("_numerical_integration", {"key": key, "theta": th, "a": a, "mirror": hexf(x), "real": hexf(y)}))
                        lo = eval(T.py_of(tr["quad"]["lower"]), {"theta": th, "a": a}); hi = eval(T.py_of(tr["quad"]["upper"]), {"theta": th, "a": a})
                        kw_ok = set(cap.get("kw") or {}) <= {"limit"} and int((cap.get("kw") or {}).get("limit", 50)) >= 50   # more subintervals than the default only
                        if not kw_ok or len(cap.get("args", ())) != 2 or hexf(cap["args"][0]) != hexf(lo) or hexf(cap["args"][1]) != hexf(hi):
                            bad.append(("quad bounds/options", {"key": key, "theta": th, "a": a, "real": repr((cap.get("args"), cap.get("kw")))}))
                        else:
                            for _ in range(5):
                                t = ck.rng.uniform(0, a)
                                n += 1
                                if hexf(qi(key, th, a, t)) != hexf(cap["f"](t)):
                                    bad.append(("quad integrand", {"key": key, "theta": th, "a": a, "t": t}))
    ck.count("translator-validation (python mirror == real objects, bitwise)", n)
    return bad


# ------------------------------------------------------------------------------------------------ Coq-side numerics
def coq_q(x):
    fr = Fraction(x)
    s = "(%d / %d)" % (abs(fr.numerator), fr.denominator) if fr.denominator != 1 else "%d" % abs(fr.numerator)
    return s if fr >= 0 else "(- %s)" % s


COQ_PRELUDE = """From Coq Require Import Reals Lra.
From Coquelicot Require Import Coquelicot.
From Interval Require Import Tactic.
Require Import QG.Model.Integrals QG.Gen.GenIntegrator.
Open Scope R_scope.
Definition Fpoly (x : R) : R := x * x * (3 - 2 * x).
Definition Fsin2 (x : R) : R := x - sin (2 * PI * x) / (2 * PI).
Ltac unf := unfold integrate_cold, analytical_integration, numerical_integration, quad, INTEGRAL, RESULT,
  INTEGRAL_K_sin2, INTEGRAL_K_sin4h, INTEGRAL_K_sin_sin2h, INTEGRAL_K_sin2h, INTEGRAL_K_cos2, INTEGRAL_K_sincos, INTEGRAL_K_sin, INTEGRAL_K_cos2h,
  RESULT_K_sin2, RESULT_K_sin4h, RESULT_K_sin_sin2h, RESULT_K_sin2h, RESULT_K_cos2, RESULT_K_sincos, RESULT_K_sin, RESULT_K_cos2h, Fpoly, Fsin2.
Ltac branch := match goal with |- context [Req_EM_T ?x ?y] => destruct (Req_EM_T x y) as [E|E]; [try (exfalso; lra) | try (exfalso; apply E; lra)] end.
"""


def coq_numeric_cases(ck, impl):
    """the generated Coq definitions evaluated by Coq-Interval at concrete arguments vs the implementation's float"""
    quick = ck.tier == "quick"
    pts = [(1.25, 3.3), (-1.75, 1.0), (0.0, 3.3), (3.0, 0.3)] if quick else [(1.25, 3.3), (-1.75, 1.0), (0.0, 3.3), (3.0, 0.3), (-0.5, 9.142857142857142), (6.5, 1.5), (1e-3, 1.0)]
    cases = []
    for key in KEYLIST:
        for th, a in pts:
            for route in [["const"], ["poly"]] + ([] if quick else [["constnum"], ["sin2"]]):
                v = impl(route, key, th, a)
                cases.append((route, key, th, a, v))
    return cases


def coq_numeric_text(cases):
    L = [COQ_PRELUDE]
    for i, (route, key, th, a, v) in enumerate(cases):
        kc = T.KEYS[key]
        ul, F = {"const": ("true", "(fun x => x)"), "constnum": ("false", "(fun x => x)"), "poly": ("false", "Fpoly"), "sin2": ("false", "Fsin2")}[route[0]]
        tol = "(1 / 100000000000)" if route[0] == "const" else "(2 / 10000000)"
        L.append("Goal Rabs (integrate_cold %s %s %s %s %s - %s) <= %s." % (ul, F, kc, coq_q(th), coq_q(a), coq_q(v), tol))
        if route[0] == "const":
            L.append("Proof. unf. branch. interval with (i_prec 80). Qed.")
        else:
            L.append("Proof. unf. integral with (i_prec 50, i_fuel 2000, i_width (-30)). Qed.")
    return "\n".join(L) + "\n"


def main(argv):
    ck = Check("C12", argv)
    ck.rule = ("oracle cases = (pulse, key, theta, a): every key x every pulse on a (theta, a) grid (theta of both signs, 0, 0.0, 1e-12, "
               "-1e-9, 1e-5, multiples of pi/4, 25, large), a in {1, 0.3, 1.5, 3.3, 9.142857 (= t_cr/tg of the shipped device)}, plus random draws "
               "(Gaussian loc in [-2,3], scale in [0.05,10]); a case is non-trivial when theta != 0; distinct = distinct (pulse, key, theta, a)")
    ck.trusted = ["Coq 8.16.1 kernel; Coquelicot (is_RInt, RInt, is_lim); Coq-Interval for the numeric spot checks",
                  "scipy.integrate.quad returns the Riemann integral of the function it is handed (accuracy of the quadrature; "
                  "modelled as quad f lo hi := RInt f lo hi)",
                  "checks/c12_translate.py: the printer from the validated expression tree to Coq text (the tree itself is validated "
                  "bitwise against the real lambdas / methods on every run)",
                  "numpy sin/cos/float arithmetic approximate the real functions (floating-point rounding is outside the model)",
                  "the reference quadrature of the oracle (scipy quad, epsabs=epsrel=1e-13) and math.erfc for the Gaussian reference"]
    ck.assume = ["memoisation: cached = uncached is C10's theorem; here the cache protocol is checked syntactically by the translator and "
                 "cold vs warm values are compared bitwise",
                 "use_lookup=True is only used with the constant pulse (pulse.py: ConstantPulse); the theorem carries this as a hypothesis"]
    srcfile = os.path.join(SRC, "quantum_gates", "_gates", "integrator.py")

    if ck.replay:
        doc = json.load(open(ck.replay))["replay"]
        if "pulse" in doc:
            why, det = oracle_one(doc["pulse"], doc["key"], doc["theta"], doc["a"])
            print("replay:", json.dumps(det), "->", why or "holds")
        else:
            print("replay names a proof obligation / correspondence family, no concrete input:", json.dumps(doc)[:600])
        return 0

    # 1. translate (fail closed)
    tr, terr = None, None
    try:
        tr = T.translate_integrator(srcfile)
        T.write_if_changed(os.path.join(COQ, "Gen", "GenIntegrator.v"), tr["coq"])
        # Props/C12.v also states the result for the pulses pulse.py ships (C12_shipped_pulses): regenerate GenPulse.v too
        trp = TP.translate_pulse(os.path.join(SRC, "quantum_gates", "_gates", "pulse.py"))
        T.write_if_changed(os.path.join(COQ, "Gen", "GenPulse.v"), trp["coq"])
    except (T.TranslateError, SyntaxError) as e:
        tr = None
        terr = "%s: %s" % (type(e).__name__, e)
    ck.oblige("translate integrator.py -> Gen/GenIntegrator.v and pulse.py -> Gen/GenPulse.v (fail closed)", tr is not None)
    ck.extra["source_sha256"] = tr["sha256"] if tr else None

    import quantum_gates._gates.integrator as ig
    if os.path.realpath(ig.__file__) != os.path.realpath(srcfile):
        ck.notes.append("imported integrator module %s is not the translated file %s" % (ig.__file__, srcfile))
        ck.oblige("translated file is the imported module", False)

    # 2. proofs
    bad = ck.hygiene()
    if bad:
        ck.report("hygiene", "forbidden construct in the Coq development: " + "; ".join(bad[:5]), {"theorem": "hygiene", "where": bad}, False)
    proofs_ok, failing, out = (False, "translation", terr)
    if tr is not None:
        proofs_ok, failing, out = ck.coq_props()

    # 3. translator validation
    mirror_bad = []
    if tr is not None:
        try:
            mirror_bad = validate_translation(ck, tr)
        except Exception as e:  # noqa
            mirror_bad = [("validation raised %s: %s" % (type(e).__name__, e), {})]
        ck.oblige("translator validation: mirror of the emitted terms == real lambdas/methods, bitwise", not mirror_bad)

    # 4. direct oracle on the implementation
    cases = gen_cases(ck)
    failures = []
    integrators = {}
    firsts = {}
    for fam, spec, key, th, a in cases:
        try:
            why, det = oracle_one(spec, key, th, a, integrators)
        except Exception as e:  # noqa
            why, det = "oracle raised %s: %s" % (type(e).__name__, e), {"pulse": spec, "key": key, "theta": th, "a": a}
        firsts[(json.dumps(spec), key, hexf(th), hexf(a))] = det.get("got")
        ck.count(fam, 1, key=(json.dumps(spec), key, hexf(th), hexf(a)) if th != 0 else None,
                 sample={"pulse": spec, "key": key, "theta": th, "a": a, "got": det.get("got"), "reference": det.get("reference")})
        if why:
            failures.append((why, det))
    # order independence / fresh object: re-evaluate everything in another order on fresh integrators
    from quantum_gates._gates.integrator import Integrator
    order = list(cases)
    ck.rng.shuffle(order)
    fresh = {}
    for fam, spec, key, th, a in order[: (600 if ck.tier == "quick" else len(order))]:
        I = fresh.get(json.dumps(spec))
        if I is None:
            I = fresh[json.dumps(spec)] = Integrator(make_pulse(spec)[0])
        r = run_impl(I, key, th, a)
        ck.count("fresh-object-other-order", 1)
        if hexf(r[1]) != hexf(firsts[(json.dumps(spec), key, hexf(th), hexf(a))]):
            failures.append(("value depends on the evaluation history: %r on a fresh integrator in another order, %r before" % (r[1], firsts[(json.dumps(spec), key, hexf(th), hexf(a))]),
                             {"pulse": spec, "key": key, "theta": th, "a": a, "got": r[1]}))
    # constant pulse: lookup vs numerical
    for key in KEYLIST:
        for th in (0.0, 1e-12, -1e-9, 1e-5, math.pi / 4, -math.pi, 2.0, 25.0):
            for a in (1.0, 0.3, 3.3):
                x = run_impl(integrators.setdefault('["const"]', Integrator(make_pulse(["const"])[0])), key, th, a)
                y = run_impl(integrators.setdefault('["constnum"]', Integrator(make_pulse(["constnum"])[0])), key, th, a)
                ck.count("const: lookup vs numerical", 1)
                if x[0] != "ok" or y[0] != "ok" or not abs(x[1] - y[1]) <= TOL:
                    failures.append(("constant pulse: lookup %r and numerical integration %r disagree" % (x[1], y[1]), {"pulse": ["const"], "key": key, "theta": th, "a": a, "got": x[1]}))
    # validation behaviour = integrate_requires (a > 0, known key)
    req_bad = []
    for a in (0.0, -1.0, 0, -3.3):
        for spec in (["const"], ["poly"]):
            r = run_impl(Integrator(make_pulse(spec)[0]), KEYLIST[0], 1.0, a)
            ck.count("requires", 1)
            if r != ("err", "AssertionError"):
                req_bad.append((spec, a, r))
    r = run_impl(Integrator(make_pulse(["const"])[0]), "sin(theta)", 1.0, 1.0)
    ck.count("requires", 1)
    if r != ("err", "AssertionError"):
        req_bad.append((["const"], "unknown key", r))
    if tr is not None:
        want = [("inkeys",), ("gt", ("var", "a"), ("num", Fraction(0), False))]
        ck.oblige("integrate validates exactly: key in table, a > 0 (translated asserts and runtime behaviour)", tr["requires"] == want and not req_bad)
        if tr["requires"] != want or req_bad:
            failures.append(("integrate's input validation is not `known key and a > 0`: asserts %r, runtime %r" % (tr["requires"], req_bad[:2]),
                             {"pulse": ["const"], "key": KEYLIST[0], "theta": 1.0, "a": 0.0, "got": None}))
    ck.oblige("direct oracle: integrate == independent quadrature (1e-7), warm == cold bitwise, order-independent: %d cases" % len(cases), not failures)

    # 5. Coq-side numerics over the generated definitions
    coq_bad = []
    if tr is not None and proofs_ok:
        def impl(route, key, th, a):
            return run_impl(Integrator(make_pulse(route)[0]), key, th, a)[1]
        ncases = coq_numeric_cases(ck, impl)
        ncases = [c for c in ncases if isinstance(c[4], float) and c[4] == c[4]]
        per = 8
        shards = [("c12_num_%d" % (i // per), coq_numeric_text(ncases[i:i + per])) for i in range(0, len(ncases), per)]
        for (name, rc, o), i in zip(ck.coq_eval_many(shards, timeout=600), range(0, len(ncases), per)):
            ck.count("coq-interval: generated definitions vs implementation floats", len(ncases[i:i + per]))
            if rc != 0:
                coq_bad.append((name, ncases[i:i + per], o[-600:]))
        ck.oblige("Coq-Interval certifies integrate_cold (generated) within 2e-7 of the implementation on %d points" % len(ncases), not coq_bad)

    # 5b. fixed probes at the two known limits of the default quadrature / of the closed forms (DESIGN 0.5, known_findings.json): each is
    #     reported under its own key, so a listed one prints KNOWN-FINDING and any other violation is still reported as such
    probes = [("narrow-gaussian:0.19:0.005:cos(theta/a)**2:pi:1", ["gauss", 0.19, 0.005], "cos(theta/a)**2", math.pi, 1.0),
              ("narrow-gaussian:0.77:0.003:sin(theta/a):pi:1", ["gauss", 0.77, 0.003], "sin(theta/a)", math.pi, 1.0),
              ("subnormal-theta:cos(theta/a)**2:5e-324:7.3", ["const"], "cos(theta/a)**2", 5e-324, 7.3)]
    for pkey, spec, key, th, a in probes:
        ck.count("known_limit_probes", 1, key=pkey)
        try:
            why, det = oracle_one(spec, key, th, a)
        except Exception as e:  # noqa
            why, det = "probe raised %s: %s" % (type(e).__name__, e), {"pulse": spec, "key": key, "theta": th, "a": a}
        if why:
            ck.report("oracle:" + pkey, "Integrator(%s).integrate(%r, %r, %r): %s" % (spec, key, th, a, why), det, True)

    # 6. reporting
    if failures:
        seen = set()
        for why, det in failures:
            fam = (det.get("pulse") or ["?"])[0] + ":" + why.split(" ")[0]
            if fam in seen or len(seen) >= 3:
                continue
            seen.add(fam)
            ck.report("oracle:" + fam, "Integrator(%s).integrate(%r, %r, %r): %s" % (det.get("pulse"), det.get("key"), det.get("theta"), det.get("a"), why), det, True)
    else:
        if tr is None:
            ck.report("translate", "integrator.py / pulse.py is outside the translator's vocabulary (fail closed): %s; the direct oracle passes on every explored input" % terr,
                      {"theorem": "translation of integrator.py", "error": terr}, False)
        elif mirror_bad:
            ck.report("translator-validation", "emitted model and real objects differ: %s %s; the direct oracle passes on every explored input" % mirror_bad[0],
                      {"correspondence": "translator validation", "first": mirror_bad[0][0], "inputs": mirror_bad[0][1]}, False)
        if tr is not None and not proofs_ok:
            ck.report("proof:" + str(failing), "proof obligation over the regenerated model no longer checks: %s; the direct oracle passes on every explored input" % failing,
                      {"theorem": failing, "log": (out or "")[-1500:]}, False)
        if coq_bad:
            name, cs, o = coq_bad[0]
            ck.report("coq-numeric", "Coq-Interval could not certify the generated definitions against the implementation's values (%s)" % name,
                      {"correspondence": "coq-interval", "cases": [list(c) for c in cs], "log": o}, False)
    if failures and tr is None:
        ck.notes.append("translation failed: %s" % terr)
    if failures and tr is not None and not proofs_ok:
        ck.notes.append("proof obligation %s also fails over the regenerated model" % failing)
    return ck.finish()


if __name__ == "__main__":
    sys.exit(main(sys.argv[1:]))
