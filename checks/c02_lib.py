"""Helpers for the C02 check: symbolic matrix tokens + the three-function numpy shim, qubit-pattern generators,
Gaussian-integer matrices and the sequential tensordot reference (the property's direct oracle)."""
import contextlib, itertools
import numpy as np


# ------------------------------------------------------------------------------------------------ symbolic run
class Tok:
    """symbolic matrix: expression tree over tokens, '@', kron, identity"""
    __slots__ = ("t",)

    def __init__(self, t):
        self.t = t

    def __matmul__(self, other):
        if not isinstance(other, Tok):
            raise TypeError("symbolic @ with a non-symbolic operand")
        return Tok(("M", self.t, other.t))

    def __repr__(self):
        return coq_term(self.t)


class NumpyShim:
    """what circ_optimizer may use of numpy: identity(2|4) and kron; anything else fails closed (AttributeError)"""

    @staticmethod
    def identity(n):
        if n not in (2, 4):
            raise ValueError("shim: identity(%r)" % (n,))
        return Tok(("I", n))

    @staticmethod
    def kron(a, b):
        if not (isinstance(a, Tok) and isinstance(b, Tok)):
            raise TypeError("symbolic kron with a non-symbolic operand")
        return Tok(("K", a.t, b.t))


@contextlib.contextmanager
def symbolic_numpy(co):
    old = co.np
    co.np = NumpyShim
    try:
        yield
    finally:
        co.np = old


def coq_term(t):
    k = t[0]
    if k == "T":
        return "(T %d)" % t[1]
    if k == "I":
        return "I%d" % t[1]
    if k == "M":
        return "(M %s %s)" % (coq_term(t[1]), coq_term(t[2]))
    if k == "K":
        return "(K %s %s)" % (coq_term(t[1]), coq_term(t[2]))
    raise ValueError(t)


def coq_qs(q):
    return "[" + ";".join(str(int(x)) if int(x) >= 0 else "(%d)" % int(x) for x in q) + "]"


def sym_items(pattern):
    return [[Tok(("T", j)), list(q)] for j, q in enumerate(pattern)]


def canon_out(out):
    """optimizer output -> canonical ('ok', [(tree, qubits)]) ; anything unexpected -> ('bad', text)"""
    if not isinstance(out, list):
        return ("bad", "output is %s" % type(out).__name__)
    res = []
    for it in out:
        if not (isinstance(it, (list, tuple)) and len(it) == 2 and isinstance(it[0], Tok)):
            return ("bad", "output item %r" % (it,))
        q = it[1]
        if not isinstance(q, (list, tuple)) or not all(isinstance(x, (int, np.integer)) and not isinstance(x, bool) for x in q):
            return ("bad", "qubits %r" % (q,))
        res.append((it[0].t, [int(x) for x in q]))
    return ("ok", res)


def run_sym(co, kind, n, pattern, level=None):
    """kind 0: Optimizer(level, items, range(n)).optimize(); 1..4: opt_level_k(items); 5: process_snippet(items)"""
    items = sym_items(pattern)
    try:
        with symbolic_numpy(co):
            if kind == 0:
                out = co.Optimizer(level_opt=level, circ_list=items, qubit_list=list(range(n))).optimize()
            else:
                o = co.Optimizer(level_opt=4, circ_list=[], qubit_list=list(range(n)))
                if kind == 5:
                    out = o.process_snippet(snippet=items)
                else:
                    out = getattr(o, "opt_level_%d" % kind)(gate_list=items)
        return canon_out(out)
    except Exception as e:  # noqa
        return ("err", type(e).__name__)


# ------------------------------------------------------------------------------------------------ generators
def patterns(n, with_minus=True):
    ps = [[q] for q in range(n)]
    if with_minus:
        ps += [[q, -1] for q in range(n)]
    ps += [[a, b] for a in range(n) for b in range(n) if a != b]
    return ps


def all_sequences(n, lmax, lmin=0, with_minus=True):
    ps = patterns(n, with_minus)
    for L in range(lmin, lmax + 1):
        for seq in itertools.product(ps, repeat=L):
            yield [list(q) for q in seq]


def random_pattern(rng, nmax=12, lmax=40):
    """structured random well-formed list: returns (n, pattern, tag)"""
    n = rng.randint(1, nmax)
    L = rng.randint(1, lmax)
    tag = rng.choice(["mixed", "mixed", "trailing_run", "idle", "no2q", "reversed_distant", "dense2q", "few_qubits"])
    if n == 1:
        tag = "no2q"
    used = list(range(n))
    if tag == "idle" and n >= 3:
        used = sorted(rng.sample(range(n), rng.randint(2, n - 1)))
    if tag == "few_qubits" and n >= 2:
        used = sorted(rng.sample(range(n), 2 if n < 3 or rng.random() < 0.5 else 3))
    p2 = {"mixed": 0.3, "trailing_run": 0.3, "idle": 0.3, "no2q": 0.0, "reversed_distant": 0.5, "dense2q": 0.7, "few_qubits": 0.35}[tag]
    if len(used) < 2:
        p2 = 0.0
    pat = []

    def one():
        q = rng.choice(used)
        return [q, -1] if rng.random() < 0.25 else [q]

    def two():
        a, b = rng.sample(used, 2)
        if tag == "reversed_distant":
            r = rng.random()
            if r < 0.4 and a < b:
                a, b = b, a
            elif r < 0.8:
                a, b = (min(used), max(used)) if rng.random() < 0.5 else (max(used), min(used))
        return [a, b]
    last2 = None
    while len(pat) < L:
        r = rng.random()
        if r < p2:
            if last2 is not None and rng.random() < 0.35:
                pat.append(list(last2))                       # same ordered pair again (level 3)
            elif last2 is not None and rng.random() < 0.15:
                pat.append([last2[1], last2[0]])
            else:
                last2 = two()
                pat.append(list(last2))
        else:
            if pat and rng.random() < 0.3:                    # repeat the previous qubit (level 1 runs)
                q = pat[-1][0] if len(pat[-1]) == 1 or pat[-1][1] == -1 else rng.choice(pat[-1])
                pat.append([q, -1] if rng.random() < 0.25 else [q])
            elif last2 is not None and rng.random() < 0.5:    # neighbour of the last two-qubit gate (level 2)
                q = rng.choice(last2)
                pat.append([q, -1] if rng.random() < 0.25 else [q])
            else:
                pat.append(one())
    if tag == "trailing_run":
        k = rng.randint(2, 8)
        if rng.random() < 0.5:
            q = rng.choice(used)
            pat += [[q] for _ in range(k)]
        else:
            pat += [one() for _ in range(k)]
        pat = pat[-lmax:] if len(pat) > lmax else pat
    return n, pat, tag


def malformed_pattern(rng):
    """lists outside the property's domain: qubit lists of length 0..3, negative / out-of-range / repeated entries"""
    n = rng.randint(1, 4)
    L = rng.randint(0, 6)
    pat = []
    for _ in range(L):
        r = rng.random()
        if r < 0.12:
            pat.append([])
        elif r < 0.2:
            pat.append([rng.randint(-2, n), rng.randint(-2, n), rng.randint(-2, n)])
        elif r < 0.45:
            pat.append([rng.randint(-2, n + 1)])
        elif r < 0.6:
            pat.append([rng.randint(-2, n), -1])
        else:
            pat.append([rng.randint(-2, n + 1), rng.randint(-2, n + 1)])
    return n, pat


def is_wf(n, pattern):
    for q in pattern:
        if len(q) == 1:
            if not (0 <= q[0] < n):
                return False
        elif len(q) == 2:
            if q[1] == -1:
                if not (0 <= q[0] < n):
                    return False
            elif not (0 <= q[0] < n and 0 <= q[1] < n and q[0] != q[1]):
                return False
        else:
            return False
    return True


# ------------------------------------------------------------------------------------------------ numeric oracle
UNITS = [1, -1, 1j, -1j]


def phased_perm(rng, d):
    p = list(range(d))
    rng.shuffle(p)
    m = np.zeros((d, d), dtype=complex)
    for r, c in enumerate(p):
        m[r, c] = rng.choice(UNITS)
    return m


def small_gauss(rng, d):
    """general (possibly singular) matrix with entries in {0, +-1, +-i}; max row abs-sum <= d"""
    vals = [0, 0, 1, -1, 1j, -1j]
    return np.array([[rng.choice(vals) for _ in range(d)] for _ in range(d)], dtype=complex)


def num_items(rng, pattern, general):
    """exact (Gaussian-integer) items; with probability 1/3 a qubit pattern that occurs again re-uses the very same [matrix, qubits]
    list object (a gate object appended to the list several times): equivalence is about the list as written, aliasing included"""
    items = []
    alias = rng.random() < 1 / 3
    seen = {}
    for q in pattern:
        d = 4 if (len(q) == 2 and q[1] != -1) else 2
        key = tuple(q)
        if alias and key in seen and rng.random() < 0.7:
            items.append(seen[key]); continue
        it = [small_gauss(rng, d) if general else phased_perm(rng, d), list(q)]
        seen[key] = it
        items.append(it)
    return items


def float_items(rng, pattern):
    """floating-point matrices that are CLOSE to special values without being them (tiny phases / rotations / perturbations of the
    identity, of a permutation), mixed with generic ones: "all complex matrix values" includes them, and an approximate identity
    or zero test (1e-5 .. 1e-8) anywhere in the backend or the optimizer is visible at 1e-12 relative"""
    nr = np.random.default_rng(rng.randrange(2 ** 32))
    items = []
    for q in pattern:
        d = 4 if (len(q) == 2 and q[1] != -1) else 2
        eps = float(nr.choice([1e-4, 1e-6, 1e-7, 3e-9])); k = int(nr.integers(4))
        if k == 0:
            m = np.diag(np.exp(1j * eps * np.arange(d))).astype(complex)
        elif k == 1:
            m = np.eye(d) + eps * (nr.normal(size=(d, d)) + 1j * nr.normal(size=(d, d)))
        elif k == 2:
            m = np.eye(d, dtype=complex); m[0, 1] = -eps; m[1, 0] = eps
        else:
            m = nr.normal(size=(d, d)) + 1j * nr.normal(size=(d, d))
        # a later gate on the same qubits that ALMOST undoes an earlier one (Rz(t) ... Rz(-t + eps)): the product is near, not equal to, the identity
        prev = [pm for pm, pq in items if list(pq) == list(q) and pm.shape == (d, d)]
        if prev and nr.random() < 0.35:
            try:
                m = np.linalg.inv(prev[-1]) @ (np.eye(d) + eps * np.diag(1j * np.arange(1, d + 1)))
            except np.linalg.LinAlgError:
                pass
        items.append([m, list(q)])
    return items


def float_close(a, b):
    a, b = np.asarray(a, complex), np.asarray(b, complex)
    return a.shape == b.shape and float(np.abs(a - b).max()) <= 1e-12 * max(1.0, float(np.abs(b).max()))


def apply_seq(n, items, psi):
    """sequential reference by np.tensordot (independent of kron / sparse construction); psi has shape (2,)*n + batch"""
    psi = psi.copy()
    for m, q in items:
        q = list(q)
        if len(q) == 2 and q[1] == -1:
            q = [q[0]]
        if len(q) == 1:
            psi = np.moveaxis(np.tensordot(np.asarray(m).reshape(2, 2), psi, axes=([1], [q[0]])), 0, q[0])
        elif len(q) == 2:
            g = np.asarray(m).reshape(2, 2, 2, 2)
            psi = np.moveaxis(np.tensordot(g, psi, axes=([2, 3], [q[0], q[1]])), [0, 1], [q[0], q[1]])
        else:
            raise ValueError("reference: bad qubit list %r" % (q,))
    return psi


def full_operator(n, items):
    """dense 2^n x 2^n operator of the sequential application (columns = images of basis states)"""
    d = 2 ** n
    psi = np.eye(d, dtype=complex).reshape((2,) * n + (d,))
    return apply_seq(n, items, psi).reshape(d, d)


def out_wellformed(n, out):
    """output items must again be (matrix of the right shape, qubit list) items on qubits < n"""
    for it in out:
        if not (isinstance(it, (list, tuple)) and len(it) == 2):
            return "output item is not a [matrix, qubits] pair"
        m, q = it
        if not isinstance(q, (list, tuple)) or len(q) not in (1, 2):
            return "output qubit list %r" % (q,)
        if any((not isinstance(x, (int, np.integer))) or x < 0 or x >= n for x in q) or (len(q) == 2 and q[0] == q[1]):
            return "output qubit list %r" % (list(q),)
        if np.shape(m) != (2 ** len(q), 2 ** len(q)):
            return "output matrix of shape %r on qubits %r" % (np.shape(m), list(q))
    return None


def oracle_optimizer(co, rng, n, pattern, level, general=None, probe_cols=None):
    """direct statement of the property for the optimizer; returns None or a description of the failure"""
    import copy
    if general is None:
        general = len(pattern) <= 10
    items = num_items(rng, pattern, general)
    ref_items = copy.deepcopy(items)
    # qubit_list names the register's qubits: only how many there are may matter, not which (physical) labels they carry
    qlist = list(range(n)) if rng.random() < 0.5 else sorted(rng.sample(range(3 * n + 2), n))
    try:
        out = co.Optimizer(level_opt=level, circ_list=items, qubit_list=qlist).optimize()
    except Exception as e:  # noqa
        return "optimizer raised %s on a well-formed list (qubit_list=%r)" % (type(e).__name__, qlist)
    if not isinstance(out, list):
        return "optimizer returned %s" % type(out).__name__
    if len(out) > len(pattern):
        return "output has %d items, input %d" % (len(out), len(pattern))
    bad = out_wellformed(n, out)
    if bad:
        return bad
    d = 2 ** n
    if n <= 6 and probe_cols is None:
        psi = np.eye(d, dtype=complex).reshape((2,) * n + (d,))
    else:
        k = probe_cols or 3
        psi = np.array([[rng.choice([0, 1, -1, 1j, -1j, 2, 1 + 1j]) for _ in range(k)] for _ in range(d)], dtype=complex).reshape((2,) * n + (k,))
    a = apply_seq(n, ref_items, psi)
    b = apply_seq(n, out, psi)
    if not np.array_equal(a, b):
        return "optimised list is a different linear operator"
    if n <= 6:
        import copy as _c
        fitems = float_items(rng, pattern); fref = _c.deepcopy(fitems)
        try:
            fout = co.Optimizer(level_opt=level, circ_list=fitems, qubit_list=list(range(n))).optimize()
        except Exception as e:  # noqa
            return "optimizer raised %s on a well-formed list of floating-point matrices" % type(e).__name__
        if len(fout) > len(pattern) or out_wellformed(n, fout):
            return "output on floating-point matrices is longer than the input or malformed"
        if not float_close(apply_seq(n, fout, psi), apply_seq(n, fref, psi)):
            return "optimised list is a different linear operator on floating-point matrices with near-identity entries (beyond 1e-12 relative)"
    return None


def oracle_backend(be, rng, n, pattern, general=None):
    """BinaryBackend(n).statevector(items, psi0) must equal sequential application, exactly on Gaussian integers"""
    import copy
    if general is None:
        general = len(pattern) <= 10
    items = num_items(rng, pattern, general)
    ref_items = copy.deepcopy(items)
    d = 2 ** n
    psi0 = np.array([rng.choice([0, 1, -1, 1j, -1j, 2, 1 + 1j, -2j]) for _ in range(d)], dtype=complex)
    psi_keep = psi0.copy()
    qlay = None if rng.random() < 0.5 else sorted(rng.sample(range(3 * n + 2), n))      # the optional layout argument: physical labels of the register
    try:
        out = be.BinaryBackend(nqubit=n).statevector(items, psi0) if qlay is None else be.BinaryBackend(nqubit=n).statevector(items, psi0, qlay)
    except Exception as e:  # noqa
        return "BinaryBackend.statevector raised %s on a well-formed list (qubit_layout=%r)" % (type(e).__name__, qlay)
    out = np.asarray(out)
    if out.shape != (d,):
        return "statevector of shape %r" % (out.shape,)
    ref = apply_seq(n, ref_items, psi_keep.reshape((2,) * n)).reshape(d)
    if not np.array_equal(out, ref):
        return "statevector differs from sequential application"
    fitems = float_items(rng, pattern); fref = copy.deepcopy(fitems)
    fpsi = np.array([complex(rng.gauss(0, 1), rng.gauss(0, 1)) for _ in range(d)])
    try:
        fout = np.asarray(be.BinaryBackend(nqubit=n).statevector(fitems, fpsi.copy()))
    except Exception as e:  # noqa
        return "BinaryBackend.statevector raised %s on a well-formed list of floating-point matrices" % type(e).__name__
    if not float_close(fout.reshape(-1), apply_seq(n, fref, fpsi.reshape((2,) * n)).reshape(d)):
        return "statevector differs from sequential application on floating-point matrices with near-identity entries (beyond 1e-12 relative)"
    # ONE backend object per register size serves every call of this process (a circuit object keeps its backend): each call must
    # still apply the matrices it is given, also when their arrays are the previous call's arrays re-filled in place
    pb = _PERSISTENT.get(n)
    if pb is None:
        pb = _PERSISTENT[n] = (be.BinaryBackend(nqubit=n), {})
    backend, buffers = pb
    pitems = []
    for i, (m, q) in enumerate(num_items(rng, pattern, general)):
        buf = buffers.setdefault((i % 5, m.shape[0]), np.zeros(m.shape, dtype=complex))   # a small pool of arrays re-used across calls
        buf[:] = m
        pitems.append([buf, list(q)])
    pref = [[np.array(m), list(q)] for m, q in pitems]
    try:
        pout = np.asarray(backend.statevector(pitems, psi_keep.copy()))
    except Exception as e:  # noqa
        return "a re-used BinaryBackend object raised %s on a well-formed list" % type(e).__name__
    if not np.array_equal(pout.reshape(-1), apply_seq(n, pref, psi_keep.reshape((2,) * n)).reshape(d)):
        return "a BinaryBackend object that served earlier calls returns a different statevector than sequential application (matrices held in re-filled arrays)"
    return None


_PERSISTENT = {}
