"""C09 — shots are independent noise realisations, sequentially and in parallel.
Theorems: coq/Props/C09.v over Model/Shots.v (generator = stream read at a position, a shot = reader program,
sequential threading, per-shot seeds drawn by the parent, chunking, any worker assignment / execution / delivery order).
Tie (M): exact correspondence, model evaluated by vm_compute inside Coq on symbolic streams:
  seq_trace   which stream positions every sequential shot consumes (instrumented gate set with a data-dependent number
              of draws), located in an independently generated reference stream
  par_trace   the same in parallel mode under adversarial schedules executed by an in-process pool double (real
              Pool._get_tasks chunking, real _single_shot), and the multiset of traces under the real pool
  chunk       n_processes / chunksize / chunk lengths for a grid of (shots, cpu_count)
  dyadic      r_mean and run() result exact over Q with injected integer amplitude vectors (sequential and pool)
Direct oracles on the implementation: S distinct realisations in both modes, result = normalised mean of the recorded
per-shot Born vectors, seeded reruns reproduce, parent consumes exactly 4 words per shot, every shot's variates are the
prefix of the stream of its own seed (fork and, thorough, spawn)."""
import sys, os, json, itertools, tempfile
import numpy as np
from fractions import Fraction
from vlib.common import Check, run_child
from checks import c14_common as H
from checks.c14_common import coq_list, coq_N, coq_Z, coq_bools, coq_Q
from checks.c09_harness import COST, BITFLIP_CAP

PRELUDE = r"""
From Coq Require Import List Bool NArith ZArith Arith QArith.
Require Import QG.Base.Res QG.Model.FixCounts QG.Model.Shots QG.Model.SimRun.
Import ListNotations.
Close Scope Q_scope.
Fixpoint leqb {A} (eqb : A -> A -> bool) (a b : list A) : bool :=
  match a, b with [], [] => true | x :: a', y :: b' => eqb x y && leqb eqb a' b' | _, _ => false end.
Fixpoint bad {C} (chk : C -> bool) (i : nat) (cs : list C) : list nat :=
  match cs with [] => [] | c :: r => if chk c then bad chk (S i) r else i :: bad chk (S i) r end.
Definition kq_eqb (a b : list bool * Q) : bool := key_eqb (fst a) (fst b) && Qeq_bool (snd a) (snd b).

(* symbolic samples: (stream id, position, sign of the variate); a scalar is the list of samples "added" so far *)
Definition smp := (N * N * bool)%type.
Definition encz (x : smp) : Z := (Z.of_N (fst (fst x)) * 1048576 + Z.of_N (snd (fst x)))%Z.
Notation tv := (list Z) (only parsing).
Fixpoint drawn (c : nat) (acc : list Z) (k : list Z -> prog smp (list tv)) : prog smp (list tv) :=
  match c with O => k acc | S c' => Draw (fun x : smp => drawn c' (encz x :: acc) k) end.
Fixpoint bf_extra (fuel : nat) (acc : list Z) (k : list Z -> prog smp (list tv)) : prog smp (list tv) :=
  match fuel with O => k acc | S f => Draw (fun x : smp => if snd x then bf_extra f (encz x :: acc) k else k (encz x :: acc)) end.
Fixpoint bitflips (n : nat) (len : nat) (acc : list Z) : prog smp (list tv) :=
  match n with
  | O => Ret (rev acc :: repeat [] (len - 1))
  | S n' => Draw (fun x : smp => bf_extra BFCAP (encz x :: acc) (fun acc' => bitflips n' len acc'))
  end.
Definition shot_prog (c0 n len : nat) : prog smp (list tv) := drawn c0 [] (fun acc => bitflips n len acc).
Definition tdiv (x : tv) (_ : tv) : tv := x.
Definition tofZ (_ : Z) : tv := [].

Definition seq_check (c : nat * nat * Z * N * list bool * list (list Z) * N) : bool :=
  let '(c0, n, shots, p0, signs, elog, epos) := c in
  match perform_seq tv [] (@app Z) tdiv tofZ smp (fun _ _ => (0%N, 0%N, false)) (shot_prog c0 n (Nat.pow 2 n)) shots (N.of_nat (Nat.pow 2 n))
          (mkgen smp (fun p => (0%N, p, nth (N.to_nat p) signs false)) p0) with
  | Ok (r, g, log) => leqb (leqb Z.eqb) (map (hd []) log) elog && N.eqb (g_pos smp g) epos && leqb Z.eqb (hd [] r) (concat elog)
  | Err _ => false
  end.

Definition mkinit (p0 : N) (signtab : list (list bool)) (sd : list smp) : N -> smp :=
  match sd with
  | (_, p, _) :: _ => let i := ((p - p0) / 4)%N in fun j => ((1 + i)%N, j, nth (N.to_nat j) (nth (N.to_nat i) signtab []) false)
  | [] => fun j => (0%N, j, false)
  end.
Definition par_check (c : nat * nat * Z * Z * N * list (list bool) * list nat * list nat * N * (Z * Z * list nat) * list (list Z) * N) : bool :=
  let '(c0, n, shots, cpu, p0, signtab, assign, exec, wsid, (eW, ecs, elens), elog, epos) := c in
  let W := n_processes cpu in
  let cs := chunksize shots W in
  Z.eqb W eW && Z.eqb cs ecs && leqb Nat.eqb (map (@length nat) (chunks (Z.to_nat cs) (seq 0 (Z.to_nat shots)))) elens &&
  match perform_par tv [] (@app Z) tdiv tofZ smp (mkinit p0 signtab) (shot_prog c0 n (Nat.pow 2 n)) shots (N.of_nat (Nat.pow 2 n)) cpu
          (mkgen smp (fun p => (0%N, p, false)) p0) (mksched (fun c => nth c assign O) exec exec)
          (fun w => mkgen smp (fun p => ((wsid + N.of_nat w)%N, p, true)) wsid) with
  | Ok (r, g, log) => leqb (leqb Z.eqb) (map (hd []) log) elog && N.eqb (g_pos smp g) epos
  | Err _ => false
  end.

Definition chunk_check (c : Z * Z * (Z * Z * list nat)) : bool :=
  let '(shots, cpu, (eW, ecs, elens)) := c in
  let W := n_processes cpu in
  let cs := chunksize shots W in
  Z.eqb W eW && Z.eqb cs ecs && leqb Nat.eqb (map (@length nat) (chunks (Z.to_nat cs) (seq 0 (Z.to_nat shots)))) elens.

(* exact arithmetic: one table draw per shot *)
Definition shot_of (table : list (list Q)) : prog N (list Q) := Draw (fun i => Ret (nth (N.to_nat i) table [])).
Definition qinit (p0 : N) (idxs : list N) (sd : list N) : N -> N :=
  match sd with p :: _ => fun _ => nth (N.to_nat ((p - p0) / 4)) idxs 0%N | [] => fun _ => 0%N end.
Definition qpos (x : Q) : bool := negb (Qle_bool x (0#1)%Q).
Definition dy_perform (par : bool) (table : list (list Q)) (idxs : list N) (p0 : N) (cpu : Z) (assign exec deliver : list nat) (f : front_out)
  : res (list Q * N) :=
  let len := Z.to_N (2 ^ f_nqubit f) in
  if par then
    x <- perform_par Q (0#1)%Q Qplus Qdiv inject_Z N (qinit p0 idxs) (shot_of table) (f_shots f) len cpu (mkgen N (fun p => p) p0)
           (mksched (fun c => nth c assign O) exec deliver) (fun w => mkgen N (fun p => 0%N) 5%N) ;;
    Ok (fst (fst x), g_pos N (snd (fst x)))
  else
    x <- perform_seq Q (0#1)%Q Qplus Qdiv inject_Z N (fun _ _ => 0%N) (shot_of table) (f_shots f) len (mkgen N (fun p => nth (N.to_nat (p - p0)) idxs 0%N) p0) ;;
    Ok (fst (fst x), g_pos N (snd (fst x))).
Definition dy_check (c : bool * args * list (list Q) * list N * N * Z * (list nat * list nat * list nat) * list Q * N * list (list bool * Q)) : bool :=
  let '(par, a, table, idxs, p0, cpu, (assign, exec, deliver), emean, epos, edict) := c in
  match front a with
  | Err _ => false
  | Ok f =>
      match dy_perform par table idxs p0 cpu assign exec deliver f with
      | Err _ => false
      | Ok (m, pos) =>
          leqb Qeq_bool m emean && N.eqb pos epos &&
          match run_model Q (0#1)%Q Qplus Qdiv qpos a (fun f' => x <- dy_perform par table idxs p0 cpu assign exec deliver f' ;; Ok (fst x)) with
          | Ok d => leqb kq_eqb d edict
          | Err _ => false
          end
      end
  end.
""".replace("BFCAP", str(BITFLIP_CAP))


def fhex(h):
    return float.fromhex(h)


# ------------------------------------------------------------------------------------------------ job construction
def rand_circ(rng, nmax=3, length=None):
    n = rng.randint(1, nmax)
    nphys = n + rng.randint(0, 2)
    labels = sorted(rng.sample(range(nphys), n))
    ins = H.rand_instrs(rng, labels, rng.randint(1, 6) if length is None else length, adjacent=False, barriers=False)
    if not any(i[0] in ("sx", "x", "cx", "ecr") for i in ins):
        ins.append(["sx", [labels[0]], [], []])
    meas, _ = H.add_measures(rng, ins, labels)
    return {"circ": {"nphys": nphys, "nclbits": n, "instrs": ins}, "labels": labels, "meas": meas}


def fixed_cost(job):
    """number of variates DrawGates draws for the gates of the circuit (BinaryCircuit path), before the bitflips"""
    c = 0
    lab = job["labels"]
    for name, qs, cs, ps in job["circ"]["instrs"]:
        if name == "x": c += COST["X"]
        elif name == "sx": c += COST["SX"]
        elif name == "delay": c += COST["relaxation"]
        elif name == "cx": c += COST["CNOT"] if lab.index(qs[0]) < lab.index(qs[1]) else COST["CNOT_inv"]
        elif name == "ecr": c += COST["ECR"] if lab.index(qs[0]) < lab.index(qs[1]) else COST["ECR_inv"]
    return c


def rand_plan(rng, S, cpu):
    W = max(int(0.8 * cpu), 2)
    cs = max(1, int(S / W) + (1 if S % W > 0 else 0))
    C = -(-S // cs)
    assign = [rng.randrange(W) for _ in range(C)]
    if rng.random() < 0.3:
        assign = [assign[0]] * C          # one worker takes everything
    ex = list(range(C)); rng.shuffle(ex)
    de = list(range(C)); rng.shuffle(de)
    return {"fork": rng.random() < 0.7, "assign": assign, "exec": ex, "deliver": de}


def gen_jobs(ck):
    rng = ck.rng
    q = ck.tier == "quick"
    jobs = []
    shots_set = [1, 2, 3, 5, 16, 33]
    # sequential traces (instrumented gate set) — every S twice (reproducibility), with and without pre-consumed variates
    for S in shots_set:
        for rep in range(2 if q else 5):
            c = rand_circ(rng)
            j = dict(c, fam="seq_trace", cls="RecBinaryCircuit", gates="draw", shots=S, parallel=False, npseed=rng.randrange(2 ** 31), predraw=rng.choice([0, 0, 3, 8]))
            jobs.append(j)
            if rep == 0:
                jobs.append(dict(j, fam="seq_repeat"))
    # sequential, real noisy gate set: positions from generator markers, per-shot vector re-derived from its start position
    for S in ([3, 16] if q else [1, 2, 3, 5, 16, 33]):
        for cls in ("RecBinaryCircuit", "RecEfficientCircuit", "RecCircuit"):
            c = rand_circ(rng, nmax=2)
            if cls != "RecBinaryCircuit":
                n = len(c["labels"])
                c["labels"] = list(range(n)); ins = H.rand_instrs(rng, c["labels"], rng.randint(1, 5), adjacent=True, barriers=False)
                ins.append(["sx", [0], [], []])
                c["meas"], _ = H.add_measures(rng, ins, c["labels"]); c["circ"] = {"nphys": n, "nclbits": n, "instrs": ins}
            jobs.append(dict(c, fam="seq_real", cls=cls, gates="standard", shots=S, parallel=False, npseed=rng.randrange(2 ** 31)))
            if S == 16:   # the initial state in single precision / as complex128: the mean is still accumulated in double precision
                for dt in ("c64", "f32", "c128"):
                    jobs.append(dict(c, fam="seq_real", cls=cls, gates="standard", shots=S, parallel=False, npseed=rng.randrange(2 ** 31), psi_dtype=dt))
            if S == 3:    # a barely noisy gate set: the mean's total is 1 - 1e-6 .. 1 - 1e-9, the result must still be the NORMALISED mean, bit for bit
                jobs.append(dict(c, fam="seq_real", cls=cls, gates="weak", shots=S, parallel=False, npseed=rng.randrange(2 ** 31)))
    # pool double: adversarial schedules
    for _ in range(40 if q else 300):
        S = rng.choice(shots_set + [4, 7, 9, 12, 20])
        cpu = rng.choice([1, 2, 3, 4, 5, 8, 16])
        c = rand_circ(rng)
        jobs.append(dict(c, fam="par_trace", cls="RecBinaryCircuit", gates="draw", shots=S, parallel=True, pool="fake", cpu=cpu, plan=rand_plan(rng, S, cpu),
                         npseed=rng.randrange(2 ** 31), predraw=rng.choice([0, 0, 4, 5])))
    # real pool, fork
    for S in shots_set:
        c = rand_circ(rng)
        j = dict(c, fam="par_real", cls="RecBinaryCircuit", gates="draw", shots=S, parallel=True, pool="real", start="fork", npseed=rng.randrange(2 ** 31), predraw=rng.choice([0, 4]))
        jobs.append(j)
        if S in (5, 16) or not q:
            jobs.append(dict(j, fam="par_repeat"))
    for S in ([5, 16] if q else [1, 3, 5, 16, 33]):
        c = rand_circ(rng, nmax=2)
        jobs.append(dict(c, fam="par_real_std", cls="RecBinaryCircuit", gates="standard", shots=S, parallel=True, pool="real", start="fork", npseed=rng.randrange(2 ** 31)))
    # chunk grid (no-op shots)
    grid = [(S, cpu) for cpu in ([1, 2, 3, 4, 5, 8, 10, 16, 20, 64] if q else list(range(1, 41)) + [48, 64, 96, 128, 256]) for S in (range(1, 41) if q else range(1, 71))]
    grid += [(rng.randint(41, 300), rng.choice([3, 7, 16, 33, 100])) for _ in range(20 if q else 100)]
    cc = rand_circ(rng, nmax=1, length=0)
    for S, cpu in grid:
        jobs.append(dict(cc, fam="chunk", cls="RecVec", gates="vec", table=[[[1, 0], [0, 0]]], shots=S, parallel=True, pool="fake", cpu=cpu, plan=None, npseed=1, nolog=True))
    # exact arithmetic
    for _ in range(60 if q else 400):
        c = rand_circ(rng, nmax=3)
        n = len(c["labels"])
        if rng.random() < 0.3:
            S, size = rng.choice([3, 5, 6, 7]), 1
        else:
            S, size = rng.choice([1, 2, 4, 8, 16]), rng.randint(1, 4)
        par = rng.random() < 0.65
        cpu = rng.choice([1, 3, 4, 5, 8, 16])
        jobs.append(dict(c, fam="dyadic", cls="RecVec", gates="vec", table=H.dyadic_table(rng, 2 ** n, size), shots=S, parallel=par, pool="fake", cpu=cpu,
                         plan=rand_plan(rng, S, cpu) if par else None, npseed=rng.randrange(2 ** 31), predraw=rng.choice([0, 0, 2, 4])))
    # the other process start methods (workers that are not forked from the seeded parent): one small job each in the quick tier
    spawn = []
    for S, start in (((3, "spawn"), (5, "forkserver")) if q else ((1, "spawn"), (3, "spawn"), (16, "spawn"), (33, "spawn"), (3, "forkserver"), (17, "forkserver"))):
        c = rand_circ(rng)
        spawn.append(dict(c, fam="par_real", cls="RecBinaryCircuit", gates="draw", shots=S, parallel=True, pool="real", start=start, npseed=rng.randrange(2 ** 31), predraw=0))
    for j in jobs:
        j.setdefault("start", "fork")
    return jobs, spawn


def run_jobs(ck, jobs, tag):
    d = tempfile.mkdtemp(prefix="c09_", dir=ck.scratch)
    logdir = os.path.join(d, "logs"); os.makedirs(logdir)
    jf, of = os.path.join(d, "jobs.json"), os.path.join(d, "out.json")
    json.dump(jobs, open(jf, "w"))
    env = ck.pyenv(); env["C09_LOGDIR"] = logdir
    from vlib.common import sh, VERIF
    rc, out = sh(["/venv/bin/python", "-W", "ignore", os.path.join(VERIF, "checks", "c09_harness.py"), jf, of], timeout=1500, env=env, cwd=d)
    if rc != 0 or not os.path.exists(of):
        return None, out[-1500:]
    return json.load(open(of)), ""


# ------------------------------------------------------------------------------------------------ reference streams
def ref_normals(seed, size):
    return [float(x).hex() for x in np.random.RandomState(seed).normal(size=size)]


def ref_words(seed, size):
    return [int(x) for x in np.random.RandomState(seed).randint(0, 2 ** 32, size=size, dtype=np.uint32)]


def norm_mean(vecs, S):
    r = np.zeros(len(vecs[0]))
    for v in vecs:
        r += np.array(v)
    return r / S


def marginal(final, labels, meas):
    n = len(labels)
    out = {}
    for i, v in enumerate(final):
        bits = format(i, "0%db" % n)
        k = "".join(bits[labels.index(q)] for q in meas)
        if k not in out:
            out[k] = 0.0
        out[k] += v
    return out


def common_oracle(job, o):
    """result = marginal of the normalised arithmetic mean of the recorded per-shot Born vectors; S distinct realisations"""
    S = job["shots"]
    if "err" in o:
        return "run raised " + o["err"]
    recs = o["recs"]
    if len(recs) != S:
        return "%d shots were computed for shots=%d" % (len(recs), S)
    borns = [tuple(r["born"]) for r in recs]
    if job["gates"] != "vec" and len(set(borns)) != S:
        return "%d shots produced only %d distinct noise realisations" % (S, len(set(borns)))
    vecs = [[fhex(x) for x in b] for b in borns]
    mean = norm_mean(vecs, S)
    got_mean = np.array([fhex(x) for x in o["r_mean"]])
    tol = 0 if not job["parallel"] else 1e-12
    if not np.all(np.abs(got_mean - mean) <= tol * np.maximum(1, np.abs(mean))):
        return "_perform_simulation returned %s, the arithmetic mean of the %d recorded Born vectors is %s" % (got_mean.tolist(), S, mean.tolist())
    final = mean / np.sum(mean)
    want = marginal(final, job["labels"], job["meas"])
    got = {k: fhex(v) for k, v in o["res"].items()}
    if set(got) != set(want) or any(abs(got[k] - want[k]) > tol for k in want):
        return "run() returned %s, the normalised mean of the recorded Born vectors gives %s" % (got, want)
    return None


def locate(draws, index):
    pos = []
    for h in draws:
        if h not in index:
            return None
        pos.append(index[h])
    return pos


# ------------------------------------------------------------------------------------------------ main
def main(argv):
    ck = Check("C09", argv)
    ck.rule = ("seq_trace / par_trace: random native circuits n<=3 on an instrumented gate set (fixed cost per gate, data-dependent "
               "cost per bitflip), shots in {1,2,3,5,16,33} (+ others under the pool double), pre-consumed generator positions, "
               "random schedules (worker per chunk, execution order, delivery order, forked or fresh worker generators); distinct = "
               "distinct (circuit, shots, cpu, schedule, seed); chunk: grid shots x cpu_count; dyadic: injected integer amplitude "
               "tables with power-of-two norm. Every case is non-trivial except shots=1.")
    ck.trusted = ["Coq 8.16.1 kernel + vm_compute", "checks/c09.py, checks/c09_harness.py, checks/c14_common.py (harness: instrumented gate set, "
                  "pool double, location of recorded variates in numpy reference streams)",
                  "model coq/Model/Shots.v is hand-written: tied to simulator.py only by correspondence",
                  "numpy legacy generator: np.random.seed(s) followed by k scalar normal() calls equals RandomState(s).normal(size=k); "
                  "randint(0,2**32,size=4,dtype=uint32) consumes four 32-bit words; seed() clears the cached Gaussian",
                  "independence itself: the i.i.d. quality of MT19937 streams and of streams started from different 128-bit seeds is "
                  "trusted; the theorems state disjointness of stream positions and functional dependence on the own seed only",
                  "the operating system's scheduler and multiprocessing.Pool internals: modelled as an arbitrary assignment, execution "
                  "order and delivery order of the chunks produced by Pool._get_tasks; exercised with the real pool only on a few runs",
                  "floating point: sums are reassociated by the delivery order; the theorems are in exact arithmetic, the oracle allows 1e-12"]
    ck.assume = ["shots and cpu_count below 2^50 (float division in the chunksize expression is exact there)"]

    if ck.replay:
        doc = json.load(open(ck.replay))["replay"]
        job = doc.get("job")
        if not job:
            print("replay: nothing executable stored (theorem / correspondence record):", json.dumps(doc)[:600])
            return 0
        outs, err = run_jobs(ck, [job], "replay")
        if outs is None:
            print("replay: harness failed:", err)
            return 0
        o = outs[0]
        print("replay job:", {k: job[k] for k in ("fam", "shots", "parallel", "gates", "cls") if k in job})
        print(" result:", o.get("res") or o.get("err"), "| shots recorded:", len(o.get("recs", [])), "| distinct realisations:", len({tuple(r["born"]) for r in o.get("recs", [])}))
        print(" oracle:", common_oracle(job, o))
        import shutil; shutil.rmtree(ck.scratch, ignore_errors=True)
        return 0

    bad = ck.hygiene()
    if bad:
        ck.report("hygiene", "forbidden construct in the Coq development: " + "; ".join(bad[:5]), {"theorem": "hygiene", "where": bad}, False)
    proofs_ok, failing, out = ck.coq_props()

    jobs, spawn = gen_jobs(ck)
    outs, err = run_jobs(ck, jobs, "main")
    if outs is None:
        ck.report("harness", "the implementation-side harness failed: " + err[-600:], {"correspondence": "C09 harness", "log": err}, False)
        return ck.finish()
    if spawn:
        o2, err = run_jobs(ck, spawn, "spawn")
        if o2 is None:
            ck.report("harness", "the implementation-side harness failed under spawn: " + err[-600:], {"correspondence": "C09 harness spawn", "log": err}, False)
            return ck.finish()
        jobs, outs = jobs + spawn, outs + o2

    oracle_fail, items = [], {"seq": [], "par": [], "chunk": [], "dy": []}
    owners = {"seq": [], "par": [], "chunk": [], "dy": []}
    by_key = {}
    followups = []   # single-shot re-derivations for the real gate set

    for ji, (job, o) in enumerate(zip(jobs, outs)):
        fam, S, n = job["fam"], job["shots"], len(job["labels"])
        p0 = job.get("predraw", 0)
        key = json.dumps({k: job[k] for k in ("circ", "shots", "npseed", "parallel", "gates") if k in job}, sort_keys=True)
        ck.count(fam + ("_" + job["start"] if job.get("start") in ("spawn", "forkserver") else ""), 1, key=(key, json.dumps(job.get("plan"))) if S > 1 else None,
                 sample={"shots": S, "labels": job["labels"], "cpu": job.get("cpu"), "plan": job.get("plan"), "result": str(o.get("res") or o.get("err"))[:100]})
        fail = lambda why: oracle_fail.append(("oracle:" + fam, "%s (shots=%d, parallel=%s, gates=%s, start=%s)" % (why, S, job["parallel"], job["gates"], job.get("start")), {"job": job}))
        if fam != "chunk":
            why = common_oracle(job, o)
            if why:
                fail(why)
                continue
        elif "err" in o:
            fail("run raised " + o["err"])
            continue
        recs = o.get("recs", [])
        # ---- reproducibility pairs
        if fam in ("seq_trace", "par_real"):
            by_key[key] = o
        if fam == "seq_repeat" and key in by_key and by_key[key]["res"] != o["res"]:
            fail("sequential seeded rerun differs: %s vs %s" % (by_key[key]["res"], o["res"]))
        if fam == "par_repeat" and key in by_key:
            a, b = by_key[key], o
            if sorted(tuple(r["born"]) for r in a["recs"]) != sorted(tuple(r["born"]) for r in b["recs"]):
                fail("parallel seeded rerun produced different noise realisations")
            elif any(abs(fhex(a["res"][k]) - fhex(b["res"][k])) > 1e-12 for k in a["res"]):
                fail("parallel seeded rerun differs: %s vs %s" % (a["res"], b["res"]))
        # ---- sequential traces
        if fam in ("seq_trace", "seq_repeat"):
            ref = ref_normals(job["npseed"], p0 + S * (fixed_cost(job) + (1 + BITFLIP_CAP) * n) + 8)
            index = {h: i for i, h in enumerate(ref)}
            traces = [locate(r["draws"], index) for r in recs]
            if any(t is None for t in traces):
                fail("a sequential shot used variates that are not in the seeded stream of the global generator")
                continue
            endpos = index.get(o["parent_next_normal"], -1)
            signs = [fhex(h) > 0 for h in ref]
            items["seq"].append("(%d%%nat, %d%%nat, %s, %s, %s, %s, %s)" % (fixed_cost(job), n, coq_Z(S), coq_N(p0), coq_bools(signs),
                                coq_list([coq_list([coq_Z(p) for p in t]) for t in traces]), coq_N(max(endpos, 0))))
            owners["seq"].append(ji)
            # direct: consecutive, pairwise disjoint segments starting at p0
            flat = [p for t in traces for p in t]
            if flat != list(range(p0, p0 + len(flat))) or endpos != p0 + len(flat):
                fail("sequential shots do not consume consecutive disjoint segments of the stream: %s ... end %d" % (flat[:40], endpos))
        if fam == "seq_real":
            ref = ref_normals(job["npseed"], 400 * S + 64)
            index = {h: i for i, h in enumerate(ref)}
            marks = [index.get(r["marker"]) for r in recs]
            if any(m is None for m in marks) or marks != sorted(marks) or len(set(marks)) != S:
                fail("real gate set: generator positions after the shots are not strictly increasing positions of the seeded stream: %s" % marks)
                continue
            followups.append((ji, dict(job, kind="single_shot_at", positions=[0] + marks[:-1])))
        # ---- parallel traces
        if fam in ("par_trace", "par_real", "par_repeat", "par_real_std"):
            words = ref_words(job["npseed"], p0 + 4 * S + 1)
            if o["parent_next_word"] != words[p0 + 4 * S]:
                fail("the parent's generator did not advance by exactly four 32-bit words per shot")
                continue
            seeds = [words[p0 + 4 * i: p0 + 4 * i + 4] for i in range(S)]
            if fam == "par_real_std":
                followups.append((ji, dict(job, kind="single_shot_seeded", seeds=seeds)))
                continue
            maxc = fixed_cost(job) + (1 + BITFLIP_CAP) * n
            refs = [[float(x).hex() for x in np.random.RandomState(np.array(sd, dtype=np.uint32)).normal(size=maxc)] for sd in seeds]
            first = {r[0]: i for i, r in enumerate(refs)}
            shot_ids, traces = [], []
            for r in recs:
                i = first.get(r["draws"][0]) if r["draws"] else None
                if i is None or r["draws"] != refs[i][:len(r["draws"])]:
                    i = None
                shot_ids.append(i)
                traces.append(None if i is None else [(1 + i) * 1048576 + j for j in range(len(r["draws"]))])
            if None in shot_ids:
                fail("a parallel shot's variates are not the initial segment of the stream of any per-shot seed (realisation does not depend on its seed alone)")
                continue
            if sorted(shot_ids) != list(range(S)):
                fail("per-shot seeds not used exactly once each: %s" % sorted(shot_ids))
                continue
            signtab = [[fhex(h) > 0 for h in r] for r in refs]
            if fam == "par_trace":
                pool = o["pool"]
                if pool["seeds"] != seeds:
                    fail("seeds handed to the workers are not the parent's next 4*S words in shot order")
                    continue
                plan = job["plan"]
                # records are in execution order; the model is run with delivery order = execution order for the trace
                items["par"].append("(%d%%nat, %d%%nat, %s, %s, %s, %s, %s, %s, %s, (%s, %s, %s), %s, %s)" % (
                    fixed_cost(job), n, coq_Z(S), coq_Z(job["cpu"]), coq_N(p0), coq_list([coq_bools(s) for s in signtab]),
                    coq_list(["%d%%nat" % a for a in plan["assign"]]), coq_list(["%d%%nat" % a for a in plan["exec"]]), coq_N(ck.rng.randint(0, 50)),
                    coq_Z(pool["n_processes"]), coq_Z(pool["chunksize"]), coq_list(["%d%%nat" % a for a in pool["chunk_lengths"]]),
                    coq_list([coq_list([coq_Z(p) for p in t]) for t in traces]), coq_N(p0 + 4 * S)))
                owners["par"].append(ji)
            else:
                # real pool: order unobservable; every worker process must have executed consecutive shots (chunks) in order
                import re
                m = re.search(r"so (\d+) processes.*chunksize of (\d+)", o["stdout"], re.S)
                W, cs = int(m.group(1)), int(m.group(2))
                items["chunk"].append("(%s, %s, (%s, %s, %s))" % (coq_Z(S), coq_Z(os.cpu_count()), coq_Z(W), coq_Z(cs),
                                      coq_list(["%d%%nat" % min(cs, S - c * cs) for c in range(-(-S // cs))])))
                owners["chunk"].append(ji)
                per = {}
                for r, i in zip(recs, shot_ids):
                    per.setdefault(r["pid"], []).append(i)
                if len(per) > W:
                    fail("more worker processes (%d) than n_processes (%d)" % (len(per), W))
                for pid, ids in per.items():
                    for a in range(0, len(ids), cs):
                        blk = ids[a:a + cs]
                        if blk != list(range(blk[0], blk[0] + len(blk))) or blk[0] % cs:
                            fail("worker %d did not execute whole chunks of %d consecutive shots: %s" % (pid, cs, ids))
                            break
        if fam == "chunk":
            pool = o["pool"]
            items["chunk"].append("(%s, %s, (%s, %s, %s))" % (coq_Z(S), coq_Z(job["cpu"]), coq_Z(pool["n_processes"]), coq_Z(pool["chunksize"]),
                                  coq_list(["%d%%nat" % a for a in pool["chunk_lengths"]])))
            owners["chunk"].append(ji)
            if pool["nargs"] != S or sum(pool["chunk_lengths"]) != S or pool["chunksize"] < 1 or pool["n_processes"] * pool["chunksize"] < S:
                fail("chunking does not cover the %d shots exactly once with %d processes x chunksize %d: %s" % (S, pool["n_processes"], pool["chunksize"], pool["chunk_lengths"]))
        if fam == "dyadic":
            tab = job["table"]
            if job["parallel"]:
                words = ref_words(job["npseed"], p0 + 4 * S + 1)
                idxs = [int(np.random.RandomState(np.array(words[p0 + 4 * i: p0 + 4 * i + 4], dtype=np.uint32)).randint(len(tab))) for i in range(S)]
                epos = p0 + 4 * S
                if o["parent_next_word"] != words[epos]:
                    fail("the parent's generator did not advance by exactly four 32-bit words per shot")
                    continue
                plan = job["plan"]
                sched = (plan["assign"], plan["exec"], plan["deliver"])
            else:
                r = np.random.RandomState(job["npseed"])
                [r.normal() for _ in range(p0)]
                idxs = [int(r.randint(len(tab))) for _ in range(S)]
                epos, sched = p0 + S, ([], [], [])
            if sorted(int(fhex(r["draws"][0])) for r in recs) != sorted(idxs):
                fail("the table entries drawn by the shots are not those of the per-shot streams: %s vs %s" % ([int(fhex(r["draws"][0])) for r in recs], idxs))
                continue
            kw = H.build_run_args({"circ": job["circ"], "circ_kind": "qc", "layout": ["list", job["labels"]], "psi0": ["basis", 2 ** n], "shots": ["int", S],
                                   "params": ["ok", "mild", job["circ"]["nphys"], 0], "nqubit": ["int", n]})
            born = coq_list([coq_list(["(%d # 1)%%Q" % (a * a + b * b) for a, b in v]) for v in tab])
            items["dy"].append("(%s, %s, %s, %s, %s, %s, (%s, %s, %s), %s, %s, %s)" % (
                "true" if job["parallel"] else "false", H.describe_args(kw), born, coq_list([coq_N(i) for i in idxs]), coq_N(p0), coq_Z(job.get("cpu") or 16),
                coq_list(["%d%%nat" % a for a in sched[0]]), coq_list(["%d%%nat" % a for a in sched[1]]), coq_list(["%d%%nat" % a for a in sched[2]]),
                coq_list([coq_Q(Fraction(fhex(x))) for x in o["r_mean"]]), coq_N(epos),
                coq_list(["(%s, %s)" % (coq_bools(k), coq_Q(Fraction(fhex(v)))) for k, v in o["res"].items()])))
            owners["dy"].append(ji)

    # ---- follow-ups: re-derive per-shot vectors of the real gate set from the predicted stream position / seed
    if followups:
        fo, err = run_jobs(ck, [f for _, f in followups], "follow")
        if fo is None:
            ck.report("harness", "the implementation-side harness failed: " + err[-600:], {"correspondence": "C09 harness follow-up", "log": err}, False)
        else:
            for (ji, f), r in zip(followups, fo):
                job, o = jobs[ji], outs[ji]
                ck.count("single_shot_rederived", len(r["born"]))
                got = [list(x["born"]) for x in o["recs"]]
                if f["kind"] == "single_shot_at":
                    if got != r["born"]:
                        oracle_fail.append(("oracle:seq_real", "a sequential shot's Born vector is not the one obtained by running one shot from its predicted stream position (shots=%d, %s)"
                                            % (job["shots"], job["cls"]), {"job": job}))
                else:
                    if sorted(map(tuple, got)) != sorted(map(tuple, r["born"])):
                        oracle_fail.append(("oracle:par_real_std", "the parallel shots' Born vectors are not those obtained from the per-shot seeds (shots=%d)" % job["shots"], {"job": job}))

    # ---- model side
    shards = []
    typ = {"seq": ("seq_check", 20), "par": ("par_check", 20), "chunk": ("chunk_check", 300), "dy": ("dy_check", 30)}
    for fam, its in items.items():
        chk, per = typ[fam]
        for s in range(0, len(its), per):
            shards.append(("c09_%s_%d" % (fam, s // per), PRELUDE + "Definition cases := " + coq_list(its[s:s + per]) + ".\nDefinition result := bad %s 0 cases.\nEval vm_compute in result.\n" % chk, fam, s))
    mism = []
    for (name, rc, out2), (_, _, fam, s) in zip(ck.coq_eval_many([(a, b) for a, b, _, _ in shards]), shards):
        badl = H.parse_bad(out2) if rc == 0 else None
        if badl is None:
            mism.append((fam, "coq-failed", out2[-600:]))
            continue
        for i in badl:
            mism.append((fam, owners[fam][s + i], None))
    ncorr = sum(len(v) for v in items.values())
    ck.oblige("correspondence model=implementation: %d sequential traces, %d pool traces, %d chunkings, %d exact-arithmetic runs" % tuple(len(items[k]) for k in ("seq", "par", "chunk", "dy")), not mism)
    ck.oblige("direct oracles on the implementation (%d runs)" % len(jobs), not oracle_fail)
    ck.exhaustive = False
    ck.extra["start_methods"] = sorted({j.get("start", "fork") for j in jobs if j.get("pool") == "real"})
    ck.extra["real_pool_runs"] = sum(1 for j in jobs if j.get("pool") == "real")

    seen = set()
    for key, what, replay in oracle_fail:
        if key in seen:
            continue
        seen.add(key)
        ck.report(key, what, replay, True)
    if not proofs_ok and not oracle_fail:
        ck.report("proof:" + str(failing), "proof obligation no longer checks: %s" % failing, {"theorem": failing, "log": out[-1500:]}, False)
    if mism and not oracle_fail:
        fam, where, info = mism[0]
        if where == "coq-failed":
            ck.report("corr-build", "correspondence file for family %s failed to compile: %s" % (fam, info), {"correspondence": fam, "log": info}, False)
        else:
            job = jobs[where]
            ck.report("corr:" + fam, "model and implementation disagree in family %s (shots=%d, cpu=%s, plan=%s); the property's own oracle passes on every explored input"
                      % (fam, job["shots"], job.get("cpu"), job.get("plan")), {"correspondence": "C09 " + fam, "job": job, "mismatches": len(mism)}, False)
    return ck.finish()


if __name__ == "__main__":
    sys.exit(main(sys.argv[1:]))
