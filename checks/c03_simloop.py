"""C03, gap (iii): exact correspondence of coq/Model/SimLoop.v (translate_calls: _preprocess_circuit + the BinaryCircuit branch
of _apply_gates_on_circuit + the read-out loop) with the real simulator.

Implementation side: the real MrAndersonSimulator.run with the recording gate set of sim_common (Spy) and a recording subclass
of BinaryCircuit that logs every public method call (name, internal indices, argument values) and, in apply(), the gate-set call
that produced the matrix together with the placement [i, j] the matrix is stored on.  Device tables with pairwise distinct
entries (sim_common.dev_distinct) make every argument value name its table and its physical label(s); rz angles are multiples of
1/8 and dt = 0.5, so angle and duration tokens are exact integers.
Model side: SimLoop.run_calls (process_layout, then translate_calls) evaluated by vm_compute; compared inside Coq (case_ok).
A second family calls _preprocess_circuit and _apply_gates_on_circuit directly on hand-made instruction objects and arbitrary
layouts / nqubit (exceptions included); shapes Qiskit cannot build are outside the property's domain: informational only."""
import types
import numpy as np
import checks.sim_common as sc

OPN = {"delay": "OpDelay", "measure": "OpMeasure", "barrier": "OpBarrier", "rz": "OpRz", "sx": "OpSx", "x": "OpX", "cx": "OpCx", "ecr": "OpEcr"}
METH = {"Rz": 0, "SX": 1, "X": 2, "ECR": 3, "CNOT": 4, "relaxation": 5, "bitflip": 6}
GATE = {"SX": 1, "X": 2, "ECR": 3, "CNOT": 4, "relaxation": 5, "bitflip": 6, "ECR_inv": 13, "CNOT_inv": 14}
ERR = {"IndexError": 1, "ValueError": 2, "AssertionError": 3, "AttributeError": 4, "TypeError": 5, "FileNotFoundError": 6, "KeyError": 7}
DT = 0.5

PRELUDE = """From Coq Require Import List NArith ZArith.
Require Import QG.Base.Res QG.Model.SimRun QG.Model.SimLoop.
Import ListNotations.
Open Scope Z_scope.
"""


# ------------------------------------------------------------------ circuits (instr = (name, [labels], extra); extra: rz -> integer k, angle k/8;
# delay -> integer duration; measure -> clbit)
def build(nphys, instrs):
    from qiskit import QuantumCircuit
    ncl = max([1] + [i[2] + 1 for i in instrs if i[0] == "measure"])
    qc = QuantumCircuit(nphys, ncl, name="circ")
    for name, qs, extra in instrs:
        if name == "rz": qc.rz(extra / 8.0, qs[0])
        elif name == "sx": qc.sx(qs[0])
        elif name == "x": qc.x(qs[0])
        elif name == "id": qc.id(qs[0])
        elif name == "cx": qc.cx(qs[0], qs[1])
        elif name == "ecr": qc.ecr(qs[0], qs[1])
        elif name == "delay": qc.delay(int(extra), qs[0])
        elif name == "barrier": qc.barrier(*qs)
        elif name == "measure": qc.measure(qs[0], extra)
        else: raise ValueError(name)
    return qc


def used_labels(instrs):
    return sorted({q for name, qs, _ in instrs if name != "delay" and len(qs) in (1, 2) for q in qs})


def float_instrs(instrs):
    """the unitary part of the circuit in sim_common's convention (rz carries the angle itself): what the ideal circuit applies"""
    return [(n, list(q), (e / 8.0 if n == "rz" else e)) for n, q, e in instrs if n in ("rz", "sx", "x", "cx", "ecr")]


# ------------------------------------------------------------------ recording circuit class
_REC = {"calls": [], "places": []}


def recording_class(execute=True):
    from quantum_gates._simulation.circuit import BinaryCircuit

    class Rec(BinaryCircuit):
        def apply(self, gate, i, j=-1):
            log = getattr(self.gates, "log", None)
            _REC["places"].append((log[-1][0] if log else "?", [int(i), int(j)]))
            return super().apply(gate, i, j) if execute else None

    def mk(name, nidx):
        base = getattr(BinaryCircuit, name)

        def f(self, *a):
            _REC["calls"].append((name, [int(x) for x in a[:nidx]], [float(x) for x in a[nidx:]]))
            return base(self, *a) if execute else None
        return f
    for name, nidx in (("Rz", 1), ("SX", 1), ("X", 1), ("ECR", 2), ("CNOT", 2), ("relaxation", 1), ("bitflip", 1)):
        setattr(Rec, name, mk(name, nidx))
    Rec.__name__ = "BinaryCircuit"
    return Rec


def _tok(v):
    """dev_distinct: value = 100 * table code + label (T1 1, T2 2, p 3, rout 4, tm 9) or 100 * code + 10 c + t (p_int 5, t_int 7)"""
    if v != int(v) or not (100 <= v < 1000): return [98, -7, -7]
    v = int(v); code, rem = v // 100, v % 100
    return [code, rem // 10, rem % 10] if code in (5, 7) else [code, rem, -1]


def _int_tok(code, x):
    return [code, int(x), -1] if x == int(x) and abs(x) < 10 ** 9 else [code, -987654321, -1]


def view_calls(calls):
    out = []
    for name, idx, args in calls:
        if name == "Rz": toks = _int_tok(11, args[0] * 8)
        elif name == "relaxation": toks = _int_tok(10, args[0] / DT) + sum((_tok(v) for v in args[1:]), [])
        else: toks = sum((_tok(v) for v in args), [])
        out.append([METH.get(name, 99), len(idx)] + idx + toks)
    return out


def view_places(places):
    return [[GATE.get(nm, 99), i, j] for nm, (i, j) in places]


def run_recorded(instrs, nphys, nq=None):
    """the real run() with the recording gate set and the recording class; returns ('ok', call views, placement views) or ('err', name)"""
    from quantum_gates._simulation.simulator import MrAndersonSimulator
    labels = used_labels(instrs); n = len(labels) if nq is None else nq
    dev = sc.dev_distinct(nphys)
    psi0 = np.zeros(2 ** n); psi0[0] = 1
    _REC["calls"] = []; _REC["places"] = []
    try:
        MrAndersonSimulator(gates=sc.Spy(), CircuitClass=recording_class()).run(
            t_qiskit_circ=build(nphys, instrs), qubits_layout=list(labels), psi0=psi0, shots=1, device_param=dev, nqubit=n)
    except Exception as e:  # noqa
        return ("err", type(e).__name__)
    return ("ok", view_calls(_REC["calls"]), view_places(_REC["places"]))


# ------------------------------------------------------------------ the two functions called directly (any layout, any nqubit, any shape)
class _FakeCirc:
    def __init__(self, data): self.data = data
    def __len__(self): return len(self.data)


def fake_instr(name, qs, cs, k, d):
    ns = types.SimpleNamespace
    return ns(operation=ns(name=name, params=[k / 8.0], duration=d), qubits=tuple(ns(_index=q) for q in qs), clbits=tuple(ns(_index=c) for c in cs))


def run_direct(raw, layout, nq, nphys=10):
    """raw: list of (name, qubit labels, clbit labels, angle k, duration d).  _preprocess_circuit, then one shot's
    _apply_gates_on_circuit on a recording circuit object that stores nothing"""
    import quantum_gates._simulation.simulator as sim
    _REC["calls"] = []; _REC["places"] = []
    try:
        s = sim.MrAndersonSimulator(gates=sc.Spy(), CircuitClass=None)
        _, _, data = s._preprocess_circuit(_FakeCirc([fake_instr(*r) for r in raw]), list(layout), nq)
        circ = recording_class(execute=False)(max(nq, 0), 1, sc.Spy())
        circ.nqubit = nq
        sim._apply_gates_on_circuit(data, circ, sc.dev_distinct(nphys), list(layout))
    except Exception as e:  # noqa
        return ("err", type(e).__name__)
    return ("ok", view_calls(_REC["calls"]))


# ------------------------------------------------------------------ Coq terms
def coq_Z(x): return "(%d)" % int(x)
def coq_zl(xs): return "[" + ";".join(coq_Z(x) for x in xs) + "]"
def coq_zll(xss): return "[" + ";".join(coq_zl(x) for x in xss) + "]"
def coq_nl(xs): return "[" + ";".join("%d%%N" % int(x) for x in xs) + "]"


def coq_instr(name, qs, cs):
    return "mkinstr %s %s %s" % (OPN.get(name, "OpOther"), coq_nl(qs), coq_nl(cs))


def coq_case_run(instrs, nq, res):
    th = [e if n == "rz" else 0 for n, _, e in instrs]; du = [e if n == "delay" else 0 for n, _, e in instrs]
    data = "[" + ";".join(coq_instr(n, q, [e] if n == "measure" else []) for n, q, e in instrs) + "]"
    exp = "inl (%s, %s)" % (coq_zll(res[1]), coq_zll(res[2])) if res[0] == "ok" else "inr %d" % ERR.get(res[1], 0)
    return "(%s, %s, %s, %s, %s)" % (coq_zl(th), coq_zl(du), "None" if nq is None else "Some %s" % coq_Z(nq), data, exp)


def coq_case_direct(raw, layout, nq, res):
    th = [r[3] for r in raw]; du = [r[4] for r in raw]
    data = "[" + ";".join(coq_instr(r[0], r[1], r[2]) for r in raw) + "]"
    exp = "inl %s" % coq_zll(res[1]) if res[0] == "ok" else "inr %d" % ERR.get(res[1], 0)
    return "(%s, %s, %s, %s, %s, %s)" % (coq_zl(th), coq_zl(du), coq_nl(layout), coq_Z(nq), data, exp)


def shard_run(cases):
    return (PRELUDE + "Definition cases : list (list Z * list Z * option Z * list SimRun.instr * ((list (list Z) * list (list Z)) + Z)) :=\n ["
            + ";\n  ".join(cases) + "].\n"
            "Definition result := bad_from (fun c : list Z * list Z * option Z * list SimRun.instr * ((list (list Z) * list (list Z)) + Z) =>\n"
            "  let '(th, du, nq, data, e) := c in case_ok th du nq data e) 0 cases.\nEval vm_compute in result.\n")


def shard_direct(cases):
    return (PRELUDE + "Definition cases : list (list Z * list Z * list N * Z * list SimRun.instr * (list (list Z) + Z)) :=\n ["
            + ";\n  ".join(cases) + "].\n"
            "Definition result := bad_from (fun c : list Z * list Z * list N * Z * list SimRun.instr * (list (list Z) + Z) =>\n"
            "  let '(th, du, used, nq, data, e) := c in case_ok_layout th du used nq data e) 0 cases.\nEval vm_compute in result.\n")


def parse_bad(out):
    """indices printed by `Eval vm_compute in result`"""
    if "=" not in out: return None
    txt = out[out.index("=") + 1:].split(":")[0]
    return [int(x) for x in txt.replace("[", " ").replace("]", " ").replace(";", " ").replace("%nat", "").split()]


# ------------------------------------------------------------------ generators
def alphabet():
    """instructions on the labels 2 < 5 (7 only ever delayed / barriered): both directions of cx / ecr, delays on a used and on an
    otherwise unused label, barriers of 1, 2 and 3 qubits, a mid-circuit measure, an identity gate"""
    return [("rz", [2], 3), ("rz", [5], -5), ("sx", [5], None), ("x", [2], None), ("cx", [2, 5], None), ("cx", [5, 2], None),
            ("ecr", [2, 5], None), ("ecr", [5, 2], None), ("delay", [2], 17), ("delay", [7], 11), ("barrier", [5], None),
            ("barrier", [2, 5, 7], None), ("measure", [5], 1), ("id", [2], None)]


def exhaustive_cases(depth):
    import itertools
    A = alphabet(); out = []
    for d in range(depth + 1):
        for seq in itertools.product(A, repeat=d):
            for last in (2, 5):
                out.append((list(seq) + [("measure", [last], 0)], 8))
    return out


def random_case(rng):
    n = int(rng.integers(1, 5)); nphys = int(rng.integers(n, 10))
    labels = sorted(int(x) for x in rng.choice(nphys, n, replace=False))
    spare = [q for q in range(nphys) if q not in labels]
    ins = []
    for _ in range(int(rng.integers(1, 15))):
        r = rng.random()
        if r < 0.20: ins.append(("rz", [int(rng.choice(labels))], int(rng.integers(-24, 25))))
        elif r < 0.32: ins.append(("sx", [int(rng.choice(labels))], None))
        elif r < 0.42: ins.append(("x", [int(rng.choice(labels))], None))
        elif r < 0.50: ins.append(("delay", [int(rng.choice(labels + spare[:2]))], int(rng.integers(1, 99))))
        elif r < 0.58: ins.append(("barrier", [int(x) for x in rng.choice(nphys, int(rng.integers(1, nphys + 1)), replace=False)], None))
        elif r < 0.62: ins.append(("id", [int(rng.choice(labels))], None))
        elif n > 1:
            a, b = [int(x) for x in rng.choice(labels, 2, replace=False)]
            ins.append((str(rng.choice(["cx", "ecr"])), [a, b], None))
    # every label is touched (so that the layout is `labels`), measures in any order and anywhere in the circuit
    for q in labels:
        if not any(q in i[1] and i[0] != "delay" and len(i[1]) <= 2 for i in ins):
            ins.insert(int(rng.integers(0, len(ins) + 1)), (("sx", "x", "rz")[int(rng.integers(3))], [q], int(rng.integers(-9, 9))))
    ins = [(nm, q, (e if nm in ("rz", "delay") else None)) for nm, q, e in ins]
    meas = [int(q) for q in rng.choice(labels, int(rng.integers(1, n + 1)), replace=False)]
    for k, q in enumerate(meas):
        pos = len(ins) if rng.random() < 0.6 else int(rng.integers(0, len(ins) + 1))
        ins.insert(pos, ("measure", [q], k))
    return ins, nphys


def direct_case(rng, malformed):
    """(raw instructions, layout, nq, in_domain)"""
    layout = sorted(int(x) for x in rng.choice(9, int(rng.integers(1, 5)), replace=False)); n = len(layout)
    nq = n if not malformed and rng.random() < 0.6 else int(rng.integers(0, n + (3 if malformed else 1)))
    raw = []
    for _ in range(int(rng.integers(0, 9))):
        name = str(rng.choice(["rz", "sx", "x", "cx", "ecr", "delay", "barrier", "measure", "id", "reset"]))
        pool = list(range(9)) if rng.random() < 0.3 else layout
        k = int(rng.integers(-24, 25)); d = int(rng.integers(1, 99))
        if name in ("cx", "ecr"):
            qs = [int(x) for x in rng.choice(pool, 2, replace=False)] if len(pool) > 1 else [pool[0]]
        elif name == "barrier":
            qs = [int(x) for x in rng.choice(9, int(rng.integers(1, 5)), replace=False)]
        else:
            qs = [int(rng.choice(pool))]
        cs = [int(rng.integers(0, 4))] if name == "measure" else []
        if name == "measure" and qs[0] in layout and layout.index(qs[0]) >= nq:
            continue   # swap_detector[index] = clbit would raise after the loop: C14's front (swap_check), not this model
        if malformed and rng.random() < 0.25:
            if rng.random() < 0.5 and qs: qs = qs[:-1]
            elif name == "measure": cs = []
            else: qs = qs + [int(rng.integers(0, 9))]
        raw.append((name, qs, cs, k, d))
    ok_shape = all((len(q) == 2 and q[0] != q[1]) if nm in ("cx", "ecr") else (len(q) >= 1 if nm == "barrier" else len(q) == 1) for nm, q, _, _, _ in raw) \
        and all(len(c) == 1 for nm, _, c, _, _ in raw if nm == "measure")
    return raw, layout, nq, ok_shape and not malformed


# ------------------------------------------------------------------ direct oracle (independent of the model): noise-free run vs Qiskit
def oracle(instrs, nphys, rng, tries=3):
    """the property's own oracle on the given circuit: real noise-free BinaryCircuit run vs Qiskit's ideal marginals, random psi0.
    returns (None | reason, psi0 used)"""
    from quantum_gates._simulation.simulator import MrAndersonSimulator
    from quantum_gates._simulation.circuit import BinaryCircuit
    from quantum_gates._gates.gates import noise_free_gates
    labels = used_labels(instrs); n = len(labels)
    meas = [i[1][0] for i in instrs if i[0] == "measure"]
    for _ in range(tries):
        psi0 = rng.normal(size=2 ** n) + 1j * rng.normal(size=2 ** n); psi0 /= np.linalg.norm(psi0)
        try:
            res = MrAndersonSimulator(gates=noise_free_gates, CircuitClass=BinaryCircuit).run(
                t_qiskit_circ=build(nphys, instrs), qubits_layout=list(labels), psi0=psi0, shots=1, device_param=sc.dev_plain(nphys), nqubit=n)
        except Exception as e:  # noqa
            return "noise-free run raised %s: %s" % (type(e).__name__, str(e)[:100]), psi0
        ideal = sc.qiskit_marginals(labels, float_instrs(instrs), meas, psi0)
        if set(res) != set(ideal): return "outcome keys differ from the 2^m strings of the measured qubits", psi0
        d = max(abs(res[k] - ideal[k]) for k in ideal)
        if d > 1e-9: return "probabilities differ from the ideal Born marginals by %.3g" % d, psi0
    return None, None


def identity_gates_exact():
    """NoiseFreeGates.relaxation / bitflip return exactly the 2x2 identity (why nf_prog may drop these calls)"""
    from quantum_gates._gates.gates import noise_free_gates as g
    I = np.eye(2)
    return all(np.array_equal(np.asarray(g.relaxation(a, b, c)), I) and np.array_equal(np.asarray(g.bitflip(a, b)), I)
               for a, b, c in ((0.0, 1.0, 1.0), (8.5, 101.0, 203.0), (1e-6, 1e-4, 2e-4)))
