"""Shared by the checks of C04-C07: numeric validation of the symbolic trace against intercepted real calls, and the
direct oracles (property tests on the implementation) used to search for a failing input."""
import numpy as np, scipy.linalg, scipy.integrate, math
from vlib import symtrace as st

TG = 35e-9
X = np.array([[0, 1], [1, 0]], complex); Y = np.array([[0, -1j], [1j, 0]]); Z = np.diag([1., -1]).astype(complex)
I2 = np.eye(2, dtype=complex); SM = np.array([[0, 1], [0, 0]], complex)


def U1(th, ph):
    return np.array([[np.cos(th / 2), -1j * np.sin(th / 2) * np.exp(-1j * ph)], [-1j * np.sin(th / 2) * np.exp(1j * ph), np.cos(th / 2)]])


def UCR(th, ph):
    M = np.zeros((4, 4), complex); M[:2, :2] = U1(th, ph); M[2:, 2:] = U1(-th, ph); return M


class Intercept:
    """patches np.random and scipy.linalg.expm inside the REAL factories module: draws come from a queue (or the real
    generator) and every sampler / expm argument is logged"""

    def __init__(self, queue=None):
        import quantum_gates._gates.factories as fac
        self.fac = fac; self.queue = list(queue or []); self.draws = []; self.samplers = []; self.expm = []
        self._orig_np = fac.np; self._orig_expm = fac.scipy.linalg.expm
        outer = self

        class FR:
            def multivariate_normal(s, mean, cov, n):
                cov = np.array(cov, float)
                v = outer.queue.pop(0) if outer.queue else np.random.multivariate_normal(np.zeros(len(mean)), cov + 1e-18 * np.eye(len(mean)), 1)[0]
                outer.samplers.append(("mvn", cov)); outer.draws.append(list(np.atleast_1d(v)))
                return np.array([v], float)

            def normal(s, m, sd):
                v = outer.queue.pop(0) if outer.queue else [np.random.normal(0, sd)]
                outer.samplers.append(("normal", float(sd))); outer.draws.append([float(np.atleast_1d(v)[0])])
                return float(np.atleast_1d(v)[0])
        NP = type('NP', (), {})()
        for k in dir(np):
            try: setattr(NP, k, getattr(np, k))
            except Exception: pass
        NP.random = FR()
        self.NP = NP

    def __enter__(self):
        self.fac.np = self.NP
        orig = self._orig_expm
        self.fac.scipy.linalg.expm = lambda A: (self.expm.append(np.array(A, complex)), orig(A))[1]
        return self

    def __exit__(self, *a):
        self.fac.np = self._orig_np; self.fac.scipy.linalg.expm = self._orig_expm


def close(a, b, tol=1e-11):
    a, b = np.asarray(a, complex), np.asarray(b, complex)
    if a.shape != b.shape: return False
    if not (np.all(np.isfinite(a)) and np.all(np.isfinite(b))): return False
    return bool(np.abs(a - b).max() <= tol * (1 + np.abs(b).max()))


def validate_elementary(T, rng, pulses, n=6):
    """traced U / D / N / sampler arguments evaluated numerically == what the real factory computed, for each path"""
    from quantum_gates._gates.gates import Gates
    bad = []; cnt = 0
    for pulse in pulses:
        g = Gates(pulse)
        intf = lambda key, th, a: g.integrator.integrate(key, float(np.real(th)), float(np.real(a)))
        for _ in range(n):
            theta, phi = rng.uniform(-6, 6), rng.uniform(-6, 6)
            for path in T["sq"]:
                T1 = 0.0 if path["dec"][0] else rng.uniform(2e-5, 2e-4); T2 = 0.0 if path["dec"][1] else rng.uniform(1e-5, min(2 * T1, 2e-4) if T1 else 2e-4)
                p = rng.uniform(0, 0.05)
                with Intercept() as ic:
                    g.single_qubit_gate(theta, phi, p, T1, T2)
                env = {"theta": theta, "phi": phi, "p": p, "T1": T1, "T2": T2}
                flat = [x for d in ic.draws for x in d]
                for i, x in enumerate(flat): env["w%d" % (i + 1)] = x
                cnt += 1
                if not close(st.evm(path["D"], env, path["defs"], intf), ic.expm[0]): bad.append(("sq D", path["dec"], env))
                if not close(st.evm(path["N"], env, path["defs"], intf), ic.expm[1]): bad.append(("sq N", path["dec"], env))
                for smp, real in zip(path["samplers"], ic.samplers):
                    if smp["kind"] == "mvn":
                        cov = np.array([[st.ev(c, env, path["defs"], intf) for c in r] for r in smp["cov"]], complex)
                        if not close(cov, real[1]): bad.append(("sq cov", path["dec"], env))
                    else:
                        if not close(st.ev(smp["std"], env, path["defs"], intf), real[1]): bad.append(("sq std", path["dec"], env))
            for path in T["cr"]:
                d = path["dec"]
                T1c = 0.0 if d[0] else rng.uniform(2e-5, 2e-4); T2c = 0.0 if d[1] else rng.uniform(1e-5, 2 * T1c if T1c else 2e-4)
                T1t = 0.0 if d[2] else rng.uniform(2e-5, 2e-4); T2t = 0.0 if d[3] else rng.uniform(1e-5, 2 * T1t if T1t else 2e-4)
                t_cr = rng.uniform(1e-7, 4e-7); p_cr = rng.uniform(0, 0.05); th = rng.uniform(-2, 2)
                with Intercept() as ic:
                    g.CR(th, phi, t_cr, p_cr, T1c, T2c, T1t, T2t)
                env = {"theta": th, "phi": phi, "t_cr": t_cr, "p_cr": p_cr, "T1c": T1c, "T2c": T2c, "T1t": T1t, "T2t": T2t}
                flat = [x for dd in ic.draws for x in dd]
                for i, x in enumerate(flat): env["w%d" % (i + 1)] = x
                cnt += 1
                if not close(st.evm(path["D"], env, path["defs"], intf), ic.expm[0]): bad.append(("cr D", d, env))
                if not close(st.evm(path["N"], env, path["defs"], intf), ic.expm[1]): bad.append(("cr N", d, env))
                for smp, real in zip(path["samplers"], ic.samplers):
                    if smp["kind"] == "mvn":
                        cov = np.array([[st.ev(c, env, path["defs"], intf) for c in r] for r in smp["cov"]], complex)
                        if not close(cov, real[1], 1e-9): bad.append(("cr cov", d, env))
                    else:
                        if not close(st.ev(smp["std"], env, path["defs"], intf), real[1]): bad.append(("cr std", d, env))
    return cnt, bad


class RecStub:
    def __init__(self, name, dim, log): self.name, self.dim, self.log = name, dim, log
    def construct(self, *a):
        self.log.append((self.name, [float(x) for x in a])); return np.eye(self.dim, dtype=complex)


def real_composite_calls(nm, args):
    """constituent calls of the REAL composite factory with float arguments (recording stubs)"""
    from quantum_gates._gates.gates import Gates
    g = Gates(); f = {"CNOT": g.cnot_c, "CNOT_inv": g.cnot_inv_c, "ECR": g.ecr_c, "ECR_inv": g.ecr_inv_c}[nm]; log = []
    for attr, dim in (("cr_c", 4), ("x_c", 2), ("sx_c", 2), ("single_qubit_gate_c", 2), ("relaxation_c", 2)):
        if hasattr(f, attr): setattr(f, attr, RecStub(attr, dim, log))
    getattr(g, nm)(*args)
    return log


def validate_composites(T, rng, n=5):
    from checks.gates_trace import COMP_ARGS, COMPOSITES
    bad = []; cnt = 0
    for nm, _ in COMPOSITES:
        c = T["comp"][nm]
        for _ in range(n):
            vals = [rng.uniform(-3, 3), rng.uniform(-3, 3), rng.uniform(2e-7, 6e-7), rng.uniform(0.01, 0.05), rng.uniform(0, 0.004), rng.uniform(0, 0.004)] + list(rng.uniform(2e-5, 2e-4, 4))
            env = dict(zip(COMP_ARGS, vals)); real = real_composite_calls(nm, vals); cnt += 1
            if [r[0] for r in real] != [x[0] for x in c["calls"]]:
                bad.append((nm, "call sequence", env)); continue
            for (name, targs), (_, rargs) in zip(c["calls"], real):
                got = [st.ev(a, dict(env), c["defs"]) for a in targs]
                if not close(got, rargs): bad.append((nm, name, env))
    return cnt, bad


# ------------------------------------------------------------------ direct oracles
def gate_sets(tier):
    from quantum_gates._gates.gates import standard_gates, numerical_gates, Gates, ScaledNoiseGates
    from quantum_gates._gates.pulse import GaussianPulse
    sets = [("standard", standard_gates), ("gauss(0.5,0.25)", Gates(GaussianPulse(0.5, 0.25))), ("scaled(0.3)", ScaledNoiseGates(0.3))]
    if tier == "thorough":
        sets += [("numerical", numerical_gates), ("gauss(0.2,0.1)", Gates(GaussianPulse(0.2, 0.1))),
                 ("scaled(2,gauss)", ScaledNoiseGates(2.0, GaussianPulse(0.7, 0.4)))]
    return sets


_SEQ = {}


def oracle_own_params(rng, n=4):
    """each constituent pulse of the real composites carries the noise parameters of the qubit of its tensor slot"""
    out = []
    conv = {"CNOT": ("c", "t"), "CNOT_inv": ("t", "c"), "ECR": ("c", "t"), "ECR_inv": ("c", "t")}
    # one (gate time, gate error, single-qubit errors) tuple is requested from all four composites in turn (first iteration of each): the derived
    # cross-resonance duration and error are those of the gate's OWN pulse sequence, whichever composite was asked for the same numbers before
    shared = (rng.uniform(2e-7, 6e-7), 0.001 + rng.uniform(0, 1e-3), 0.003 + rng.uniform(0, 1e-3))
    for nm, (s0, s1) in conv.items():
        for it in range(n + 2):
            phc, pht, t = rng.uniform(-3, 3), rng.uniform(-3, 3), rng.uniform(2e-7, 6e-7)
            q = {"c": (0.001 + rng.uniform(0, 1e-3), 11e-5 + rng.uniform(0, 1e-5), 12e-5 + rng.uniform(0, 1e-5)),
                 "t": (0.003 + rng.uniform(0, 1e-3), 21e-5 + rng.uniform(0, 1e-5), 22e-5 + rng.uniform(0, 1e-5))}
            if it == 0:
                t = shared[0]; q["c"] = (shared[1],) + q["c"][1:]; q["t"] = (shared[2],) + q["t"][1:]
            if it == n:        # amplitude damping off on one qubit (T1 = 0), pure dephasing on: the values must reach the pulses unchanged
                for w in ("c", "t"): q[w] = (q[w][0], 0.0, q[w][2])
            if it == n + 1:    # a short but valid gate time: the cross-resonance pulses last less than one single-qubit gate
                t = rng.uniform(1.15e-7, 1.35e-7)
            args = [phc, pht, t, 0.03, q["c"][0], q["t"][0], q["c"][1], q["c"][2], q["t"][1], q["t"][2]]
            from quantum_gates._gates.gates import Gates
            g = Gates(); f = {"CNOT": g.cnot_c, "CNOT_inv": g.cnot_inv_c, "ECR": g.ecr_c, "ECR_inv": g.ecr_inv_c}[nm]
            # recording stubs that also remember the slot through a tagged matrix: slot is recovered from the kron structure
            log = []
            class Tag:
                def __init__(s, name, dim): s.name, s.dim = name, dim
                def construct(s, *a):
                    k = len(log); log.append((s.name, [float(x) for x in a]))
                    return np.eye(s.dim, dtype=complex) * 1.0   # identity; slots are identified below by perturbation
            for attr, dim in (("cr_c", 4), ("x_c", 2), ("sx_c", 2), ("single_qubit_gate_c", 2), ("relaxation_c", 2)):
                if hasattr(f, attr): setattr(f, attr, Tag(attr, dim))
            getattr(g, nm)(*args)
            base = list(log)
            # the pulse sequence of a gate is the same whatever the parameter values are ("0 means off" is decided INSIDE each pulse)
            seq = [c[0] for c in base]
            if nm in _SEQ and _SEQ[nm] != seq:
                out.append((nm, -1, "constituent sequence %r differs from %r for other parameter values (a pulse or idle period was skipped)" % (seq, _SEQ[nm]), args))
            _SEQ.setdefault(nm, seq)
            # slot of call k: replace its matrix by diag(1,2) and see which tensor factor changes
            kt = 3 if nm == "CNOT_inv" else 1
            pcr_want = (4 / 3) * (1 - np.sqrt(np.sqrt((1 - 0.75 * 0.03) ** 2 / ((1 - 0.75 * q["c"][0]) ** 2 * (1 - 0.75 * q["t"][0]) ** kt))))
            for k, (name, a) in enumerate(base):
                if name == "cr_c" and abs(a[3] - pcr_want) > 1e-12:
                    out.append((nm, k, "cr_c derived two-qubit error", args)); continue
                if name == "cr_c":
                    tcr_want = (t - 3 * TG) / 2 if nm == "CNOT_inv" else t / 2 - TG
                    if abs(a[2] - tcr_want) > 1e-20:
                        out.append((nm, k, "cr_c pulse duration (%r, the sequence leaves %r)" % (a[2], tcr_want), args)); continue
                    ok = (abs(a[4] - q[s0][1]) < 1e-18 and abs(a[5] - q[s0][2]) < 1e-18 and abs(a[6] - q[s1][1]) < 1e-18 and abs(a[7] - q[s1][2]) < 1e-18)
                    if not ok: out.append((nm, k, name, args));
                    continue
                cnt = [0]
                class Probe(Tag):
                    def construct(s, *aa):
                        i = cnt[0]; cnt[0] += 1
                        return np.diag([1.0, 2.0]).astype(complex) if i == k else np.eye(s.dim, dtype=complex)
                for attr, dim in (("cr_c", 4), ("x_c", 2), ("sx_c", 2), ("single_qubit_gate_c", 2), ("relaxation_c", 2)):
                    if hasattr(f, attr): setattr(f, attr, Probe(attr, dim))
                M = np.asarray(getattr(g, nm)(*args))
                M = M / M[0, 0]
                slot = s0 if np.allclose(M, np.kron(np.diag([1, 2]), np.eye(2))) else (s1 if np.allclose(M, np.kron(np.eye(2), np.diag([1, 2]))) else None)
                if slot is None: out.append((nm, k, name + " slot?", args)); continue
                want = q[slot]
                got = a[-3:] if name != "relaxation_c" else [want[0]] + a[-2:]
                if not all(abs(x - y) < 1e-18 for x, y in zip(got, want)): out.append((nm, k, name, args))
    return out


def det_pred(dim, l):
    return np.exp(-(dim / 4) * sum(x / y for x, y in l if y != 0))


def oracle_det(rng, sets, n=4):
    """det(G) = det(ideal) * exp(-(d/2) sum tau_q/T1_q): no dependence on samples, p, T2"""
    from quantum_gates._gates.gates import noise_free_gates as nf
    out = []; cnt = 0
    for sname, g in sets:
        sc = float(getattr(g, "noise_scaling", 1.0))     # ScaledNoiseGates(s) samples at (s*p, T/s): the law holds with T1/s
        for t in range(n):
            T1c, T1t = rng.uniform(2e-5, 9e-5, 2); T2c = T1c * rng.uniform(0.3, 2.0); T2t = T1t * rng.uniform(0.3, 2.0)   # domain: T2 <= 2 T1
            pc, pt = rng.uniform(1e-3, 5e-3, 2); p2 = 0.3; tt = rng.uniform(2e-7, 5e-7); a, b = rng.uniform(-3, 3, 2)
            th = rng.uniform(-3, 3)
            # the same angles and durations are requested twice on the same gate-set object, the second time with the two qubits'
            # calibration values exchanged (another qubit, same pulse): the law is per call, whatever was sampled before
            # ... and a third time with pure dephasing switched off by the package's own convention T2 = 0 (T1 finite): the law does not involve T2
            # ... and a fourth time on the T1-limited boundary T2 = 2*T1 exactly (in the property's domain: pure dephasing vanishes there)
            for (T1c, T2c, pc, T1t, T2t, pt) in ((T1c, T2c, pc, T1t, T2t, pt), (T1t, T2t, pt, T1c, T2c, pc), (T1c, 0.0, pc, T1t, 0.0, pt), (T1c, 2 * T1c, pc, T1t, 2 * T1t, pt)):
                E1c, E1t = T1c / sc, T1t / sc      # effective T1 seen by the factories
                chk = [("X", g.X(a, pc, T1c, T2c), nf.X(a, 0, 0, 0), det_pred(2, [(TG, E1c)]), (a, pc, T1c, T2c)),
                       ("SX", g.SX(a, pc, T1c, T2c), nf.SX(a, 0, 0, 0), det_pred(2, [(TG, E1c)]), (a, pc, T1c, T2c)),
                       ("single_qubit_gate", g.single_qubit_gate(th, a, pc, T1c, T2c), np.eye(2), det_pred(2, [(TG, E1c)]), (th, a, pc, T1c, T2c)),
                       ("CR", g.CR(0.7, a, tt, 0.02, T1c, T2c, T1t, T2t), np.eye(4), det_pred(4, [(tt, E1c), (tt, E1t)]), (0.7, a, tt, 0.02, T1c, T2c, T1t, T2t)),
                       ("relaxation", g.relaxation(tt, T1c, T2c), np.eye(2), det_pred(2, [(tt, E1c)]), (tt, T1c, T2c)),
                       # vanishing pulse area (the closed forms are 0/0 there) and a negative angle: same law, duration tt on both qubits
                       ("CR", g.CR(0.0, a, tt, 0.02, T1c, T2c, T1t, T2t), np.eye(4), det_pred(4, [(tt, E1c), (tt, E1t)]), (0.0, a, tt, 0.02, T1c, T2c, T1t, T2t)),
                       ("CR", g.CR(-1e-9, a, tt, 0.02, T1c, T2c, T1t, T2t), np.eye(4), det_pred(4, [(tt, E1c), (tt, E1t)]), (-1e-9, a, tt, 0.02, T1c, T2c, T1t, T2t)),
                       ("CR", g.CR(-0.7, a, tt, 0.02, T1c, T2c, T1t, T2t), np.eye(4), det_pred(4, [(tt, E1c), (tt, E1t)]), (-0.7, a, tt, 0.02, T1c, T2c, T1t, T2t)),
                       ("single_qubit_gate", g.single_qubit_gate(0.0, a, pc, T1c, T2c), np.eye(2), det_pred(2, [(TG, E1c)]), (0.0, a, pc, T1c, T2c)),
                       ("depolarizing", g.depolarizing(tt, pc), np.eye(2), 1, (tt, pc)), ("bitflip", g.bitflip(tt, 0.03), np.eye(2), 1, (tt, 0.03))]
                for nm, tc in (('CNOT', tt), ('CNOT_inv', tt), ('ECR', tt - TG), ('ECR_inv', tt + TG)):
                    args = (a, b, tt, p2, pc, pt, T1c, T2c, T1t, T2t)
                    chk.append((nm, getattr(g, nm)(*args), getattr(nf, nm)(a, b, tt, 0, 0, 0, 0, 0, 0, 0), det_pred(4, [(tc, E1c), (tc, E1t)]), args))
                    # a short but valid gate time (the CR pulses last less than one single-qubit gate): same law with the real durations
                    ts = 1.2e-7
                    args = (a, b, ts, p2, pc, pt, T1c, T2c, T1t, T2t); tcs = {'CNOT': ts, 'CNOT_inv': ts, 'ECR': ts - TG, 'ECR_inv': ts + TG}[nm]
                    chk.append((nm, getattr(g, nm)(*args), getattr(nf, nm)(a, b, ts, 0, 0, 0, 0, 0, 0, 0), det_pred(4, [(tcs, E1c), (tcs, E1t)]), args))
                    # a good coupler next to a noisy qubit (calibration of bundled backends has this): the two-qubit error is smaller than
                    # the single-qubit errors it is compared with, the derived residual error is below zero -- still a finite gate, same law
                    args = (a, b, tt, 0.0102, 0.0120, 0.0005, T1c, T2c, T1t, T2t)
                    chk.append((nm, getattr(g, nm)(*args), getattr(nf, nm)(a, b, tt, 0, 0, 0, 0, 0, 0, 0), det_pred(4, [(tc, E1c), (tc, E1t)]), args))
                for nm, G, G0, pr, args in chk:
                    cnt += 1
                    if not np.all(np.isfinite(np.asarray(G))):
                        out.append((sname, nm, [float(x) for x in args], "the sampled gate has nan / inf entries")); continue
                    r = np.linalg.det(G) / np.linalg.det(G0) / pr
                    if not abs(r - 1) < 1e-10:
                        out.append((sname, nm, [float(x) for x in args], complex(r)))
    return cnt, out


def oracle_zero_unitary(rng, sets, n=4):
    """p = 0, T1 = T2 = 0 gives the noise-free gate; T1 = 0 gives unitary samples"""
    from quantum_gates._gates.gates import noise_free_gates as nf
    out = []; cnt = 0
    for sname, g in sets:
        for t in range(n):
            a, b = rng.uniform(-7, 7, 2); tt = rng.uniform(2e-7, 5e-7)
            # "all angles": zero, a generic one, and rotations of more than one / more than three turns of either sign (the drive unitary has period 4 pi, not 2 pi)
            th = [0.0, rng.uniform(-7, 7), rng.choice([-1, 1]) * (2 * np.pi + rng.uniform(0.2, 6.0)), rng.choice([-1, 1]) * (6 * np.pi + rng.uniform(0.2, 6.0))][t % 4]
            # the same gate-set object has just sampled the same pulses WITH noise (another qubit's calibration): zero noise still means ideal
            if t % 2:
                g.X(a, 0.01, 5e-5, 4e-5); g.SX(a, 0.01, 5e-5, 4e-5); g.single_qubit_gate(th, a, 0.01, 5e-5, 4e-5)
                g.CR(th if th else 1e-9, a, tt, 0.02, 5e-5, 4e-5, 6e-5, 5e-5)
                for nm in ('CNOT', 'CNOT_inv', 'ECR', 'ECR_inv'):
                    getattr(g, nm)(a, b, tt, 0.3, 0.01, 0.02, 5e-5, 4e-5, 6e-5, 5e-5)
            pairs = [("X", g.X(a, 0, 0, 0), nf.X(a, 0, 0, 0), (a,)), ("SX", g.SX(a, 0, 0, 0), nf.SX(a, 0, 0, 0), (a,)),
                     ("single_qubit_gate", g.single_qubit_gate(th, a, 0, 0, 0), nf.single_qubit_gate(th, a, 0, 0, 0), (th, a)),
                     ("relaxation", g.relaxation(tt, 0, 0), np.eye(2), (tt,)), ("depolarizing", g.depolarizing(tt, 0), np.eye(2), (tt,)), ("bitflip", g.bitflip(tt, 0), np.eye(2), (tt,)),
                     ("CR", g.CR(th if th else 1e-9, a, tt, 0, 0, 0, 0, 0), nf.CR(th if th else 1e-9, a, tt, 0, 0, 0, 0, 0), (th, a, tt))]
            for nm in ('CNOT', 'CNOT_inv', 'ECR', 'ECR_inv'):
                pairs.append((nm, getattr(g, nm)(a, b, tt, 0, 0, 0, 0, 0, 0, 0), getattr(nf, nm)(a, b, tt, 0, 0, 0, 0, 0, 0, 0), (a, b, tt)))
            for nm, x, y, args in pairs:
                cnt += 1
                if not (np.all(np.isfinite(x)) and np.abs(np.asarray(x) - np.asarray(y)).max() < 1e-12):
                    out.append((sname, "zero-noise " + nm, [float(v) for v in args]))
            p = rng.uniform(0, 0.05); T2 = rng.uniform(1e-6, 1e-4)
            us = [("X", g.X(a, p, 0, T2), (a, p, 0, T2)), ("single_qubit_gate", g.single_qubit_gate(th, a, p, 0, T2), (th, a, p, 0, T2)),
                  ("relaxation", g.relaxation(tt, 0, T2), (tt, 0, T2)), ("depolarizing", g.depolarizing(tt, p), (tt, p)), ("bitflip", g.bitflip(tt, 0.03), (tt, 0.03))]
            for nm in ('CNOT', 'CNOT_inv', 'ECR', 'ECR_inv'):
                args = (a, b, tt, 0.3, p, p / 2, 0, T2, 0, T2 / 2)
                us.append((nm, getattr(g, nm)(*args), args))
            for nm, G, args in us:
                cnt += 1
                G = np.asarray(G)
                if not (np.all(np.isfinite(G)) and np.abs(G.conj().T @ G - np.eye(len(G))).max() < 1e-12):
                    out.append((sname, "unitary " + nm, [float(v) for v in args]))
    return cnt, out


def oracle_blocks(rng, pulse=None, n=2, warm=True, signs=None, angles=None):
    """every stochastic block of the single-qubit and CR factories = strength * U^dag L U at the sample's integrand
    functions; sampler covariances and drift = independent quadrature (ported from notes/mutation/oracle_suite.py).
    warm: gate sets on OTHER pulse shapes living in the same process are asked for the same angles and durations first (the
    statement is per gate set, whatever else the process has evaluated before)"""
    from quantum_gates._gates.gates import Gates, standard_gates
    from quantum_gates._gates.pulse import GaussianPulse, ConstantPulseNumerical
    pulse = pulse or GaussianPulse(0.4, 0.3)
    F = pulse.get_parametrization(); g = Gates(pulse); out = []; cnt = 0
    others = [standard_gates, Gates(ConstantPulseNumerical()), Gates(GaussianPulse(0.55, 0.2))] if warm else []
    Qd = lambda f, a: scipy.integrate.quad(f, 0, a, epsabs=1e-12, epsrel=1e-12)[0]
    for t in range(n):
        th0 = rng.uniform(-3, 3); ph = rng.uniform(-3, 3); theta = rng.uniform(0.3, 3) * (signs[t % len(signs)] if signs else rng.choice([-1, 1]))
        if angles is not None: theta = float(angles[t])       # prescribed angles (several turns: the integrals are not periodic in theta)
        for w in others:
            w.single_qubit_gate(theta, ph, 0.01, 5e-5, 4e-5); w.CR(theta, ph, 2.5e-7, 0.03, 2e-6, 1.5e-6, 3e-6, 2.5e-6)
        s3 = [np.sin(th0), np.sin(th0 / 2) ** 2, 1.0]; s2 = [np.cos(th0), np.sin(th0)]; z3 = [0, 0, 0]; z2 = [0, 0]
        for name, L, act, (p, T1, T2), stn in [('X', X, 0, (0.04, 0, 0), np.sqrt(.01)), ('Y', Y, 1, (0.04, 0, 0), np.sqrt(.01)), ('Z', Z, 2, (0.04, 0, 0), np.sqrt(.01)),
                                               ('sigma-', SM, 3, (0, 1e-6, 0), np.sqrt(TG / 1e-6)), ('Z dephasing', Z, 4, (0, 0, 1e-6), np.sqrt(.5 * TG / 1e-6))]:
            q = [s3 if act == 0 else z3, s3 if act == 1 else z3, s2 if act == 2 else z2, s3 if act == 3 else z3, s2 if act == 4 else z2]
            with Intercept(q) as ic:
                g.single_qubit_gate(theta, ph, p, T1, T2)
            cnt += 1
            if np.abs(ic.expm[1] / 1j - stn * (U1(th0, ph).conj().T @ L @ U1(th0, ph))).max() > 1e-12:
                out.append(("single-qubit block " + name, dict(theta=theta, phi=ph, p=p, T1=T1, T2=T2, omega=th0)))
        with Intercept() as ic:
            g.single_qubit_gate(theta, ph, 0.01, 5e-5, 4e-5)
        thf = lambda x: theta * F(x); g3 = [lambda x: np.sin(thf(x)), lambda x: np.sin(thf(x) / 2) ** 2, lambda x: 1.0]; g2 = [lambda x: np.cos(thf(x)), lambda x: np.sin(thf(x))]
        for kind, cov in ic.samplers:
            gs = g3 if len(cov) == 3 else g2; cnt += 1
            if np.abs(np.array([[Qd(lambda x: u(x) * v(x), 1) for v in gs] for u in gs]) - cov).max() > 1e-8:
                out.append(("single-qubit covariance", dict(theta=theta)))
        e1 = np.sqrt(TG / 5e-5)
        expd = np.zeros((2, 2), complex)
        for i in range(2):
            for j in range(2):
                f = lambda x: (-e1 ** 2 / 2 * (U1(thf(x), ph).conj().T @ (SM.conj().T @ SM) @ U1(thf(x), ph)))[i, j]
                expd[i, j] = Qd(lambda x: f(x).real, 1) + 1j * Qd(lambda x: f(x).imag, 1)
        cnt += 1
        if np.abs(expd - ic.expm[0]).max() > 1e-9: out.append(("single-qubit drift", dict(theta=theta, phi=ph)))
        c2 = [np.cos(th0), np.sin(th0)]; w = [1.0]; t_cr = 2.5e-7; a = t_cr / TG
        blocks = [(np.kron(SM, I2), c2, 'e1c'), (np.kron(I2, SM), s3, 'e1t'), (np.kron(Z, I2), w, 'epc'), (np.kron(I2, Z), c2, 'ept'), (np.kron(X, I2), c2, 'ed'), (np.kron(Y, I2), c2, 'ed'),
                  (np.kron(Z, I2), w, 'ed'), (np.kron(I2, X), s3, 'ed'), (np.kron(I2, Y), s3, 'ed'), (np.kron(I2, Z), c2, 'ed')]
        p_cr, T1c, T2c, T1t, T2t = 0.03, 2e-6, 1.5e-6, 3e-6, 2.5e-6
        sts = {'ed': np.sqrt(p_cr / (4 * a)), 'e1c': np.sqrt(TG / T1c), 'e1t': np.sqrt(TG / T1t), 'epc': np.sqrt(.5 * (TG / T2c - TG / T1c / 2)), 'ept': np.sqrt(.5 * (TG / T2t - TG / T1t / 2))}
        for k, (L, samp, sk) in enumerate(blocks):
            q = [(samp if j == k else [0] * len(bb[1])) for j, bb in enumerate(blocks)]
            with Intercept(q) as ic:
                g.CR(theta, ph, t_cr, p_cr, T1c, T2c, T1t, T2t)
            cnt += 1
            if np.abs(ic.expm[1] / 1j - sts[sk] * (UCR(th0, ph).conj().T @ L @ UCR(th0, ph))).max() > 1e-12:
                out.append(("CR block %d" % k, dict(theta=theta, phi=ph, omega=th0)))
        with Intercept() as ic:
            g.CR(theta, ph, t_cr, p_cr, T1c, T2c, T1t, T2t)
        thc = lambda x: theta * F(x / a); g3 = [lambda x: np.sin(thc(x)), lambda x: np.sin(thc(x) / 2) ** 2, lambda x: 1.0]; g2 = [lambda x: np.cos(thc(x)), lambda x: np.sin(thc(x))]
        for kind, cov in ic.samplers:
            cnt += 1
            if kind == "normal":
                if abs(cov - np.sqrt(a)) > 1e-12: out.append(("CR wiener std", dict(t_cr=t_cr)))
            else:
                gs = g3 if len(cov) == 3 else g2
                if np.abs(np.array([[Qd(lambda x: u(x) * v(x), a) for v in gs] for u in gs]) - cov).max() > 1e-7: out.append(("CR covariance", dict(theta=theta, t_cr=t_cr)))
        Lc = np.kron(SM, I2); Lt = np.kron(I2, SM); exp_d = np.zeros((4, 4), complex)
        for i in range(4):
            for j in range(4):
                f = lambda x: (-sts['e1c'] ** 2 / 2 * (UCR(thc(x), ph).conj().T @ (Lc.conj().T @ Lc) @ UCR(thc(x), ph)) - sts['e1t'] ** 2 / 2 * (UCR(thc(x), ph).conj().T @ (Lt.conj().T @ Lt) @ UCR(thc(x), ph)))[i, j]
                exp_d[i, j] = Qd(lambda x: f(x).real, a) + 1j * Qd(lambda x: f(x).imag, a)
        cnt += 1
        if np.abs(exp_d - ic.expm[0]).max() > 1e-9: out.append(("CR drift", dict(theta=theta, phi=ph, t_cr=t_cr)))
    return cnt, out


# ------------------------------------------------------------------ shared driver for the checks tied by the gate trace
def run_gate_check(ck, oracle_fn, oracle_name, validate=("elementary", "composites")):
    """regenerate GenGates.v, build Props/<ID>.v, validate the trace numerically, run the direct oracle, report"""
    import json
    import checks.gates_trace as gt
    rng = np.random.default_rng(ck.seed)
    bad = ck.hygiene()
    if bad:
        ck.report("hygiene", "forbidden construct: " + "; ".join(bad[:5]), {"theorem": "hygiene", "where": bad}, False)
    T, trace_err = None, None
    try:
        T = gt.trace_everything()
        gt.write_gen(T)
    except Exception as e:  # noqa
        trace_err = "%s: %s" % (type(e).__name__, e)
    ck.oblige("symbolic trace of factories.py / gates.py / integrator lambdas regenerated (fail-closed)", T is not None)
    ok, failing, out = (False, "trace:" + str(trace_err), trace_err) if T is None else ck.coq_props()
    vbad = []
    if T is not None:
        from quantum_gates._gates.pulse import GaussianPulse, constant_pulse
        # an exception while replaying the intercepted real computation against the trace (e.g. the real code no longer makes the
        # expm / sampler calls the trace recorded) means the trace does not represent the code: fail closed, never crash
        if "elementary" in validate:
            try:
                cnt, vb = validate_elementary(T, rng, [constant_pulse, GaussianPulse(0.5, 0.25)], 2 if ck.tier == "quick" else 8)
            except Exception as e:  # noqa
                cnt, vb = 0, [("validation raised", "%s: %s" % (type(e).__name__, str(e)[:200]))]
            ck.count("trace_validation_elementary (U, drift, generator, sampler arguments vs intercepted real calls, every decision path)", cnt, key=("elem", ck.seed))
            vbad += vb
        if "composites" in validate:
            try:
                cnt, vb = validate_composites(T, rng, 4 if ck.tier == "quick" else 30)
            except Exception as e:  # noqa
                cnt, vb = 0, [("validation raised", "%s: %s" % (type(e).__name__, str(e)[:200]))]
            ck.count("trace_validation_composites", cnt, key=("comp", ck.seed))
            vbad += vb
        ck.oblige("traced expressions == intercepted real computations at random arguments", not vbad)
        ck.samples.append({"family": "trace", "case": {"single-qubit paths": [p["dec"] for p in T["sq"]], "cr paths": len(T["cr"]),
                                                        "CNOT calls": [(c[0], [repr(a) for a in c[1]]) for c in T["comp"]["CNOT"]["calls"]]}})
    try:
        ocnt, obad = oracle_fn(rng)
    except Exception as e:  # noqa: the implementation (or the interception of it) raised inside the property's domain
        import traceback
        ocnt, obad = 0, [("oracle raised", "%s: %s" % (type(e).__name__, str(e)[:200]), traceback.format_exc()[-1200:])]
    ck.count(oracle_name, ocnt)
    for i, b in enumerate(obad[:50]):
        ck.distinct.add((oracle_name, i))
    for i in range(min(ocnt, 400)):
        ck.distinct.add((oracle_name + "_case", i))
    ck.oblige("direct oracle %s on the implementation" % oracle_name, not obad)
    if obad:
        b = obad[0]
        ck.report("oracle:" + str(b[1] if len(b) > 1 else b[0])[:60], "%s fails: %r" % (oracle_name, b), {"oracle": oracle_name, "case": json.loads(json.dumps(b, default=str))},
                  b[0] != "oracle raised")
    elif not ok:
        ck.report("proof:" + str(failing), "proof obligation / regeneration no longer checks: %s" % failing, {"theorem": str(failing), "log": (out or "")[-1500:]}, False)
    elif vbad:
        ck.report("trace-validation", "traced expression disagrees with the real computation: %r" % (vbad[0][:2],), {"correspondence": "trace validation", "case": repr(vbad[0])[:1500]}, False)
    return ck.finish()
