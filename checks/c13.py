"""C13 — pulse objects are normalised waveforms with a consistent parametrisation.

Tie (T): checks/c13_translate.py regenerates coq/Gen/GenPulse.v from the CURRENT pulse.py (fail closed); the theorems of
coq/Props/C13.v are re-checked over it.  Translator validation: Python mirror of the emitted Gaussian formulas /
constructor check / constant pulses against the real objects, bitwise.  Tie (M): the hand model of the optional
validation (coq/Model/Pulse.v) is mirrored in Python and compared, verdict by verdict, with the three predicate methods and
the constructor on accept/reject pairs.
Direct oracle (independent of both): quad of the waveform = 1, end points, monotone / non-negative on a fine grid,
parametrisation = running integral, Gaussian shape against exp/erfc formulas; pickle round trips."""
import sys, os, json, math, pickle
from fractions import Fraction
from vlib.common import Check, VERIF, COQ, SRC
import c12_translate as T
import c13_translate as TP

TOL = 1e-7


def ncdf(z):
    return 0.5 * math.erfc(-z / math.sqrt(2.0))


def weight(loc, scale):
    # accurate on both tails: use the symmetric form when both arguments are positive
    z0, z1 = (0.0 - loc) / scale, (1.0 - loc) / scale
    if z0 > 0:
        return ncdf(-z0) - ncdf(-z1)
    return ncdf(z1) - ncdf(z0)


def hexf(x):
    try:
        return float(x).hex()
    except Exception:
        return repr(x)


# ------------------------------------------------------------------------------------------------ user pairs (module level: picklable)
def poly_f(x):
    return 6.0 * x * (1.0 - x)


def poly_F(x):
    return x * x * (3.0 - 2.0 * x)


def sin2_f(x):
    return 2.0 * math.sin(math.pi * x) ** 2


def sin2_F(x):
    return x - math.sin(2.0 * math.pi * x) / (2.0 * math.pi)


def one_f(x):
    return 1.0


def id_F(x):
    return x


def wiggle_f(x):     # integrates to 1 but is negative around x = 1/2
    return 1.0 + 1.5 * math.cos(2.0 * math.pi * x)


def wiggle_F(x):
    return x + 1.5 * math.sin(2.0 * math.pi * x) / (2.0 * math.pi)


def bump(x):         # smooth bump supported in (0.03, 0.09): strictly between the compatibility grid points
    u = (x - 0.03) / 0.06
    return 0.0 if not (0.0 < u < 1.0) else math.exp(-1.0 / (u * (1.0 - u)))


def make_pair(spec, eps):
    """user-supplied (waveform, parametrisation) pairs by name; `eps` = Pulse.epsilon"""
    k = spec[0]
    if k == "poly":
        return poly_f, poly_F
    if k == "sin2":
        return sin2_f, sin2_F
    if k == "const":
        return one_f, id_F
    if k == "unnormalised":          # waveform scaled by c: integral c, parametrisation kept
        c = spec[1]
        return (lambda x: c * poly_f(x)), poly_F
    if k == "both-scaled":           # consistent pair, but integrates to c and ends at c
        c = spec[1]
        return (lambda x: c * poly_f(x)), (lambda x: c * poly_F(x))
    if k == "shifted":               # parametrisation shifted by d*eps: wrong end points by d*eps
        d = spec[1]
        return poly_f, (lambda x: poly_F(x) + d * eps)
    if k == "wrong-end":             # F runs from 0 to 1+d*eps, not the running integral near 1
        d = spec[1]
        return poly_f, (lambda x: poly_F(x) * (1.0 + d * eps))
    if k == "inconsistent":          # both individually fine, F is not the running integral of f
        return one_f, poly_F
    if k == "inconsistent2":
        return sin2_f, poly_F
    if k == "above":                 # monotone, right end points, but everywhere ABOVE the running integral of f = 1
        return one_f, ((lambda x: 2.0 * x - x * x) if spec[1] == "quad" else (lambda x: math.sin(math.pi * x / 2.0)))
    if k == "below":                 # ... everywhere BELOW it
        return one_f, ((lambda x: x * x) if spec[1] == "quad" else (lambda x: 1.0 - math.cos(math.pi * x / 2.0)))
    if k == "negative":
        return wiggle_f, wiggle_F
    if k == "decreasing-F":          # F not monotone, waveform fine
        return one_f, (lambda x: x + 0.3 * math.sin(6.0 * math.pi * x) / (6.0 * math.pi) * 4.0)
    if k == "coq-witness":           # the witness of C13_validate_sound_full_refuted: f = 1, F = x + eps/2
        return one_f, (lambda x: x + eps / 2.0)
    if k == "between-grid":          # F differs from the running integral by 1e-3 only strictly between grid points
        return one_f, (lambda x: x + 1e-3 * bump(x) * math.e ** 4)
    raise ValueError(spec)


def model_validate(f, F, eps, n):
    """Python mirror of coq/Model/Pulse.v (validate): returns the three verdicts; quad with tight tolerances for RInt"""
    import scipy.integrate

    def linspace(lo, hi):
        return [lo + i * ((hi - lo) / (n - 1)) for i in range(n)]

    def rint(a, b):
        return scipy.integrate.quad(f, a, b, epsabs=1e-13, epsrel=1e-13, limit=500)[0]
    v1 = abs(rint(0.0, 1.0) - 1.0) < eps and all(f(x) >= 0 for x in linspace(0.0, 1.0))
    v2 = abs(F(0.0) - 0.0) < eps and abs(F(1.0) - 1.0) < eps and all(F(x + eps) >= F(x) for x in linspace(0.0, 1.0 - eps))
    v3 = all(not (abs(rint(0.0, x) - F(x)) > eps) for x in linspace(eps, 1.0 - eps))
    return v1, v2, v3


# ------------------------------------------------------------------------------------------------ direct oracle on Gaussian pulses
def gaussian_oracle(loc, scale, rng, fine=2001, pulse=None):
    """returns (why or None, details) — independent of translator and model.  pulse: an object constructed EARLIER (other pulses
    were constructed after it): a pulse is a function of its own (loc, scale), whatever else the process has built since"""
    import scipy.integrate
    from quantum_gates._gates.pulse import GaussianPulse
    det = {"pulse": ["gauss", loc, scale]}
    try:
        p = GaussianPulse(loc=loc, scale=scale) if pulse is None else pulse
        if isinstance(p, Exception): raise p
    except AssertionError:
        return "constructor rejects a Gaussian with weight %.3g on [0,1]" % weight(loc, scale), det
    f, F = p.get_pulse(), p.get_parametrization()
    pts = sorted(set(min(max(loc + s * scale, 0.0), 1.0) for s in (-8, -4, -2, -1, 0, 1, 2, 4, 8)) - {0.0, 1.0})
    tot = scipy.integrate.quad(f, 0.0, 1.0, epsabs=1e-12, epsrel=1e-12, limit=500, points=pts or None)[0]
    det["integral"] = tot
    if not abs(tot - 1.0) <= TOL:
        return "waveform integrates to %r on [0,1], not 1" % tot, det
    f0, f1 = float(F(0.0)), float(F(1.0))
    det["F0"], det["F1"] = f0, f1
    if not (abs(f0) <= 1e-12 and abs(f1 - 1.0) <= 1e-12):
        return "parametrisation runs from %r to %r, not from 0 to 1" % (f0, f1), det
    import numpy as np
    xs = np.linspace(0.0, 1.0, fine)
    fx, Fx = np.asarray(f(xs), dtype=float), np.asarray(F(xs), dtype=float)   # the scipy.stats formulas are vectorised
    for j in (0, fine // 3, fine - 1):                                          # ... and agree with scalar calls
        if hexf(fx[j]) != hexf(f(float(xs[j]))) or hexf(Fx[j]) != hexf(F(float(xs[j]))):
            det["x"] = float(xs[j])
            return "vectorised and scalar evaluation differ at x=%r" % float(xs[j]), det
    neg = np.nonzero(~(fx >= 0))[0]
    if len(neg):
        det["x"] = float(xs[neg[0]])
        return "waveform is %r < 0 (or nan) at x=%r" % (float(fx[neg[0]]), float(xs[neg[0]])), det
    dec = np.nonzero(~(Fx[1:] >= Fx[:-1] - 1e-15))[0]
    if len(dec):
        det["x"] = float(xs[dec[0] + 1])
        return "parametrisation decreases at x=%r (%r after %r)" % (float(xs[dec[0] + 1]), float(Fx[dec[0] + 1]), float(Fx[dec[0]])), det
    for _ in range(6):
        x = rng.uniform(0.0, 1.0)
        px = [q for q in pts if q < x]
        run = scipy.integrate.quad(f, 0.0, x, epsabs=1e-12, epsrel=1e-12, limit=500, points=px or None)[0]
        if not abs(run - float(F(x))) <= TOL:
            det["x"] = x
            return "parametrisation at x=%r is %r, the running integral of the waveform is %r" % (x, float(F(x)), run), det
        # the shape: a Gaussian located at loc with standard deviation scale, restricted to [0,1]
        w = weight(loc, scale)
        ref = math.exp(-0.5 * ((x - loc) / scale) ** 2) / (scale * math.sqrt(2.0 * math.pi)) / w
        if not abs(float(f(x)) - ref) <= 1e-6 * max(1.0, abs(ref)):
            det["x"] = x
            return "waveform at x=%r is %r, the truncated Gaussian(loc=%r, scale=%r) density is %r" % (x, float(f(x)), loc, scale, ref), det
    return None, det


def gen_gaussians(ck):
    quick = ck.tier == "quick"
    fixed = [(0.5, 0.25), (0.5, 0.5), (0.5, 0.02), (0.0, 1.0), (1.0, 1.0), (1, 1), (-2.0, 10.0), (3.0, 10.0), (-2.0, 0.5), (3.0, 0.5),
             (0.25, 0.05), (0.9, 0.03), (-0.5, 0.2), (1.7, 0.3), (0.5, 10.0), (0, 0.3), (2, 3)]
    out = [("fixed", l, s) for l, s in fixed]
    n = 150 if quick else 1500
    while len(out) < len(fixed) + n:
        loc = round(ck.rng.uniform(-2.0, 3.0), 4)
        scale = round(math.exp(ck.rng.uniform(math.log(0.02), math.log(10.0))), 5)
        out.append(("random", loc, scale))
    return out


# ------------------------------------------------------------------------------------------------ translator validation
def validate_translation(ck, tr):
    import numpy as np, scipy.stats
    from quantum_gates._gates import pulse as P
    bad, n = [], 0
    FUN = {"pdf": scipy.stats.norm.pdf, "cdf": scipy.stats.norm.cdf}
    env = {"np": np, "FUN": FUN}
    mir = {mn: eval("lambda x, loc, scale: " + T.py_of(t), dict(env)) for mn, t in tr["methods"].items()}
    den = eval("lambda loc, scale: " + T.py_of(tr["validate"][1]), dict(env))
    rhs = float(tr["validate"][2][1]) if tr["validate"][2][0] == "num" else None
    if rhs is None:
        bad.append(("validate rhs is not a literal", {}))
    which = {"pulse": tr["gauss_args"]["pulse"], "parametrization": tr["gauss_args"]["parametrization"]}
    params = [(0.5, 0.25), (0.3, 0.07), (-1.5, 2.0), (2.5, 0.9), (1, 1), (0.5, 10.0)] + \
             [(round(ck.rng.uniform(-2, 3), 3), round(math.exp(ck.rng.uniform(math.log(0.02), math.log(10))), 4)) for _ in range(40)] + \
             [(50.0, 0.1), (-30.0, 0.5), (8.0, 0.1), (0.5, 1e-3), (40.0, 1.0), (-9.0, 1.0), (12.0, 1.0)]
    with np.errstate(all="ignore"):
        for loc, scale in params:
            want_ok = den(loc, scale) != rhs
            try:
                g = P.GaussianPulse(loc=loc, scale=scale)
                got_ok = True
            except AssertionError:
                got_ok = False
            n += 1
            if want_ok != got_ok:
                bad.append(("constructor check", {"loc": loc, "scale": scale, "mirror_accepts": want_ok, "real_accepts": got_ok}))
            if not got_ok:
                continue
            if g.use_lookup is not tr["gauss_args"]["use_lookup"]:
                bad.append(("GaussianPulse.use_lookup", {"real": g.use_lookup}))
            for x in [0.0, 1.0, 0.5, 0, 1] + [ck.rng.uniform(-0.2, 1.2) for _ in range(6)]:
                n += 2
                a, b = mir[which["pulse"]](x, loc, scale), g.get_pulse()(x)
                if hexf(a) != hexf(b):
                    bad.append(("waveform", {"loc": loc, "scale": scale, "x": x, "mirror": hexf(a), "real": hexf(b)}))
                a, b = mir[which["parametrization"]](x, loc, scale), g.get_parametrization()(x)
                if hexf(a) != hexf(b):
                    bad.append(("parametrisation", {"loc": loc, "scale": scale, "x": x, "mirror": hexf(a), "real": hexf(b)}))
        fm = {nm: eval("lambda x: " + T.py_of(t), {"np": np}) for nm, t in tr["funcs"].items()}
        for cn, obj in (("ConstantPulse", P.ConstantPulse()), ("ConstantPulseNumerical", P.ConstantPulseNumerical()),
                        ("ConstantPulse", P.constant_pulse), ("ConstantPulseNumerical", P.constant_pulse_numerical)):
            d = tr["constant"][cn]
            if obj.use_lookup is not d["use_lookup"]:
                bad.append((cn + ".use_lookup", {"real": obj.use_lookup, "mirror": d["use_lookup"]}))
            for x in (0.0, 1.0, 0.3, -2.5, 7):
                n += 2
                if hexf(fm[d["pulse"]](x)) != hexf(obj.get_pulse()(x)) or hexf(fm[d["parametrization"]](x)) != hexf(obj.get_parametrization()(x)):
                    bad.append((cn + " waveform/parametrisation", {"x": x}))
    if hexf(P.Pulse.epsilon) != hexf(tr["epsilon"]) or P.Pulse.check_n_points != tr["check_n_points"]:
        bad.append(("class constants", {"real": [P.Pulse.epsilon, P.Pulse.check_n_points], "translated": [tr["epsilon"], tr["check_n_points"]]}))
    ck.count("translator-validation (python mirror == real objects, bitwise)", n)
    return bad


# ------------------------------------------------------------------------------------------------ accept / reject
PAIRS = [  # (spec, in the property's domain?)  expected verdicts come from the model mirror
    (["poly"], True), (["sin2"], True), (["const"], True),
    (["unnormalised", 1.01], True), (["unnormalised", 0.5], True), (["unnormalised", 1.0 + 5e-6], True),
    (["both-scaled", 1.001], True), (["both-scaled", 2.0], True), (["both-scaled", 1.0 + 5e-6], True), (["both-scaled", 1.0 - 4e-6], True),
    (["shifted", 3.0], True), (["shifted", -3.0], True), (["shifted", 1000.0], True),
    (["wrong-end", 5.0], True), (["wrong-end", 1e4], True),
    (["inconsistent"], True), (["inconsistent2"], True), (["negative"], True), (["decreasing-F"], True),
    (["above", "quad"], True), (["above", "sin"], True), (["below", "quad"], True), (["below", "cos"], True),
    # within eps of valid: accepted by design of the eps reading (the literal reading is refuted in Coq with this witness)
    (["coq-witness"], False), (["shifted", 0.4], False), (["unnormalised", 1.0 + 2e-7], False), (["between-grid"], False),
]
EXPECT = {  # the property's own verdict for in-domain pairs (independent of the model): valid pairs pass, invalid pairs fail
    "poly": True, "sin2": True, "const": True, "unnormalised": False, "both-scaled": False, "shifted": False, "wrong-end": False,
    "inconsistent": False, "inconsistent2": False, "negative": False, "decreasing-F": False, "above": False, "below": False,
}


def run_validation(spec, eps, n):
    """(model verdicts, implementation verdicts, constructor accepted?)"""
    from quantum_gates._gates.pulse import Pulse
    f, F = make_pair(spec, eps)
    mv = model_validate(f, F, eps, n)
    holder = Pulse(pulse=f, parametrization=F, perform_checks=False)
    iv = (bool(holder._pulse_is_valid(f)), bool(holder._parametrization_is_valid(F)), bool(holder._are_compatible(f, F)))
    try:
        Pulse(pulse=f, parametrization=F, perform_checks=True)
        acc = True
    except AssertionError:
        acc = False
    try:
        Pulse(pulse=f, parametrization=F, perform_checks=False)
        acc_off = True
    except Exception:  # noqa
        acc_off = False
    return mv, iv, acc, acc_off


# ------------------------------------------------------------------------------------------------ pickling
def pickle_runs(ck):
    import numpy as np
    from quantum_gates._gates import pulse as P
    from quantum_gates._gates.gates import Gates, ScaledNoiseGates
    bad = []
    pulses = [("constant_pulse", P.constant_pulse), ("constant_pulse_numerical", P.constant_pulse_numerical), ("gaussian_pulse", P.gaussian_pulse),
              ("GaussianPulse(0.3,0.2)", P.GaussianPulse(0.3, 0.2)), ("GaussianPulse(-1,2,checks)", P.GaussianPulse(-1.0, 2.0, perform_checks=True)),
              ("Pulse(poly)", P.Pulse(pulse=poly_f, parametrization=poly_F, perform_checks=True))]
    for name, p in pulses:
        try:
            q = pickle.loads(pickle.dumps(p))
        except Exception as e:  # noqa
            bad.append(("pickle of %s raised %s: %s" % (name, type(e).__name__, e), {"object": name}))
            continue
        for x in (0.0, 0.25, 0.5, 0.77, 1.0):
            ck.count("pickle: pulse round trip", 1)
            if hexf(p.get_pulse()(x)) != hexf(q.get_pulse()(x)) or hexf(p.get_parametrization()(x)) != hexf(q.get_parametrization()(x)) or p.use_lookup != q.use_lookup:
                bad.append(("unpickled %s differs at x=%r" % (name, x), {"object": name, "x": x}))
    args1 = (0.3, 1e-3, 1e-4, 8e-5)
    args2 = (0.1, -0.2, 3.2e-7, 1e-2, 1e-3, 2e-3, 1e-4, 8e-5, 1.2e-4, 9e-5)
    sets = [("Gates(constant)", Gates(P.constant_pulse)), ("Gates(gaussian)", Gates(P.GaussianPulse(0.4, 0.3))),
            ("Gates(poly)", Gates(P.Pulse(pulse=poly_f, parametrization=poly_F))), ("ScaledNoiseGates(0.5, gaussian)", ScaledNoiseGates(0.5, P.gaussian_pulse))]
    for name, gs in sets:
        try:
            gs2 = pickle.loads(pickle.dumps(gs))
        except Exception as e:  # noqa
            bad.append(("pickle of %s raised %s: %s" % (name, type(e).__name__, e), {"object": name}))
            continue
        for seed in (1, 2):
            outs = []
            for g in (gs, gs2):
                np.random.seed(seed)
                outs.append((np.asarray(g.X(*args1)).tobytes(), np.asarray(g.SX(*args1)).tobytes(), np.asarray(g.CNOT(*args2)).tobytes()))
            ck.count("pickle: gate set round trip, seeded samples", 3)
            if outs[0] != outs[1]:
                bad.append(("unpickled %s samples differently under the same seed" % name, {"object": name, "seed": seed}))
    return bad


def main(argv):
    ck = Check("C13", argv)
    ck.rule = ("Gaussian cases = (loc, scale): fixed corner values + random loc in [-2,3], log-uniform scale in [0.02,10]; in the domain when "
               "the Gaussian's weight on [0,1] is >= 1e-6 (documented requirement), informational below; validation cases = named "
               "(waveform, parametrisation) pairs: valid, unnormalised, wrong end points, inconsistent, negative, non-monotone, within-eps; "
               "distinct = distinct (loc, scale) / pair names")
    ck.trusted = ["Coq 8.16.1 kernel; Coquelicot (is_derive, is_RInt, continuous)",
                  "scipy.stats.norm: cdf(., loc, scale) is differentiable with derivative pdf(., loc, scale), pdf >= 0 and continuous (scale > 0) — "
                  "hypotheses of the theorems", "scipy.integrate.quad modelled as the Riemann integral in the validation model; np.linspace as lo + i(hi-lo)/(n-1)",
                  "checks/c13_translate.py printer (the tree is validated bitwise against the real objects each run)",
                  "coq/Model/Pulse.v (hand model of the three validation predicates), tied by verdict-by-verdict correspondence on named pairs",
                  "floating-point rounding; the oracle's reference formulas (math.erfc / math.exp, scipy quad with epsabs=epsrel=1e-12)"]
    ck.assume = ["Gaussian weight on [0,1] >= 1e-6 and scale >= 0.02 for the numeric oracle (below that cdf differences cancel / quad misses the peak)",
                 "validation is read in the eps/grid form (C13_validate_sound_at_grid); the literal form is refuted (C13_validate_sound_full_refuted)"]
    srcfile = os.path.join(SRC, "quantum_gates", "_gates", "pulse.py")

    if ck.replay:
        doc = json.load(open(ck.replay))["replay"]
        if doc.get("pulse", [None])[0] == "gauss":
            import random
            why, det = gaussian_oracle(doc["pulse"][1], doc["pulse"][2], random.Random(1))
            print("replay:", json.dumps(det), "->", why or "holds")
        elif "pair" in doc:
            from quantum_gates._gates.pulse import Pulse
            print("replay:", doc["pair"], "-> (model, implementation, accepted, accepted without checks)", run_validation(doc["pair"], Pulse.epsilon, Pulse.check_n_points))
        else:
            print("replay names a proof obligation / correspondence family / object, no numeric input:", json.dumps(doc)[:600])
        return 0

    tr, terr = None, None
    try:
        tr = TP.translate_pulse(srcfile)
        T.write_if_changed(os.path.join(COQ, "Gen", "GenPulse.v"), tr["coq"])
    except (T.TranslateError, SyntaxError) as e:
        terr = "%s: %s" % (type(e).__name__, e)
    ck.oblige("translate pulse.py -> Gen/GenPulse.v (fail closed)", tr is not None)
    ck.extra["source_sha256"] = tr["sha256"] if tr else None
    if tr is not None:
        ck.extra["typechecks_in_validate_inputs"] = tr["typechecks"]

    from quantum_gates._gates import pulse as P
    if os.path.realpath(P.__file__) != os.path.realpath(srcfile):
        ck.oblige("translated file is the imported module", False)

    bad = ck.hygiene()
    if bad:
        ck.report("hygiene", "forbidden construct in the Coq development: " + "; ".join(bad[:5]), {"theorem": "hygiene", "where": bad}, False)
    proofs_ok, failing, out = (False, "translation", terr)
    if tr is not None:
        proofs_ok, failing, out = ck.coq_props()

    mirror_bad = []
    if tr is not None:
        try:
            mirror_bad = validate_translation(ck, tr)
        except Exception as e:  # noqa
            mirror_bad = [("validation raised %s: %s" % (type(e).__name__, e), {})]
        ck.oblige("translator validation: mirror of the emitted terms == real objects, bitwise", not mirror_bad)

    failures = []   # (key, what, replay)
    # ---- Gaussian oracle
    low = 0
    glist = gen_gaussians(ck)
    built = []                     # all pulses are constructed first and examined afterwards (every third one is built on the spot instead)
    for k, (fam, loc, scale) in enumerate(glist):
        try:
            built.append(None if k % 3 == 2 else P.GaussianPulse(loc=loc, scale=scale))
        except AssertionError as e:
            built.append(e)
    for (fam, loc, scale), pre in zip(glist, built):
        w = weight(loc, scale)
        in_dom = w >= 1e-6
        try:
            why, det = gaussian_oracle(loc, scale, ck.rng, fine=2001 if ck.tier == "quick" else 5001, pulse=pre)
        except Exception as e:  # noqa
            why, det = "oracle raised %s: %s" % (type(e).__name__, e), {"pulse": ["gauss", loc, scale]}
        ck.count("gaussian:" + fam + ("" if in_dom else ":low-weight(informational)"), 1, key=(hexf(loc), hexf(scale)),
                 sample={"loc": loc, "scale": scale, "weight": w, "integral": det.get("integral"), "F0": det.get("F0"), "F1": det.get("F1")})
        if why and in_dom:
            failures.append(("gauss", "GaussianPulse(loc=%r, scale=%r): %s" % (loc, scale, why), det))
        elif why:
            low += 1
    if low:
        ck.notes.append("%d Gaussian(s) with weight < 1e-6 on [0,1] deviate or are rejected (outside the documented domain; informational)" % low)
    # Gaussian pulses pass the optional validation (C13_source_constants_and_gaussian_validates)
    for loc, scale in [(0.5, 0.25), (0.5, 0.02), (0.0, 1.0), (-2.0, 10.0), (3.0, 0.5), (0.25, 0.05), (1.7, 0.3)] + \
                      ([] if ck.tier == "quick" else [(round(ck.rng.uniform(-2, 3), 3), round(math.exp(ck.rng.uniform(math.log(0.02), math.log(10))), 4)) for _ in range(40)]):
        if weight(loc, scale) < 1e-6:
            continue
        ck.count("gaussian: perform_checks=True accepted", 1)
        try:
            P.GaussianPulse(loc=loc, scale=scale, perform_checks=True)
        except AssertionError as e:
            failures.append(("gauss-validate", "GaussianPulse(loc=%r, scale=%r, perform_checks=True) is rejected by the validation: %s" % (loc, scale, e),
                             {"pulse": ["gauss", loc, scale], "perform_checks": True}))
    # fixed probes at the known limit of the validation's default quadrature (narrow peaks; known_findings.json): own keys
    for loc, scale in [(0.3, 0.001), (0.5, 0.001)]:
        ck.count("known_limit_probes", 1, key=(loc, scale))
        try:
            P.GaussianPulse(loc=loc, scale=scale, perform_checks=True)
        except AssertionError as e:
            ck.report("gauss-validate:%r:%r" % (loc, scale), "GaussianPulse(loc=%r, scale=%r, perform_checks=True) is rejected by the validation (%s) although the pulse is a valid "
                      "smooth pair (weight on [0,1] = 1, waveform >= 0, parametrisation = running integral)" % (loc, scale, e), {"pulse": ["gauss", loc, scale], "perform_checks": True})
    # Gaussians whose weight on [0,1] vanishes in floating point must be refused (else the waveform is 0/0)
    for loc, scale in [(50.0, 0.1), (-30.0, 0.5), (40.0, 1.0), (3.0, 0.02), (-2.0, 0.02), (12.0, 0.25)]:
        ck.count("gaussian: zero weight refused", 1)
        try:
            g = P.GaussianPulse(loc=loc, scale=scale)
        except AssertionError:
            continue
        except Exception as e:  # noqa
            failures.append(("zero-weight", "GaussianPulse(loc=%r, scale=%r) raised %s instead of the constructor's AssertionError" % (loc, scale, type(e).__name__), {"pulse": ["gauss", loc, scale]}))
            continue
        import scipy.integrate
        tot = scipy.integrate.quad(g.get_pulse(), 0.0, 1.0)[0]
        if not abs(tot - 1.0) <= TOL:
            failures.append(("zero-weight", "GaussianPulse(loc=%r, scale=%r) is accepted although its weight on [0,1] is 0 in floating point; the waveform integrates to %r" % (loc, scale, tot),
                             {"pulse": ["gauss", loc, scale]}))
    # out-of-domain observation (informational): scale <= 0 / nan pass the constructor check because nan != 0
    odd = []
    for loc, scale in [(0.5, -0.25), (0.5, 0.0), (float("nan"), 0.25)]:
        try:
            g = P.GaussianPulse(loc=loc, scale=scale)
            v = g.get_pulse()(0.5)
            if v != v:
                odd.append((loc, scale))
        except Exception:  # noqa
            pass
        ck.count("constructor on non-Gaussian arguments (informational)", 1)
    if odd:
        ck.notes.append("informational (outside the property's domain, scale must be a positive standard deviation): the constructor accepts %r "
                        "because `nan != 0`, and the resulting waveform is nan" % (odd,))

    # ---- accept / reject pairs: model mirror vs implementation (exact verdicts) and the property's own verdict
    eps, npts = P.Pulse.epsilon, P.Pulse.check_n_points
    corr_bad = []
    for spec, in_dom in PAIRS:
        try:
            mv, iv, acc, acc_off = run_validation(spec, eps, npts)
        except Exception as e:  # noqa
            failures.append(("pair", "validation of the pair %r raised %s: %s" % (spec, type(e).__name__, e), {"pair": spec}))
            continue
        ck.count("validation pairs: model verdicts == implementation verdicts", 1, key=json.dumps(spec),
                 sample={"pair": spec, "model": mv, "implementation": iv, "accepted": acc})
        if tuple(mv) != tuple(iv) or acc != all(iv):
            corr_bad.append((spec, mv, iv, acc))
        if not acc_off:
            failures.append(("pair-off", "Pulse(%r, perform_checks=False) raised" % (spec,), {"pair": spec}))
        if in_dom and EXPECT[spec[0]] != acc:
            failures.append(("pair", "Pulse(pair=%r, perform_checks=True) is %s; the pair is %s" % (spec, "accepted" if acc else "rejected", "valid" if EXPECT[spec[0]] else "invalid (by much more than epsilon)"),
                             {"pair": spec, "accepted": acc, "model": mv, "implementation": iv}))
    ck.oblige("validation model (Model/Pulse.v mirror) == implementation verdicts on %d named pairs" % len(PAIRS), not corr_bad)
    ck.oblige("class constants in theorem range: 0 < epsilon <= 1/2, check_n_points >= 2", 0 < eps <= 0.5 and npts >= 2)

    # ---- pickling
    try:
        for what, det in pickle_runs(ck):
            failures.append(("pickle", what, det))
    except Exception as e:  # noqa
        failures.append(("pickle", "pickle family raised %s: %s" % (type(e).__name__, e), {"object": "harness"}))
    ck.oblige("direct oracle: Gaussian pulses normalised/consistent, accept/reject verdicts, pickle round trips", not failures)

    # ---- reporting
    if failures:
        seen = set()
        for key, what, det in failures:
            if key in seen or len(seen) >= 4:
                continue
            seen.add(key)
            ck.report("oracle:" + key, what, det, True)
    else:
        if tr is None:
            ck.report("translate", "pulse.py is outside the translator's vocabulary (fail closed): %s; the direct oracle passes on every explored input" % terr,
                      {"theorem": "translation of pulse.py", "error": terr}, False)
        elif mirror_bad:
            ck.report("translator-validation", "emitted model and real objects differ: %s %s; the direct oracle passes on every explored input" % mirror_bad[0],
                      {"correspondence": "translator validation", "first": mirror_bad[0][0], "inputs": mirror_bad[0][1]}, False)
        if tr is not None and not proofs_ok:
            ck.report("proof:" + str(failing), "proof obligation over the regenerated model no longer checks: %s; the direct oracle passes on every explored input" % failing,
                      {"theorem": failing, "log": (out or "")[-1500:]}, False)
        if corr_bad:
            spec, mv, iv, acc = corr_bad[0]
            ck.report("corr", "validation model and implementation disagree on the pair %r: model %r, implementation %r, constructor %s; the property's own verdicts hold"
                      % (spec, mv, iv, "accepts" if acc else "rejects"), {"correspondence": "C13 validation predicates", "pair": spec, "model": mv, "implementation": iv}, False)
    if failures and tr is None:
        ck.notes.append("translation failed: %s" % terr)
    if failures and tr is not None and not proofs_ok:
        ck.notes.append("proof obligation %s also fails over the regenerated model" % failing)
    return ck.finish()


if __name__ == "__main__":
    sys.exit(main(sys.argv[1:]))
