"""Table from which bin/mkmanifest writes MANIFEST.json."""
M = "Coq theorem over a hand-written executable Gallina model + exact correspondence with the implementation"
T = "Coq theorem over a model regenerated from the source on every run"
NOTES = ("All checks: cwd=/verif, honour VERIF_SEED / VERIF_TIER, rebuild from /repo's working tree, write /verif/evidence/<id>.json. "
         "Sixteen genuine defects were repaired by fix: commits in /repo (see known_findings.json 'fixed' and DESIGN.md section 7).")
NOT_APPLICABLE = {}
CHECKS = {
 "C16": dict(
    technique=M,
    design_ref="DESIGN.md 6 (C16)",
    text="Full-strength theorem (all n>=1, all non-empty tables with distinct n-bit keys, all value types): the Gallina model of fix_counts returns exactly "
         "the 2^n keys ascending, every input value under its reversed key, zero elsewhere, never raises; applying it twice restores the orientation. "
         "Closed under the global context. The model is tied to the code by an exhaustive small-scope + random correspondence run evaluated with vm_compute.",
    note="Trusted: Coq kernel/vm_compute; the hand-written model Model/FixCounts.v (tied by correspondence only: exhaustive over all non-empty key subsets n<=3 quick / n<=4 thorough, random n<=10); "
         "Python dict/sorted/int/format semantics as modelled. The Qiskit-ordering clause is the composition with C03's key_order (checked there)."),
}
