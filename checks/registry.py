"""MANIFEST source: one JSON file per claimed property under checks/registry.d/<ID>.json with keys
technique, design_ref, text (level_claimed.text), note (level_note); optional not_applicable reasons in NOT_APPLICABLE."""
import json, os, glob
_d = os.path.join(os.path.dirname(os.path.abspath(__file__)), "registry.d")
CHECKS = {os.path.basename(f)[:-5]: json.load(open(f)) for f in sorted(glob.glob(os.path.join(_d, "C*.json")))}
NOT_APPLICABLE = {}
NOTES = ("All checks: cwd=/verif, honour VERIF_SEED / VERIF_TIER, rebuild from /repo's working tree, write /verif/evidence/<id>.json. "
         "Sixteen genuine defects were repaired by fix: commits in /repo (see known_findings.json 'fixed' and DESIGN.md section 7).")
