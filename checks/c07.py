"""C07 — zero noise gives the ideal gate exactly; unitary noise gives unitary samples.
Tie T (symbolic execution of the real factories.py / gates.py -> coq/Gen/GenGates.v); theorems in coq/Props/C07.v are
decided by the reflective procedure of coq/Sym; direct oracle: real samples at exact zeros vs noise_free_gates and
unitarity with T1 = 0, every gate, several gate sets and pulses."""
import sys, json
import numpy as np
from vlib.common import Check


def main(argv):
    ck = Check("C07", argv)
    import checks.gates_common as gc
    ck.rule = ("obligations = theorems of Props/C07.v over the regenerated GenGates.v (+ trace regeneration, trace validation, oracle); "
               "evaluations = numeric validations of every traced decision path against intercepted real calls + oracle samples "
               "(gate x gate set x random phases/angles incl. theta = 0); a case is non-trivial when noise parameters other than the zeroed ones are on")
    ck.trusted = ["Coq 8.16.1 kernel + vm_compute", "coq/Sym reflective normaliser (proved sound; axioms: stdlib reals + funext)",
                  "tracer vlib/symtrace.py + checks/gates_trace.py (operator-overloading symbolic execution, fail-closed, numerically re-validated each run)",
                  "facts about scipy.linalg.expm as explicit theorem hypotheses: expm(0) = I, expm(anti-Hermitian) unitary",
                  "np.random.normal(0, 0) returns exactly 0 (relaxation's second draw at T1 = 0)",
                  "finite integral values (0 * integral = 0); floating-point rounding is outside the model"]
    if ck.replay:
        doc = json.load(open(ck.replay))["replay"]
        cnt, bad = gc.oracle_zero_unitary(np.random.default_rng(ck.seed), gc.gate_sets("thorough"), 3)
        print("replay", doc.get("case"), "-> oracle on current tree:", bad[:3] or "holds")
        return 0
    sets = gc.gate_sets(ck.tier)
    return gc.run_gate_check(ck, lambda rng: gc.oracle_zero_unitary(rng, sets, 4 if ck.tier == "quick" else 12), "zero_noise_and_unitarity")


if __name__ == "__main__":
    sys.exit(main(sys.argv[1:]))
