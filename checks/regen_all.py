"""Regenerates every coq/Gen/*.v from the current /repo sources (used by setup_cmd so that a fresh restore builds the
whole development; every check regenerates its own files again on each run). Exits 0 even if a translator fails closed:
the dependent check then reports it."""
import os, sys, traceback
here = os.path.dirname(os.path.abspath(__file__))
sys.path.insert(0, here)
from vlib.common import COQ, SRC

def step(name, f):
    try:
        f(); print("regen ok:", name)
    except Exception as e:  # noqa
        print("regen FAILED:", name, type(e).__name__, e)

def hell():
    import c17_translate as TR
    tr = TR.translate(open(os.path.join(SRC, "quantum_gates", "_utility", "simulations_utility.py")).read())
    open(os.path.join(COQ, "Gen", "GenHellinger.v"), "w").write(tr["coq"])

def integ():
    import c12_translate as T, c13_translate as TP
    tr = T.translate_integrator(os.path.join(SRC, "quantum_gates", "_gates", "integrator.py"))
    T.write_if_changed(os.path.join(COQ, "Gen", "GenIntegrator.v"), tr["coq"])
    trp = TP.translate_pulse(os.path.join(SRC, "quantum_gates", "_gates", "pulse.py"))
    T.write_if_changed(os.path.join(COQ, "Gen", "GenPulse.v"), trp["coq"])

def gates():
    import checks.gates_trace as gt
    gt.write_gen(gt.trace_everything())

def circuits():
    import checks.circuit_trace as ct
    if hasattr(ct, "write_gen"):
        ct.write_gen()

def cache():
    import c10_translate as TC
    flags, _facts = TC.read_cache_shape(SRC)
    TC.write_gen(flags, os.path.join(COQ, "Gen", "GenCacheKey.v"))

os.makedirs(os.path.join(COQ, "Gen"), exist_ok=True)
for n, f in (("GenHellinger", hell), ("GenIntegrator/GenPulse", integ), ("GenGates", gates), ("GenCircuit", circuits), ("GenCacheKey", cache)):
    step(n, f)
