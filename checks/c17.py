"""C17 — the Hellinger distance is a bounded metric on probability vectors.
Theorems: coq/Props/C17.v, stated about `gen_compute_Hellinger_distance`, the Gallina definition that
checks/c17_translate.py regenerates from the CURRENT source of simulations_utility.compute_Hellinger_distance on every
run (coq/Gen/GenHellinger.v, tie T).  The translator's reading of the source is validated numerically on every run:
its pure-Python float mirror (emitted from the same AST walk) must agree bit for bit with the real function.
Direct oracle (independent of the model): exact-integer evaluation of sqrt(1 - sum sqrt(p_i q_i)) on dyadic
probability vectors (entries k/2^50 summing to exactly 1) compared with the implementation to 1e-12, plus bounds,
zero/one characterisation, symmetry and the triangle inequality on the implementation's outputs."""
import sys, os, json, math, inspect
from fractions import Fraction
from vlib.common import Check, COQ, SRC

sys.path.insert(0, os.path.dirname(os.path.abspath(__file__)))
import c17_translate as TR  # noqa: E402

M = 50                 # entries are k / 2^M
ONE = 1 << M
TOL = 1e-12
GEN = os.path.join(COQ, "Gen", "GenHellinger.v")


# ---------------------------------------------------------------------------------------------- exact reference
def ref_hellinger(kp, kq):
    """sqrt(1 - sum_i sqrt(p_i q_i)) for p_i = kp[i]/2^M, q_i = kq[i]/2^M, in integer arithmetic (error < 1e-30)"""
    s = 200
    tot = sum(math.isqrt((a * b) << (2 * s)) for a, b in zip(kp, kq) if a and b)   # sum sqrt(k l) * 2^s
    t = (ONE << s) - tot                                                            # (1 - S) * 2^(M+s)
    if t < 0:
        t = 0
    d = M + s
    return float(Fraction(math.isqrt(t << d), 1 << d))


def to_floats(ks):
    return [k / ONE for k in ks]     # exact: k <= 2^50


# ---------------------------------------------------------------------------------------------- generators
def from_weights(rng, w):
    tot = sum(w)
    ks = [x * ONE // tot for x in w]          # integer weights
    rest = ONE - sum(ks)
    nz = [i for i, x in enumerate(w) if x > 0]
    ks[rng.choice(nz)] += rest
    assert sum(ks) == ONE and min(ks) >= 0
    return ks


def gen_vec(rng, n, kind):
    N = 2 ** n
    if kind == "dense":
        return from_weights(rng, [rng.randint(1, 10 ** 6) for _ in range(N)])
    if kind == "skewed":
        return from_weights(rng, [rng.randint(1, 10) ** rng.randint(1, 12) for _ in range(N)])
    if kind == "sparse":
        k = rng.randint(1, min(4, N))
        idx = rng.sample(range(N), k)
        w = [0] * N
        for i in idx:
            w[i] = rng.randint(1, 1000)
        return from_weights(rng, w)
    if kind == "point":
        w = [0] * N
        w[rng.randrange(N)] = 1
        return from_weights(rng, w)
    if kind == "uniform":
        return [ONE >> n] * N
    if kind == "tiny_tail":          # one dominant entry, the rest of size ~2^-40
        w = [rng.randint(0, 3) for _ in range(N)]
        w[rng.randrange(N)] = 2 ** 40
        return from_weights(rng, w)
    raise ValueError(kind)


KINDS = ["dense", "skewed", "sparse", "point", "uniform", "tiny_tail"]


def near(rng, kp):
    """move a small amount of mass between two entries"""
    kq = list(kp)
    N = len(kp)
    if N < 2:
        return kq
    for _ in range(20):
        a, b = rng.sample(range(N), 2)
        d = 1 << rng.choice([0, 5, 10, 20, 30, 40])
        if kq[a] >= d:
            kq[a] -= d
            kq[b] += d
            return kq
    return kq


def disjoint(rng, n):
    N = 2 ** n
    idx = list(range(N))
    rng.shuffle(idx)
    cut = rng.randint(1, N - 1)
    A, B = idx[:cut], idx[cut:]
    wp, wq = [0] * N, [0] * N
    for i in rng.sample(A, rng.randint(1, len(A))):
        wp[i] = rng.randint(1, 1000)
    for i in rng.sample(B, rng.randint(1, len(B))):
        wq[i] = rng.randint(1, 1000)
    return from_weights(rng, wp), from_weights(rng, wq)


def gen_cases(ck):
    rng = ck.rng
    cases = []   # (family, n, kp, kq, kr)
    per = 14 if ck.tier == "quick" else 150
    for n in range(1, 11):
        for _ in range(per):
            p, q, r = (gen_vec(rng, n, rng.choice(KINDS)) for _ in range(3))
            cases.append(("random_triples", n, p, q, r))
        for _ in range(per):
            p = gen_vec(rng, n, rng.choice(KINDS))
            q = near(rng, p)
            r = near(rng, q) if rng.random() < 0.5 else gen_vec(rng, n, rng.choice(KINDS))
            cases.append(("near_identical", n, p, q, r))
        for _ in range(per // 2):
            p, q = disjoint(rng, n)
            r = gen_vec(rng, n, rng.choice(KINDS))
            cases.append(("disjoint_support", n, p, q, r))
        for _ in range(per // 2):
            p = gen_vec(rng, n, rng.choice(KINDS))
            r = gen_vec(rng, n, rng.choice(["sparse", "point", "uniform"]))
            cases.append(("identical_pair", n, p, list(p), r))
    # large registers (vectors of 2^15, 2^16 entries): identical, near-identical, disjoint and generic pairs
    for n in ((15,) if ck.tier == "quick" else (15, 16, 17)):
        p = gen_vec(rng, n, "dense" if "dense" in KINDS else KINDS[0])
        q = near(rng, p)
        cases.append(("large_register", n, p, list(p), q))
        cases.append(("large_register", n, p, q, near(rng, q)))
        a, b = disjoint(rng, n)
        cases.append(("large_register", n, a, b, gen_vec(rng, n, rng.choice(KINDS))))
    # exhaustive degenerate layer: all pairs of point masses and the uniform vector for n <= 2
    for n in (1, 2):
        N = 2 ** n
        vs = [[ONE if i == j else 0 for i in range(N)] for j in range(N)] + [[ONE >> n] * N]
        for p in vs:
            for q in vs:
                for r in vs:
                    cases.append(("degenerate_exhaustive_n<=2", n, p, q, r))
    return cases


# ---------------------------------------------------------------------------------------------- implementation side
def run_impl(fn, np, p, q, n):
    try:
        with np.errstate(all="ignore"):
            v = fn(np.array(p, dtype=float), np.array(q, dtype=float), n)
        return ("ok", float(v))
    except Exception as e:  # noqa
        return ("err", type(e).__name__)


def run_mirror(mir, p, q, n):
    try:
        return ("ok", float(mir(list(p), list(q), n)))
    except Exception as e:  # noqa
        return ("err", type(e).__name__)


def same(a, b):
    if a[0] != b[0]:
        return False
    if a[0] == "err":
        return a[1] == b[1]
    return a[1].hex() == b[1].hex() or (a[1] != a[1] and b[1] != b[1])


def oracle_triple(fn, np, n, kp, kq, kr):
    """direct statement of the property on the implementation's outputs; returns None or a reason"""
    p, q, r = to_floats(kp), to_floats(kq), to_floats(kr)
    vals = {}
    # the caller's float64 arrays are passed as they are and re-used for the next pair (d(p,q) then d(q,p) ...): the value is a
    # function of the two distributions only, so the arguments must come back unchanged
    P, Q, R = np.array(p, dtype=float), np.array(q, dtype=float), np.array(r, dtype=float)
    for name, (a, b) in {"pq": (P, Q), "qp": (Q, P), "qr": (Q, R), "pr": (P, R)}.items():
        try:
            with np.errstate(all="ignore"):
                res = ("ok", float(fn(a, b, n)))
        except Exception as e:  # noqa
            res = ("err", type(e).__name__)
        if P.tolist() != p or Q.tolist() != q or R.tolist() != r:
            return "the call on the pair %s modified its argument arrays (float64 ndarrays passed by the caller)" % name
        if res[0] != "ok":
            return "raised %s on the pair %s" % (res[1], name)
        if not math.isfinite(res[1]):
            return "returned %r on the pair %s" % (res[1], name)
        vals[name] = res[1]
    for name, (ka, kb) in {"pq": (kp, kq), "qr": (kq, kr), "pr": (kp, kr)}.items():
        ref = ref_hellinger(ka, kb)
        h = vals[name]
        if abs(h - ref) > TOL:
            return "H(%s)=%r differs from sqrt(1-sum sqrt(p_i q_i))=%r by %.3e" % (name, h, ref, abs(h - ref))
        if h < 0 or h > 1 + TOL:
            return "H(%s)=%r outside [0,1]" % (name, h)
        if ka == kb and h != 0.0:
            return "H(%s)=%r for identical vectors" % (name, h)
        if ka != kb and ref >= 1e-9 and not h > 0:
            return "H(%s)=%r for different vectors" % (name, h)
        dis = all(a == 0 or b == 0 for a, b in zip(ka, kb))
        if dis and abs(h - 1) > TOL:
            return "H(%s)=%r for disjoint supports" % (name, h)
        if not dis and 1 - ref >= 1e-9 and not h < 1:
            return "H(%s)=%r although the supports overlap" % (name, h)
    # one buffer object re-filled in place between calls (reading each distribution into the same array): the value is a
    # function of the contents, never of the identity or the history of the array objects
    for slot in (0, 1):
        try:
            with np.errstate(all="ignore"):
                B = Q.copy()
                _ = fn(B, R, n) if slot == 0 else fn(P, B, n)
                B[:] = P if slot == 0 else R
                v = float(fn(B, R, n) if slot == 0 else fn(P, B, n))
        except Exception as e:  # noqa
            return "raised %s when an argument array is re-filled in place and passed again" % type(e).__name__
        if v.hex() != vals["pr"].hex():
            return ("H(p,r)=%r when the %s argument is an array re-filled in place after an earlier call, %r when passed fresh arrays with the same contents"
                    % (v, "first" if slot == 0 else "second", vals["pr"]))
    # a degenerate (one-hot) distribution given as an INTEGER or BOOL array, in either argument position, is the same distribution
    for nm, (a, b, want) in {"int p": (p, q, "pq"), "int q": (q, p, "qp")}.items():
        if all(x in (0.0, 1.0) for x in a):
            for dt in (int, bool, np.float32):
                try:
                    with np.errstate(all="ignore"):
                        v = float(fn(np.array(a).astype(dt), np.array(b, dtype=float), n))
                        w = float(fn(np.array(b, dtype=float), np.array(a).astype(dt), n))
                except Exception as e:  # noqa
                    return "raised %s when a one-hot distribution is passed with dtype %s" % (type(e).__name__, np.dtype(dt).name)
                if abs(v - vals[want]) > TOL or abs(w - vals[want]) > TOL:
                    return "H=%r / %r when a one-hot distribution is passed as a %s array (first / second argument), %r as float64" % (v, w, np.dtype(dt).name, vals[want])
    # ... and when BOTH vectors are 0/1 indicator vectors, as arrays of one small element type (bool, int8, uint8, int16, int32)
    if all(x in (0.0, 1.0) for x in p) and all(x in (0.0, 1.0) for x in q):
        for dt in (bool, np.int8, np.uint8, np.int16, np.int32):
            try:
                with np.errstate(all="ignore"):
                    v = float(fn(np.array(p).astype(dt), np.array(q).astype(dt), n))
            except Exception as e:  # noqa
                return "raised %s when both one-hot distributions are passed with dtype %s" % (type(e).__name__, np.dtype(dt).name)
            if abs(v - vals["pq"]) > TOL:
                return "H=%r when both indicator vectors are %s arrays, %r as float64" % (v, np.dtype(dt).name, vals["pq"])
    if abs(vals["pq"] - vals["qp"]) > TOL:
        return "not symmetric: H(p,q)=%r H(q,p)=%r" % (vals["pq"], vals["qp"])
    if vals["pr"] > vals["pq"] + vals["qr"] + TOL:
        return "triangle inequality fails: H(p,r)=%r > H(p,q)+H(q,r)=%r" % (vals["pr"], vals["pq"] + vals["qr"])
    return None


def malformed(rng):
    """(n, p, q) with shapes outside the property's domain: too short, too long, mismatched, length one"""
    out = []
    for n in (0, 1, 2, 3):
        N = 2 ** n
        f = lambda k: [rng.randint(0, 8) / 8 for _ in range(k)]  # noqa: E731
        out += [(n, f(N + 3), f(N + 3)), (n, f(max(N - 1, 0)), f(max(N - 1, 0))), (n, f(N), f(N + 1)), (n, f(N + 2), f(N)),
                (n, f(1), f(N)), (n, f(N), f(1)), (n, f(1), f(N + 2)), (n, [], []), (n, f(N), [])]
    return out


# ---------------------------------------------------------------------------------------------- main
def main(argv):
    ck = Check("C17", argv)
    ck.rule = ("oracle cases = (n, p, q, r), probability vectors with entries k/2^50 summing to exactly 1 (dense, skewed, sparse, "
               "point-mass, uniform, tiny-tail; near-identical = p with 2^-50..2^-10 of mass moved between two entries; disjoint "
               "supports; identical pair; all triples of point masses + uniform for n<=2), n = 1..10; each case evaluates the "
               "implementation on (p,q),(q,p),(q,r),(p,r) and the translator's float mirror on the same pairs; a case is "
               "non-trivial when p != q; distinct = distinct (n, p, q, r)")
    ck.trusted = ["Coq 8.16.1 kernel; standard-library real-number axioms (reported by Print Assumptions)",
                  "checks/c17_translate.py (Python ast -> Gallina over the vocabulary of coq/Model/Hellinger.v); its reading of "
                  "the source is validated on every run by bit-exact agreement of its float mirror with the real function",
                  "the vocabulary in coq/Model/Hellinger.v as the meaning of numpy's sqrt, -, **2, indexing and Python's "
                  "for/range over 1-d float arrays, with real numbers in place of binary64 (rounding is outside the model)",
                  "argument typing fixed by position: (array, array, natural number)"]
    ck.assume = ["floating-point rounding is outside the model: the oracle allows 1e-12 absolute deviation",
                 "entries >= 0 (np.sqrt of a negative entry is nan; Coq's sqrt returns 0 there) and arrays of length 2^n"]
    import numpy as np
    from quantum_gates._utility import simulations_utility as su
    fn = su.compute_Hellinger_distance
    srcfile = inspect.getsourcefile(su)
    if not os.path.realpath(srcfile).startswith(os.path.realpath(SRC)):
        ck.notes.append("simulations_utility imported from %s, not from %s" % (srcfile, SRC))

    if ck.replay:
        import shutil
        shutil.rmtree(ck.scratch, ignore_errors=True)
        doc = json.load(open(ck.replay))["replay"]
        if "kp" in doc:
            why = oracle_triple(fn, np, doc["n"], doc["kp"], doc["kq"], doc["kr"])
            print("replay: n=%d p=%s.. q=%s.. -> oracle: %s" % (doc["n"], to_floats(doc["kp"])[:4], to_floats(doc["kq"])[:4], why))
            return 1 if why else 0
        print("replay: no concrete input stored (%s)" % (doc.get("theorem") or doc.get("correspondence")))
        return 0

    # ------------------------------------------------------------------ tie T: regenerate the Gallina definition
    tr, tr_err = None, None
    try:
        tr = TR.translate(open(srcfile).read())
        mirror = TR.compile_mirror(tr["py"])
    except TR.Untranslatable as e:
        tr_err = "Untranslatable: %s" % e
    except SyntaxError as e:
        tr_err = "SyntaxError: %s" % e
    os.makedirs(os.path.dirname(GEN), exist_ok=True)
    if tr is None:
        if os.path.exists(GEN):
            os.remove(GEN)            # never prove theorems about a stale definition
    else:
        old = open(GEN).read() if os.path.exists(GEN) else None
        if old != tr["coq"]:
            with open(GEN, "w") as fh:
                fh.write(tr["coq"])
        ck.extra["generated_definition"] = tr["def"]
        ck.extra["source_lines"] = "%s:%d-%d" % (os.path.relpath(srcfile, SRC), tr["lines"][0], tr["lines"][1])
    ck.oblige("translator: compute_Hellinger_distance lies in the translatable fragment", tr is not None)

    bad = ck.hygiene()
    if bad:
        ck.report("hygiene", "forbidden construct in the Coq development: " + "; ".join(bad[:5]), {"theorem": "hygiene", "where": bad}, False)
    proofs_ok, failing, out = (False, "translator", tr_err)
    if tr is not None:
        proofs_ok, failing, out = ck.coq_props()

    # ------------------------------------------------------------------ oracle + mirror on the same inputs
    cases = gen_cases(ck)
    oracle_fail, mirror_bad = None, []
    for fam, n, kp, kq, kr in cases:
        why = oracle_triple(fn, np, n, kp, kq, kr)
        ck.count(fam, 1, key=(n, tuple(kp), tuple(kq), tuple(kr)) if kp != kq else None,
                 sample={"n": n, "p": to_floats(kp)[:4], "q": to_floats(kq)[:4], "H(p,q)": run_impl(fn, np, to_floats(kp), to_floats(kq), n)[1],
                         "reference": ref_hellinger(kp, kq)})
        if why and oracle_fail is None:
            oracle_fail = (fam, n, kp, kq, kr, why)
        if tr is not None:
            p, q, r = to_floats(kp), to_floats(kq), to_floats(kr)
            for a, b in ((p, q), (q, p), (q, r), (p, r)):
                ri, rm = run_impl(fn, np, a, b, n), run_mirror(mirror, a, b, n)
                ck.count("mirror_bit_exact", 1)
                if not same(ri, rm):
                    mirror_bad.append((n, a, b, ri, rm))
    if tr is not None:
        nmal = 0
        for n, p, q in malformed(ck.rng):
            ri, rm = run_impl(fn, np, p, q, n), run_mirror(mirror, p, q, n)
            ck.count("mirror_malformed_shapes", 1, sample={"n": n, "len_p": len(p), "len_q": len(q), "impl": ri[1], "mirror": rm[1]})
            if not same(ri, rm):
                nmal += 1
                if nmal <= 3:
                    ck.notes.append("translated definition and implementation differ on the out-of-domain shapes n=%d len(p)=%d len(q)=%d: %r vs %r (not a violation)"
                                    % (n, len(p), len(q), ri, rm))
        ck.oblige("translator validation: float mirror of the generated definition == implementation, bit for bit, on %d pairs"
                  % (4 * len(cases)), not mirror_bad)
    ck.oblige("direct oracle (formula to 1e-12, bounds, zero/one, symmetry, triangle) on %d triples" % len(cases), oracle_fail is None)
    ck.exhaustive = False

    # ------------------------------------------------------------------ verdict
    if oracle_fail:
        fam, n, kp, kq, kr, why = oracle_fail
        ck.report("oracle", "compute_Hellinger_distance violates the property: %s (n=%d, family %s, p=%s.., q=%s..)"
                  % (why, n, fam, to_floats(kp)[:4], to_floats(kq)[:4]), {"n": n, "kp": kp, "kq": kq, "kr": kr, "why": why, "family": fam})
    else:
        if tr is None:
            ck.report("translator", "the source of compute_Hellinger_distance left the translatable fragment (%s); the theorems of "
                      "Props/C17.v have no subject; the direct oracle passes on every explored input" % tr_err,
                      {"theorem": "C17_bridge (translator)", "error": tr_err}, False)
        elif not proofs_ok:
            ck.report("proof:" + str(failing), "proof obligation no longer checks for the definition generated from the current source: %s"
                      % failing, {"theorem": failing, "generated": tr["def"], "log": (out or "")[-1500:]}, False)
        if mirror_bad:
            n, a, b, ri, rm = mirror_bad[0]
            ck.report("corr", "translated definition (float mirror) and implementation disagree on n=%d p=%s.. q=%s..: %r vs %r; the "
                      "property's own oracle passes on every explored input" % (n, a[:4], b[:4], ri, rm),
                      {"correspondence": "C17 translator mirror", "n": n, "p": [x.hex() for x in a], "q": [x.hex() for x in b],
                       "impl": ri, "mirror": rm}, False)
    return ck.finish()


if __name__ == "__main__":
    sys.exit(main(sys.argv[1:]))
