"""C10 — fixed numpy seed reproduces results; sampling has no hidden history.
Theorems: coq/Props/C10.v over Model/Cache.v (integrate as a step function over a per-object finite map keyed by the tuple the
CURRENT source uses; the sampling step over an abstract generator).
Ties: (a) checks/c10_translate.py reads the cache key and the place where the dict is created from integrator.py (ast, fail closed)
and regenerates coq/Gen/GenCacheKey.v, which Props/C10.v needs to be the full shape by `reflexivity`;
(b) source-of-randomness scan (ast, fail closed); (c) correspondence: operation histories on real Integrator objects (recomputations
observed through counting wrappers around scipy.integrate.quad and the closed-form tables; complete key lists of every object's
_cache after every step) against the model evaluated inside Coq; direct oracles: cached value == cold value bit for bit, gates
sampled cold vs after adversarial histories under fixed seeds (bytes and successor generator state), seeded gate sequences, repeated
sequential simulator runs on one simulator object."""
import sys, os, json, struct, re, copy
import numpy as np
from vlib.common import Check, coq_list, VERIF, COQ, SRC
from checks import c10_translate as tr

HP, HQ = 1000003, 2305843009213693951
ERRCODE = {"AssertionError": -3, "IndexError": -1, "ValueError": -2, "TypeError": -4, "KeyError": -5}
NAMES = ["sin(theta/a)**2", "sin(theta/(2*a))**4", "sin(theta/a)*sin(theta/(2*a))**2", "sin(theta/(2*a))**2", "cos(theta/a)**2",
         "sin(theta/a)*cos(theta/a)", "sin(theta/a)", "cos(theta/(2*a))**2", "tan(theta/a)"]   # index 8 is not a known integrand

PRELUDE = r"""
From Coq Require Import List Bool ZArith Arith.
Require Import QG.Base.Res QG.Model.Cache.
Import ListNotations.
Local Open Scope Z_scope.
Definition hashZ (l : list Z) : Z := fold_left (fun h x => (h * 1000003 + x + 7) mod 2305843009213693951) l 0.
Definition errcode (e : err) : Z :=
  match e with IndexError => -1 | ValueError => -2 | AssertionError => -3 | TypeError => -4 | KeyError => -5 | _ => -99 end.
Definition zn (n : nat) := Z.of_nat n.
Notation V := (Z * Z * Z * Z)%type.
Definition ev (p i th a : Z) : res V := Ok (p, i, th, a).
Definition known (i : Z) := (0 <=? i) && (i <? 8).
(* a is the IEEE-754 bit pattern of the duration: a > 0 iff the pattern is in (0, +inf] *)
Definition apos (a : Z) := (0 <? a) && (a <=? 9218868437227405312).
Notation W := (world Z Z Z V Z).
Definition wst := wstep Z Z Z V Z Z.eqb Z.eqb Z.eqb known apos ev full_shape.
Definition oz (x : option Z) : Z := match x with Some v => v | None => -1 end.
Definition enc_cache (c : list ((option Z * option Z * option Z) * V)) : list Z :=
  zn (length c) :: flat_map (fun kv => [oz (fst (fst (fst kv))); oz (snd (fst (fst kv))); oz (snd (fst kv))]) c.
Definition wobs (w : W) : list Z :=
  zn (length (objs _ _ _ _ _ w)) :: flat_map (fun g => pulse _ _ _ _ _ g :: enc_cache (cache_of _ _ _ _ _ g)) (objs _ _ _ _ _ w)
  ++ enc_cache (shared _ _ _ _ _ w).
Definition v_eqb (x y : V) : bool :=
  let '(a, b, c, d) := x in let '(a', b', c', d') := y in Z.eqb a a' && Z.eqb b b' && Z.eqb c c' && Z.eqb d d'.
(* the value a step returns must be the uncached value of the step's OWN (pulse, integrand, theta, a) *)
Definition prov_ok (w : W) (o : wop Z Z Z Z) (v : V) : bool :=
  match o with
  | WInt _ _ _ _ k i th a => match nth_error (objs _ _ _ _ _ w) k with Some g => v_eqb v (pulse _ _ _ _ _ g, i, th, a) | None => false end
  | _ => false
  end.
Fixpoint wtrace (w : W) (h : list (wop Z Z Z Z)) : list Z * W :=
  match h with
  | [] => ([], w)
  | o :: r =>
      match wst w o with
      | Err e => let '(cs, wf) := wtrace w r in (errcode e :: cs, wf)
      | Ok (w', out) =>
          let flag := match out with
                      | None => 2
                      | Some (v, b) => (if b then 1 else 0) + (if prov_ok w o v then 0 else 10)
                      end in
          let '(cs, wf) := wtrace w' r in (hashZ (flag :: wobs w') :: cs, wf)
      end
  end.
Fixpoint zl_eqb (a b : list Z) : bool :=
  match a, b with [], [] => true | x :: a', y :: b' => Z.eqb x y && zl_eqb a' b' | _, _ => false end.
Definition chk (h : list (wop Z Z Z Z)) (ecodes efinal : list Z) : Z :=
  let '(cs, wf) := wtrace (empty_world Z Z Z V Z) h in
  if negb (zl_eqb cs ecodes) then 1 else if negb (zl_eqb (wobs wf) efinal) then 2 else 0.
Fixpoint bad (i : nat) (cs : list Z) : list (nat * Z) :=
  match cs with [] => [] | c :: r => if Z.eqb c 0 then bad (S i) r else (i, c) :: bad (S i) r end.
Arguments WNew {I T A P}. Arguments WInt {I T A P}.
"""


def fbits(x):
    """IEEE-754 pattern of the numeric value (ints and floats that compare equal get the same code, as in a dict key;
    -0.0 is identified with 0.0 for the same reason)"""
    return struct.unpack("<Q", struct.pack("<d", float(x) + 0.0))[0]


def hashz(l):
    h = 0
    for x in l:
        h = (h * HP + x + 7) % HQ
    return h


# ------------------------------------------------------------------------------------------------ pulses / gate sets
def pulses():
    from quantum_gates._gates.pulse import GaussianPulse, constant_pulse, constant_pulse_numerical
    return [constant_pulse, constant_pulse_numerical, GaussianPulse(0.5, 0.25), GaussianPulse(0.3, 0.4)]


class Counters(object):
    """counting wrappers around every route to an uncached evaluation"""

    def __init__(self):
        import scipy.integrate
        from quantum_gates._gates import integrator as im
        self.n = 0
        self.im, self.si = im, scipy.integrate
        self.orig_quad = scipy.integrate.quad
        self.orig_res = dict(im.Integrator._RESULT_LOOKUP)
        self.orig_int = dict(im.Integrator._INTEGRAL_LOOKUP)

    def __enter__(self):
        def wrap(f):
            def g(*a, **k):
                self.n += 1
                return f(*a, **k)
            return g
        self.si.quad = wrap(self.orig_quad)
        for k, f in self.orig_res.items():
            self.im.Integrator._RESULT_LOOKUP[k] = wrap(f)
        for k, f in self.orig_int.items():
            self.im.Integrator._INTEGRAL_LOOKUP[k] = wrap(f)
        return self

    def __exit__(self, *a):
        self.si.quad = self.orig_quad
        self.im.Integrator._RESULT_LOOKUP.update(self.orig_res)
        self.im.Integrator._INTEGRAL_LOOKUP.update(self.orig_int)


# ------------------------------------------------------------------------------------------------ family 1: cache histories
THETAS = [0.5, -0.5, np.pi / 4, np.pi / 2, np.pi, 1.0, 2.0, 0.0]
AS = [1, 1.0, 2.0, 0.5, 3e-7, 2.5e-7, 0.0, -1.0]


def gen_cache_history(rng, wild):
    ops = [("new", rng.choice([0, 1, 1, 2]))]
    nobj = 1
    pool_keys = []
    for _ in range(rng.randint(4, 22)):
        r = rng.random()
        if r < 0.15 and nobj < 4:
            ops.append(("new", rng.choice([0, 1, 1, 2, 1]))); nobj += 1; continue
        o = rng.randrange(nobj)
        if pool_keys and r < 0.55:
            i, th, a = rng.choice(pool_keys)
            m = rng.random()
            if m < 0.35:
                a = rng.choice(AS[:6])               # same angle, other duration
            elif m < 0.7:
                th = rng.choice(THETAS)              # same duration, other angle
        else:
            i, th, a = rng.randrange(8), rng.choice(THETAS), rng.choice(AS[:6])
        if wild and rng.random() < 0.2:
            i, a = rng.choice([i, 8]), rng.choice([a, 0.0, -1.0])
        pool_keys.append((i, th, a))
        ops.append(("int", o, i, th, a))
    return ops


def run_cache_history(ops, P, cold):
    """returns (codes, final obs, oracle failure or None)"""
    from quantum_gates._gates.integrator import Integrator
    objs, pids, codes, fail = [], [], [], None

    def wobs():
        out = [len(objs)]
        for g, pid in zip(objs, pids):
            ks = list(g._cache.keys())
            out += [pid, len(ks)]
            for k in ks:
                if not (isinstance(k, tuple) and len(k) == 3 and k[0] in NAMES):
                    raise tr.Unreadable("cache key %r is not (integrand, theta, a)" % (k,))
                out += [NAMES.index(k[0]), fbits(k[1]), fbits(k[2])]
        return out + [0]
    with Counters() as C:
        for idx, op in enumerate(ops):
            if op[0] == "new":
                objs.append(Integrator(P[op[1]])); pids.append(op[1])
                codes.append(hashz([2] + wobs())); continue
            _, o, i, th, a = op
            C.n = 0
            try:
                v = objs[o].integrate(NAMES[i], th, a); err = None
            except Exception as e:  # noqa
                v, err = None, type(e).__name__
            if err is not None:
                codes.append(ERRCODE.get(err, -99)); continue
            flag = 1 if C.n > 0 else 0
            codes.append(hashz([flag] + wobs()))
            key = (pids[o], i, type(th).__name__, float(th).hex(), type(a).__name__, float(a).hex())   # a request = its values AND their numeric types
            if key not in cold:
                n0 = C.n
                ci = Integrator(P[pids[o]]); ci._cache = {}        # a private empty dict whatever the class does: truly cold
                cold[key] = ci.integrate(NAMES[i], th, a)
                C.n = n0
            if fail is None and float(v).hex() != float(cold[key]).hex():
                fail = (idx, "integrate(%r, %r, %r) on integrator #%d (pulse %d) returned %s after this history, a cold evaluation gives %s"
                        % (NAMES[i], th, a, o, pids[o], float(v).hex(), float(cold[key]).hex()))
        final = wobs()[:1000]    # a legitimate final state has < 300 numbers; longer ones can only disagree with the model
    return codes, final, fail


def coq_cache_case(ops, codes, final):
    z = lambda x: "(%d)" % x
    items = []
    for op in ops:
        if op[0] == "new":
            items.append("WNew %s" % z(op[1]))
        else:
            items.append("WInt %d%%nat %s %s %s" % (op[1], z(op[2]), z(fbits(op[3])), z(fbits(op[4]))))
    return "chk %s %s %s" % (coq_list(items), coq_list([z(c) for c in codes]), coq_list([z(c) for c in final]))


# ------------------------------------------------------------------------------------------------ family 2/3: gates under fixed seeds
NOISE1 = (1e-3, 1.1e-4, 0.9e-4)          # p, T1, T2
TWOQ = (1e-2, 1e-3, 2e-3, 1.2e-4, 0.8e-4, 1.0e-4, 0.7e-4)   # p_2q, p_ctr, p_trg, T1c, T2c, T1t, T2t


def method_args(rng, m):
    phi, phi2 = rng.choice([0.0, 0.3, -1.2, np.pi / 2]), rng.choice([0.0, 0.7, -0.4])
    t2 = rng.choice([3e-7, 2.5e-7, 4.4e-7])
    if m == "relaxation":
        return (rng.choice([1e-7, 3e-7]), 1.1e-4, 0.9e-4)
    if m in ("bitflip", "depolarizing"):
        return (rng.choice([1e-7, 3e-7]), rng.choice([1e-3, 2e-2]))
    if m == "single_qubit_gate":
        return (rng.choice([np.pi, np.pi / 2, 0.5, -0.5, 1.0]), phi) + NOISE1
    if m in ("X", "SX"):
        return (phi,) + NOISE1
    if m == "CR":
        return (rng.choice([np.pi / 4, -np.pi / 4, 0.3]), phi, t2, 1e-2, 1.2e-4, 0.8e-4, 1.0e-4, 0.7e-4)
    return (phi, phi2, t2) + TWOQ


METHODS = ["X", "SX", "CNOT", "CNOT_inv", "ECR", "ECR_inv", "relaxation", "depolarizing", "bitflip", "single_qubit_gate", "CR"]


def perturb(rng, m, args, what):
    """an adversarial neighbour of a call: same angles with another duration, or same durations with other angles"""
    a = list(args)
    if what == "phase":       # same angle, durations and noise values, another drive phase (a virtual rz happened in between)
        idx = {"X": [0], "SX": [0], "single_qubit_gate": [1], "CR": [1]}.get(m, [0, 1] if m in ("CNOT", "CNOT_inv", "ECR", "ECR_inv") else [])
        for i in idx:
            a[i] = a[i] + rng.choice([0.37, -1.1, 2.0])
        return m, tuple(a)
    if what == "noise":
        # same angles and durations, other error probabilities / T1 / T2 (another qubit's calibration on the same gate set)
        first = {"X": 1, "SX": 1, "single_qubit_gate": 2, "CR": 3, "relaxation": 1, "bitflip": 1, "depolarizing": 1}.get(m, 3)
        f = rng.choice([0.5, 0.7, 1.6])
        for i in range(first, len(a)):
            a[i] = a[i] * f
        return m, tuple(a)
    if m in ("CNOT", "CNOT_inv", "ECR", "ECR_inv"):
        if what == "duration":
            a[2] = a[2] * rng.choice([2.0, 0.5, 1.5])
        else:
            a[0] += rng.choice([0.25, -0.5]); a[1] -= 0.125
    elif m == "CR":
        if what == "duration":
            a[2] = a[2] * rng.choice([2.0, 0.5])
        else:
            a[0] = a[0] * rng.choice([2.0, -1.0, 0.5])
    elif m == "single_qubit_gate":
        if what == "duration":
            return "CR", (a[0], 0.0, rng.choice([2.0, 0.5, 3e-7]), 1e-2, 1.2e-4, 0.8e-4, 1.0e-4, 0.7e-4)   # same theta, a != 1, same integrator
        a[0] = a[0] * rng.choice([2.0, -1.0, 0.5])
    elif m in ("X", "SX"):
        if what == "duration":
            return "CR", (np.pi if m == "X" else np.pi / 2, 0.0, rng.choice([2.0, 0.5]), 1e-2, 1.2e-4, 0.8e-4, 1.0e-4, 0.7e-4)
        return "single_qubit_gate", (rng.choice([0.5, 1.0, -np.pi]), a[0]) + NOISE1
    else:
        a[0] = a[0] * 2.0
    return m, tuple(a)


def mk_gateset(spec, P):
    from quantum_gates._gates.gates import Gates, ScaledNoiseGates, NoiseFreeGates, standard_gates, numerical_gates
    kind = spec[0]
    if kind == "Gates":
        return Gates(P[spec[1]])
    if kind == "Scaled":
        return ScaledNoiseGates(spec[2], P[spec[1]])
    if kind == "NoiseFree":
        return NoiseFreeGates()
    if kind == "standard":
        return standard_gates
    return numerical_gates


def exec_events(events, P, sets=None):
    """events: ["new", spec] | ["call", set index, method, args] | ["seed", s] | ["draw", k] | ["integrate", pulse, i, th, a]"""
    from quantum_gates._gates.integrator import Integrator
    sets = sets if sets is not None else []
    outs = []
    for e in events:
        if e[0] == "new":
            sets.append(mk_gateset(e[1], P))
        elif e[0] == "call":
            outs.append(np.asarray(getattr(sets[e[1]], e[2])(*e[3])))
        elif e[0] == "call32":      # the same request with its angle given in single precision (np.float32 compares and hashes equal to the float)
            a = list(e[3]); a[0] = np.float32(a[0])
            outs.append(np.asarray(getattr(sets[e[1]], e[2])(*a)))
        elif e[0] == "seed":
            np.random.seed(e[1])
        elif e[0] == "draw":
            np.random.normal(size=e[1])
        elif e[0] == "integrate":
            Integrator(P[e[1]]).integrate(NAMES[e[2]], e[3], e[4])
    return sets, outs


def gen_gate_case(rng, quick):
    pid = rng.choice([1, 1, 1, 2, 3, 0] if quick else [1, 1, 2, 3, 0])
    m = rng.choice(METHODS)
    args = method_args(rng, m)
    seed = rng.choice([0, 1, 5, 2 ** 32 - 1, rng.randrange(2 ** 32)])
    ev = []
    # "off" values in the request itself: some of its error probabilities / T1 / T2 are exactly 0 while the history sampled the same pulses with
    # every channel on (on the same gate-set object, same angles and durations) -- nothing of the earlier request may survive in the later one
    if rng.random() < 0.35:
        first = {"X": 1, "SX": 1, "single_qubit_gate": 2, "CR": 3, "relaxation": 1, "bitflip": 1, "depolarizing": 1}.get(m, 3)
        full = tuple(args)
        a0 = list(args)
        for i in rng.sample(range(first, len(a0)), rng.randint(1, len(a0) - first)):
            a0[i] = 0 if rng.random() < 0.5 else 0.0
        args = tuple(a0)
        ev.append(["call", 0, m, full])
        if rng.random() < 0.5:
            m2, a2 = perturb(rng, m, full, "noise"); ev.append(["call", 0, m2, a2])
    for _ in range(rng.randint(2, 7)):
        r = rng.random()
        if r < 0.30:
            m2, a2 = perturb(rng, m, args, "duration"); ev.append(["call", 0, m2, a2])
        elif r < 0.50:
            m2, a2 = perturb(rng, m, args, "angle"); ev.append(["call", 0, m2, a2])
        elif r < 0.52:
            ev.append(["call", 0, m, args])                         # warm the cache with the very same request
        elif r < 0.56 and m in ("single_qubit_gate", "CR") and float(np.float32(args[0])) == float(args[0]):
            ev.append(["call32", 0, m, args])                       # ... and with the angle as np.float32 (exactly representable angles only)
        elif r < 0.64:
            m2, a2 = perturb(rng, m, args, "noise"); ev.append(["call", 0, m2, a2])   # same pulse, another qubit's noise values
        elif r < 0.72:
            m2, a2 = perturb(rng, m, args, "phase"); ev.append(["call", 0, m2, a2])   # same pulse and noise values, another phase
        elif r < 0.80:
            other = rng.choice([["Gates", rng.choice([0, 1, 2])], ["Scaled", pid, 0.5], ["NoiseFree"], ["standard"], ["numerical"], ["Gates", pid]])
            m2, a2 = (m, args) if rng.random() < 0.5 else perturb(rng, m, args, "duration")
            ev.append(["new", other]); ev.append(["call", "last", m2, a2])
        elif r < 0.90:
            ev.append(["integrate", pid, rng.randrange(8), rng.choice([np.pi, np.pi / 2, np.pi / 4]), rng.choice([1, 2.0, 3e-7])])
        else:
            ev.append(["seed", rng.randrange(2 ** 32)]); ev.append(["draw", rng.randint(1, 5)])
    # resolve "last" indices
    nsets, out = 1, []
    for e in ev:
        if e[0] == "new":
            nsets += 1
        if e[0] in ("call", "call32") and e[1] == "last":
            e = ["call", nsets - 1, e[2], e[3]]
        out.append(e)
    # a perturbed call may name a method the other gate set lacks (CR on NoiseFree exists; all fine)
    return {"family": "gates", "pulse": pid, "method": m, "args": list(args), "seed": seed, "history": out}


def state_key(st):
    return (st[0], st[1].tobytes(), st[2], st[3], st[4])


def run_gate_case(doc, P):
    """cold sample vs the same request after the history; returns None or a description of the difference"""
    pid, m, args, seed = doc["pulse"], doc["method"], tuple(doc["args"]), doc["seed"]
    np.random.seed(seed)
    cg = mk_gateset(["Gates", pid], P); cg.integrator._cache = {}       # private empty dict: truly cold whatever the class does
    cold = np.asarray(getattr(cg, m)(*args))
    st_cold = state_key(np.random.get_state())
    np.random.seed((seed * 7 + 3) % 2 ** 32)
    sets = [mk_gateset(["Gates", pid], P)]
    hist = [[e[0], e[1], e[2], tuple(e[3])] if e[0] in ("call", "call32") else e for e in doc["history"]]
    try:
        exec_events(hist, P, sets)
    except Exception as e:  # noqa
        return "history raised %s: %s" % (type(e).__name__, str(e)[:80]), True
    np.random.seed(seed)
    warm = np.asarray(getattr(sets[0], m)(*args))
    st_warm = state_key(np.random.get_state())
    if cold.tobytes() != warm.tobytes():
        if np.array_equal(cold, warm):
            return "matrices equal numerically but not bit for bit (signed zero)", True
        return ("%s%r on pulse %d under seed %d: the matrix sampled after the history differs from the cold sample (max |diff| = %.3e)"
                % (m, args, pid, seed, float(np.max(np.abs(cold - warm)))), False)
    if st_cold != st_warm:
        return "%s%r under seed %d: successor generator state after the history differs from the cold one" % (m, args, seed), False
    return None


def run_sequence_case(doc, P):
    """a seeded sequence of gates on a fresh gate set, on the same (now warm) gate set again, and on another fresh one after noise"""
    seq = [(m, tuple(a)) for m, a in doc["sequence"]]
    res = []
    g = mk_gateset(["Gates", doc["pulse"]], P)
    for rep in range(3):
        if rep == 2:
            g = mk_gateset(["Gates", doc["pulse"]], P)
            np.random.seed(12345); np.random.normal(size=3); mk_gateset(["Gates", 1], P).X(0.1, *NOISE1)
        np.random.seed(doc["seed"])
        res.append([np.asarray(getattr(g, m)(*a)).tobytes() for m, a in seq] + [state_key(np.random.get_state())])
    if res[0] != res[1]:
        k = [i for i in range(len(seq) + 1) if res[0][i] != res[1][i]][0]
        return "seeded sequence: element %d differs between the first and the second pass on the same gate set" % k
    if res[0] != res[2]:
        return "seeded sequence differs between two gate-set objects of the same pulse"
    return None


# ------------------------------------------------------------------------------------------------ family 4: simulator reruns
def run_sim_case(doc, P):
    from qiskit import QuantumCircuit
    from quantum_gates._simulation.simulator import MrAndersonSimulator
    from quantum_gates._simulation import circuit as cm
    n = doc["n"]
    qc = QuantumCircuit(n, n, name="circ")
    dev = {"T1": np.arange(1, n + 1) * 1e-4, "T2": np.arange(1, n + 1) * 0.8e-4, "p": np.arange(1, n + 1) * 1e-3,
           "rout": np.arange(1, n + 1) * 1e-2, "p_int": np.full((n, n), 2e-2), "t_int": np.full((n, n), 3e-7) + np.arange(n)[:, None] * 1e-8,
           "tm": np.arange(1, n + 1) * 1e-6, "dt": np.array([2.2e-10])}
    psi0 = np.zeros(2 ** n); psi0[0] = 1
    gates = mk_gateset(doc["gates"], P)
    sim = MrAndersonSimulator(gates=gates, CircuitClass=getattr(cm, doc["class"]), parallel=False)
    # history: the simulator object runs this very circuit OBJECT while it is still short (one pulse per qubit, measured), then the
    # object is extended in place (a depth sweep): later runs are functions of the circuit's content at call time
    for q in range(n):
        qc.sx(q)
    for q in range(n):
        qc.measure(q, q)
    np.random.seed(doc["seed"] ^ 0x3C3C); sim.run(t_qiskit_circ=qc, qubits_layout=list(range(n)), psi0=psi0, shots=1, device_param=dev, nqubit=n)
    for ins in doc["prog"]:
        if ins[0] == "rz":
            qc.rz(ins[1], ins[2])
        elif ins[0] in ("sx", "x"):
            getattr(qc, ins[0])(ins[1])
        elif ins[0] in ("cx", "ecr"):
            getattr(qc, ins[0])(ins[1], ins[2])
        elif ins[0] == "delay":
            qc.delay(ins[1], ins[2])
    kw = dict(t_qiskit_circ=qc, qubits_layout=list(range(n)), psi0=psi0, shots=doc["shots"], device_param=dev, nqubit=n)
    hexd = lambda r: [(k, float(v).hex()) for k, v in r.items()]
    np.random.seed(doc["seed"]); r1 = hexd(sim.run(**kw))
    np.random.seed(doc["seed"] ^ 0x5A5A); sim.run(**dict(kw, shots=1))          # unrelated run in between
    getattr(gates, "X")(0.2, *NOISE1)                                            # and a direct use of the simulator's gate set
    np.random.seed(doc["seed"]); r2 = hexd(sim.run(**kw))
    np.random.seed(doc["seed"]); r3 = hexd(MrAndersonSimulator(gates=mk_gateset(doc["gates"], P), CircuitClass=getattr(cm, doc["class"])).run(**kw))
    if r1 != r2:
        return "two sequential run() calls on one simulator object under seed %d differ: %s vs %s" % (doc["seed"], r1[:2], r2[:2])
    if r1 != r3:
        return "run() under seed %d differs between the used simulator and a newly built one: %s vs %s" % (doc["seed"], r1[:2], r3[:2])
    return None


def gen_sim_case(rng):
    n = rng.choice([2, 3])
    prog = []
    for _ in range(rng.randint(2, 6)):
        r = rng.random()
        if r < 0.3:
            prog.append(["rz", rng.choice([0.5, -1.25, 2.0]), rng.randrange(n)])
        elif r < 0.55:
            prog.append([rng.choice(["sx", "x"]), rng.randrange(n)])
        else:
            i = rng.randrange(n - 1); c, t = rng.choice([(i, i + 1), (i + 1, i)])
            prog.append([rng.choice(["cx", "ecr"]), c, t])
    return {"family": "simulator", "n": n, "prog": prog, "class": rng.choice(["Circuit", "StandardCircuit", "EfficientCircuit", "BinaryCircuit"]),
            "gates": rng.choice([["standard"], ["numerical"], ["Gates", 1], ["Gates", 2], ["Scaled", 1, 0.5]]), "shots": rng.choice([1, 2, 4]),
            "seed": rng.choice([0, 7, rng.randrange(2 ** 32)])}


# ------------------------------------------------------------------------------------------------ main
def main(argv):
    ck = Check("C10", argv)
    ck.rule = ("cache family: a case is a history of Integrator constructions and integrate calls (<= 4 objects, <= 22 calls; same angle / other "
               "duration, same duration / other angle, same key on other objects, invalid integrand or duration); gate family: a case is "
               "(pulse, gate method, arguments, seed, adversarial history); non-trivial = the history contains at least one request sharing an "
               "angle or a duration with a later one; distinct = distinct case descriptions")
    ck.trusted = ["Coq 8.16.1 kernel + vm_compute", "checks/c10_translate.py (ast reader of integrator.py; fails closed on anything it does not recognise)",
                  "checks/c10.py harness (counting wrappers around scipy.integrate.quad and the closed-form tables, IEEE bit-pattern key codes, "
                  "61-bit digest of intermediate cache states, final states in full)",
                  "Model/Cache.v is hand-written; its key shape is regenerated from the source, the rest is tied by correspondence only",
                  "numpy's global generator is deterministic given its state (numpy itself is not modelled)",
                  "Python dict key equality = numeric equality of the tuple components (1 == 1.0, 0.0 == -0.0)"]
    ck.assume = ["floating-point rounding is outside the model; signed zeros are identified as dict keys identify them",
                 "the uncached evaluation is a function of (pulse, integrand, theta, a) — scipy.integrate.quad keeps no state between calls"]
    P = pulses()
    quick = ck.tier == "quick"

    if ck.replay:
        doc = json.load(open(ck.replay))["replay"]
        fam = doc.get("family")
        if fam == "cache":
            ops = [tuple(o) for o in doc["ops"]]
            codes, final, fail = run_cache_history(ops, P, {})
            print("replay cache history:", ops, "\n ->", fail or "cached values equal cold values")
        elif fam == "gates":
            print("replay gates:", doc["method"], doc["args"], "seed", doc["seed"], "\n ->", run_gate_case(doc, P) or "identical")
        elif fam == "sequence":
            print("replay sequence ->", run_sequence_case(doc, P) or "identical")
        elif fam == "simulator":
            print("replay simulator ->", run_sim_case(doc, P) or "identical")
        else:
            print("replay names a proof/translation obligation:", doc)
        __import__("shutil").rmtree(ck.scratch, ignore_errors=True); return 0

    # ---- (a) read the cache shape from the source, regenerate Gen/GenCacheKey.v
    translate_fail, flags = None, None
    try:
        flags, facts = tr.read_cache_shape(SRC)
        tr.write_gen(flags, os.path.join(COQ, "Gen", "GenCacheKey.v"))
        ck.notes.append("integrator.py: " + "; ".join(facts) + "; flags %s" % flags)
    except (tr.Unreadable, SyntaxError, OSError) as e:
        translate_fail = "checks/c10_translate.py could not read the cache shape: %s" % e
        tr.write_gen({"key_uses_integrand": False, "key_uses_theta": False, "key_uses_a": False, "cache_per_instance": False},
                     os.path.join(COQ, "Gen", "GenCacheKey.v"))
    ck.oblige("translate: cache key and cache creation site read from integrator.py", translate_fail is None)
    # ---- (b) randomness scan
    try:
        sites, problems = tr.scan_randomness(SRC)
    except (SyntaxError, OSError) as e:
        sites, problems = [], ["scan failed: %s" % e]
    ck.oblige("scan: every source of randomness is np.random.<fn> of the global generator (%d call sites)" % len(sites), not problems)
    ck.extra["randomness_sites"] = sites

    bad = ck.hygiene()
    if bad:
        ck.report("hygiene", "forbidden construct in the Coq development: " + "; ".join(bad[:5]), {"theorem": "hygiene", "where": bad}, False)
    proofs_ok, failing, out = ck.coq_props()

    rng = ck.rng
    found = []          # (key, what, replay)
    # ---- family 1: cache histories vs model
    cases, cold = [], {}
    fixed = [
        [("new", 1), ("int", 0, 0, 0.5, 1.0), ("int", 0, 0, 0.5, 2.0), ("int", 0, 0, 0.5, 1.0), ("int", 0, 0, 0.5, 1)],
        [("new", 1), ("int", 0, 6, 1.0, 2.0), ("int", 0, 6, 2.0, 2.0), ("int", 0, 6, 1.0, 2.0)],
        [("new", 1), ("new", 2), ("int", 0, 3, np.pi, 1), ("int", 1, 3, np.pi, 1), ("int", 0, 3, np.pi, 1), ("int", 1, 3, np.pi, 1)],
        [("new", 1), ("new", 1), ("int", 0, 4, 1.0, 1.0), ("int", 1, 4, 1.0, 1.0), ("int", 1, 4, 1.0, 1.0)],
        [("new", 0), ("new", 1), ("int", 0, 2, 0.5, 3e-7), ("int", 1, 2, 0.5, 3e-7), ("int", 0, 2, 0.5, 2.5e-7), ("int", 0, 2, 0.0, 1.0), ("int", 0, 2, 0.0, 1.0)],
        [("new", 1), ("int", 0, 8, 0.5, 1.0), ("int", 0, 0, 0.5, 0.0), ("int", 0, 0, 0.5, -1.0), ("int", 0, 0, 0.5, 1.0), ("int", 0, 8, 0.5, 1.0)],
        # the same angle first in single / half precision, then as a float (they compare and hash equal): the float request must get the float answer
        [("new", 1), ("int", 0, 1, np.float32(0.5), 1), ("int", 0, 1, 0.5, 1), ("int", 0, 1, np.float16(0.5), 1.0), ("int", 0, 1, 0.5, 1.0)],
        [("new", 2), ("int", 0, 3, np.float16(1.0), np.float32(2.0)), ("int", 0, 3, 1.0, 2.0)],
    ]
    nrand, nwild = (120, 30) if quick else (800, 200)
    hists = [("fixed_adversarial", h) for h in fixed] + [("random_histories", gen_cache_history(rng, False)) for _ in range(nrand)] + \
            [("malformed", gen_cache_history(rng, True)) for _ in range(nwild)]
    harness_fail = None
    for fam, ops in hists:
        try:
            codes, final, fail = run_cache_history(ops, P, cold)
        except tr.Unreadable as e:
            harness_fail = harness_fail or str(e); continue
        cases.append((fam, ops, codes, final))
        keys = [(o[2], fbits(o[3]), fbits(o[4])) for o in ops if o[0] == "int"]
        nontriv = any(k1 != k2 and (k1[1] == k2[1] or k1[2] == k2[2]) and k1[0] == k2[0] for i, k1 in enumerate(keys) for k2 in keys[i + 1:])
        ck.count("cache_" + fam, 1, key=tuple(map(repr, ops)) if nontriv else None, sample={"ops": [list(map(str, o)) for o in ops[:6]], "codes": codes[:6]})
        if fail and not found:
            found.append(("oracle:cached-vs-cold", fail[1], {"family": "cache", "ops": [list(o) for o in ops[:fail[0] + 1]]}))
    shards, per = [], 200
    for s in range(0, len(cases), per):
        items = [coq_cache_case(ops, codes, final) for fam, ops, codes, final in cases[s:s + per]]
        body = PRELUDE + "Definition cases : list Z :=\n " + coq_list(items) + ".\nDefinition result := bad 0 cases.\nEval vm_compute in result.\n"
        shards.append(("c10_%d" % (s // per), body))
    mismatches = []
    for (name, rc, out2), s in zip(ck.coq_eval_many(shards), range(0, len(cases), per)):
        if rc != 0:
            mismatches.append(("coq-failed", name, out2[-600:])); continue
        txt = out2[out2.index("="):out2.rindex(":")] if "=" in out2 else ""
        for m in re.finditer(r"\((\d+)%nat,\s*(-?\d+)\)", txt.replace("\n", " ")):
            mismatches.append(("mismatch", s + int(m.group(1)), int(m.group(2))))
    ck.oblige("correspondence cache model=implementation on %d histories" % len(cases), not mismatches and not harness_fail)

    # ---- family 2: gates cold vs after adversarial histories; family 3: seeded sequences
    ngate, nseq, nsim = (140, 25, 10) if quick else (1200, 200, 80)
    sz_notes = 0
    for _ in range(ngate):
        doc = gen_gate_case(rng, quick)
        r = run_gate_case(doc, P)
        ck.count("gates_cold_vs_history", 1, key=json.dumps(doc, sort_keys=True, default=str), sample={k: doc[k] for k in ("pulse", "method", "seed")})
        if r is None:
            continue
        if isinstance(r, tuple) and r[1]:
            sz_notes += 1
            if sz_notes <= 2:
                ck.notes.append("gates family, informational: %s" % r[0])
        elif not any(f[0] == "oracle:gate-history" for f in found):
            found.append(("oracle:gate-history", r[0], doc))
    for _ in range(nseq):
        seq = []
        for _ in range(rng.randint(2, 6)):
            m = rng.choice(METHODS); seq.append([m, list(method_args(rng, m))])
        doc = {"family": "sequence", "pulse": rng.choice([1, 1, 2, 0]), "sequence": seq, "seed": rng.randrange(2 ** 32)}
        r = run_sequence_case(doc, P)
        ck.count("seeded_sequences", 1, key=json.dumps(doc, sort_keys=True, default=str), sample={"pulse": doc["pulse"], "methods": [m for m, _ in seq]})
        if r and not any(f[0] == "oracle:sequence" for f in found):
            found.append(("oracle:sequence", r, doc))
    for _ in range(nsim):
        doc = gen_sim_case(rng)
        try:
            r = run_sim_case(doc, P)
        except Exception as e:  # noqa
            ck.notes.append("simulator family: run raised %s (%s)" % (type(e).__name__, str(e)[:60])); continue
        ck.count("simulator_seeded_rerun", 1, key=json.dumps(doc, sort_keys=True, default=str), sample={k: doc[k] for k in ("class", "gates", "shots", "n")})
        if r and not any(f[0] == "oracle:simulator" for f in found):
            found.append(("oracle:simulator", r, doc))
    # informational probe: dict keys identify 0.0 and -0.0, the numerical integrand 'sin(theta/a)' does not
    try:
        from quantum_gates._gates.integrator import Integrator
        I1 = Integrator(P[1]); I1.integrate(NAMES[6], 0.0, 1.0)
        warm, coldv = I1.integrate(NAMES[6], -0.0, 1.0), Integrator(P[1]).integrate(NAMES[6], -0.0, 1.0)
        if float(warm).hex() != float(coldv).hex():
            ck.notes.append("informational (rounding level, not a violation): after integrate('sin(theta/a)', 0.0, 1) the request theta=-0.0 returns %s, "
                            "a cold call returns %s; equal as numbers, the dict key identifies the two zeros" % (float(warm).hex(), float(coldv).hex()))
    except Exception as e:  # noqa
        ck.notes.append("signed-zero probe raised %s" % type(e).__name__)
    ck.oblige("oracle: cached == cold bit for bit; gates cold == after adversarial history (bytes + generator state); seeded sequences; "
              "sequential simulator reruns", not found)
    ck.exhaustive = False
    ck.notes = ck.notes[:10]

    # ---- reporting
    for key, what, rp in found[:2]:
        ck.report(key, what, rp)
    if translate_fail and not found:
        ck.report("translate", translate_fail, {"theorem": "key_covers_all (Gen/GenCacheKey.v)", "detail": translate_fail}, False)
    if problems and not found:
        ck.report("scan", "a source of randomness other than numpy's global generator: " + "; ".join(problems[:4]),
                  {"obligation": "source-of-randomness scan", "problems": problems}, False)
    if not proofs_ok and not found and not translate_fail:
        ck.report("proof:" + str(failing), "proof obligation no longer checks: %s (generated flags: %s)" % (failing, flags),
                  {"theorem": failing, "flags": flags, "log": out[-1500:]}, False)
    if harness_fail and not found:
        ck.report("corr-keys", harness_fail, {"correspondence": "C10 cache keys", "detail": harness_fail}, False)
    if mismatches and not found:
        kind_, where, info = mismatches[0]
        if kind_ == "mismatch":
            fam, ops, codes, final = cases[where]
            ck.report("corr", "cache model and implementation disagree (%s) on history %s; cached values equal cold values on every explored history"
                      % ({1: "recomputation flags / key lists / error kinds", 2: "final key lists"}.get(info), [list(map(str, o)) for o in ops][:10]),
                      {"family": "cache", "correspondence": "C10 cache", "ops": [list(o) for o in ops]}, False)
        else:
            ck.report("corr-build", "correspondence file failed to compile: %s" % info, {"correspondence": where, "log": info}, False)
    return ck.finish()


if __name__ == "__main__":
    sys.exit(main(sys.argv[1:]))
