"""Traces factories.py / gates.py / integrator lambdas of the CURRENT /repo source symbolically (vlib.symtrace) and
writes coq/Gen/GenGates.v.  Used by the checks of C04, C05, C06, C07 (and C03 for the noise-free gate set)."""
import os, sys, itertools, json
from fractions import Fraction
from vlib import symtrace as st
from vlib.symtrace import E, V, LIT, SymMat, Session, TraceError
from vlib.common import SRC, COQ

GATES_DIR = os.path.join(SRC, "quantum_gates", "_gates")
SQ_ARGS = ["theta", "phi", "p", "T1", "T2"]
CR_ARGS = ["theta", "phi", "t_cr", "p_cr", "T1c", "T2c", "T1t", "T2t"]
COMP_ARGS = ["phc", "pht", "t", "p2", "pc", "pt", "T1c", "T2c", "T1t", "T2t"]
COMPOSITES = [("CNOT", "CNOTFactory"), ("CNOT_inv", "CNOTInvFactory"), ("ECR", "ECRFactory"), ("ECR_inv", "ECRInvFactory")]


def load_modules():
    """lifted copies of integrator.py, factories.py, gates.py with shims installed (the real package stays untouched)"""
    import quantum_gates._gates.pulse  # noqa: real pulse module (constant_pulse objects only)
    integ = st.load_lifted(os.path.join(GATES_DIR, "integrator.py"), "quantum_gates._gates._lifted_integrator", "quantum_gates._gates")
    st.SymIntegrator.keys = set(integ.Integrator._INTEGRAL_LOOKUP.keys())
    fac = st.load_lifted(os.path.join(GATES_DIR, "factories.py"), "quantum_gates._gates._lifted_factories", "quantum_gates._gates",
                         inject={"np": st.NPshim(), "scipy": st.SCIPYshim(), "Integrator": st.SymIntegrator})
    gat = st.load_lifted(os.path.join(GATES_DIR, "gates.py"), "quantum_gates._gates._lifted_gates", "quantum_gates._gates",
                         inject={"np": st.NPshim()})
    return integ, fac, gat


def trace_paths(fn, max_decisions=6):
    """enumerate all decision paths of fn() (decisions = equality tests on symbols)"""
    paths = []
    # discover the number of decisions on the all-False path, then enumerate; the count may differ per path, so explore as a tree
    stack = [[]]
    while stack:
        script = stack.pop()
        s = Session(script)
        out = fn()
        n = len(s.log)
        if n > max_decisions:
            raise TraceError("unexpected number of decisions: %d" % n)
        if n > len(script):
            # the run consumed defaults (False) beyond the script: branch on the first unscripted decision
            stack.append(script + [False] * (n - len(script) - 0)[:0] + [True] if False else script + [True])
            stack.append(script + [False])
            continue
        paths.append((s, out))
    return paths


def trace_all_paths(fn, ndec):
    paths = []
    for script in itertools.product([False, True], repeat=ndec):
        s = Session(script)
        out = fn()
        if len(s.log) != ndec:
            raise TraceError("decision count changed: expected %d, saw %d" % (ndec, len(s.log)))
        paths.append((s, out))
    return paths


def split_result(M):
    """result = U @ expm(D) @ expm(N): returns U (leaf); the two expm arguments are in the session"""
    if M.op == "mmul" and M.args[0].op == "mmul":
        U, X0, X1 = M.args[0].args[0], M.args[0].args[1], M.args[1]
        if U.op == "leaf" and X0.op == "sym" and X1.op == "sym" and X0.args[0] == "X0" and X1.args[0] == "X1":
            return U
    raise TraceError("elementary gate is not of the form U @ expm(D) @ expm(N): %r" % (M,))


class Rec:
    """recording stand-in for a sub-factory: logs the arguments of construct and returns a fresh matrix symbol"""

    def __init__(self, name, dim, log):
        self.name, self.dim, self.log = name, dim, log

    def construct(self, *a):
        k = len(self.log)
        self.log.append((self.name, [st.lift(x) for x in a]))
        return SymMat("sym", "G%d" % k, (self.dim, self.dim))


def trace_everything():
    integ, fac, gat = load_modules()
    T = {"integrands": {}, "results": {}}
    # integrator lambdas at duration a = 1: g_key(x)
    for key, lam in integ.Integrator._INTEGRAL_LOOKUP.items():
        Session()
        T["integrands"][key] = lam(V("x"), LIT(1))
    SI = st.SymIntegrator()

    # ---- elementary factories, all decision paths
    sq = fac.SingleQubitGateFactory(SI)
    T["sq"] = []
    for s, out in trace_all_paths(lambda: sq.construct(*[V(a) for a in SQ_ARGS]), 2):
        T["sq"].append({"dec": [v for _, v in s.log], "U": split_result(out), "D": s.expm[0], "N": s.expm[1], "samplers": s.samplers, "defs": s.defs, "assumed": s.assumed})
    cr = fac.CRFactory(SI)
    T["cr"] = []
    for s, out in trace_all_paths(lambda: cr.construct(*[V(a) for a in CR_ARGS]), 4):
        T["cr"].append({"dec": [v for _, v in s.log], "U": split_result(out), "D": s.expm[0], "N": s.expm[1], "samplers": s.samplers, "defs": s.defs, "assumed": s.assumed})
    rel = fac.RelaxationFactory()
    T["relax"] = []
    for s, out in trace_all_paths(lambda: rel.construct(V("Dt"), V("T1"), V("T2")), 2):
        T["relax"].append({"dec": [v for _, v in s.log], "G": out, "samplers": s.samplers, "defs": s.defs})
    s = Session(); out = fac.DepolarizingFactory().construct(V("Dt"), V("p"))
    T["depol"] = {"G": out, "N": s.expm[0], "samplers": s.samplers, "defs": s.defs}
    s = Session(); out = fac.BitflipFactory().construct(V("tm"), V("rout"))
    T["bitflip"] = {"G": out, "samplers": s.samplers, "defs": s.defs}

    # ---- zero-noise instances (C07): p = 0, T1 = T2 = 0 as the literal 0
    s = Session(); out = sq.construct(V("theta"), V("phi"), LIT(0), LIT(0), LIT(0))
    T["sq_zero"] = {"U": split_result(out), "D": s.expm[0], "N": s.expm[1], "defs": s.defs}
    s = Session(); out = cr.construct(V("theta"), V("phi"), V("t_cr"), LIT(0), LIT(0), LIT(0), LIT(0), LIT(0))
    T["cr_zero"] = {"U": split_result(out), "D": s.expm[0], "N": s.expm[1], "defs": s.defs}
    s = Session(); out = rel.construct(V("Dt"), LIT(0), LIT(0))
    T["relax_zero"] = {"G": out, "defs": s.defs, "samplers": s.samplers}
    s = Session(); out = fac.DepolarizingFactory().construct(V("Dt"), LIT(0))
    T["depol_zero"] = {"N": s.expm[0], "defs": s.defs}
    s = Session(); out = fac.BitflipFactory().construct(V("tm"), LIT(0))
    T["bitflip_zero"] = {"G": out, "defs": s.defs}

    # ---- X / SX: forwarding to the general single-qubit factory
    T["fwd"] = {}
    for nm, cls in (("X", fac.XFactory), ("SX", fac.SXFactory)):
        f = cls(SI); log = []
        f.constructor = Rec("single_qubit_gate_c", 2, log)
        Session(); f.construct(V("phi"), V("p"), V("T1"), V("T2"))
        T["fwd"][nm] = log

    # ---- composite gates with recording constituents: call table + product tree
    T["comp"] = {}
    for nm, cls in COMPOSITES:
        f = getattr(fac, cls)(SI); log = []
        for attr, dim in (("cr_c", 4), ("x_c", 2), ("sx_c", 2), ("single_qubit_gate_c", 2), ("relaxation_c", 2)):
            if hasattr(f, attr):
                setattr(f, attr, Rec(attr, dim, log))
        s = Session()
        out = f.construct(*[V(a) for a in COMP_ARGS])
        T["comp"][nm] = {"calls": log, "tree": out, "defs": s.defs, "assumed": s.assumed}

    # ---- NoiseFreeGates: closed matrices and composite sequences (recording via subclass)
    nf = gat.NoiseFreeGates()
    T["nf"] = {}
    s = Session()
    T["nf"]["single_qubit_gate"] = nf.single_qubit_gate(V("theta"), V("phi"), V("p"), V("T1"), V("T2"))
    T["nf"]["X"] = nf.X(V("phi"), V("p"), V("T1"), V("T2"))
    T["nf"]["SX"] = nf.SX(V("phi"), V("p"), V("T1"), V("T2"))
    T["nf"]["CR"] = nf.CR(*[V(a) for a in CR_ARGS])
    T["nf"]["relaxation"] = nf.relaxation(V("Dt"), V("T1"), V("T2"))
    T["nf"]["bitflip"] = nf.bitflip(V("Dt"), V("p"))
    T["nf"]["depolarizing"] = nf.depolarizing(V("Dt"), V("p"))
    for nm, _ in COMPOSITES:
        T["nf"][nm] = getattr(nf, nm)(*[V(a) for a in COMP_ARGS])
    T["nf_defs"] = s.defs
    # the noise-free composite sequences as call tables (same recording technique, methods replaced on the instance)
    T["nf_comp"] = {}
    for nm, _ in COMPOSITES:
        g = gat.NoiseFreeGates(); log = []
        for meth, attr, dim in (("CR", "cr_c", 4), ("X", "x_c", 2), ("SX", "sx_c", 2), ("single_qubit_gate", "single_qubit_gate_c", 2), ("relaxation", "relaxation_c", 2)):
            setattr(g, meth, Rec(attr, dim, log).construct)
        s = Session()
        out = getattr(g, nm)(*[V(a) for a in COMP_ARGS])
        T["nf_comp"][nm] = {"calls": log, "tree": out, "defs": s.defs}

    # ---- Gates forwarding and ScaledNoiseGates scaling
    T["gates_fwd"] = {}
    T["scaled"] = {}
    METHODS = {"relaxation": (["Dt", "T1", "T2"], "relaxation_c"), "bitflip": (["Dt", "p"], "bitflip_c"), "depolarizing": (["Dt", "p"], "depolarizing_c"),
               "single_qubit_gate": (SQ_ARGS, "single_qubit_gate_c"), "X": (["phi", "p", "T1", "T2"], "x_c"), "SX": (["phi", "p", "T1", "T2"], "sx_c"),
               "CR": (CR_ARGS, "cr_c"), "CNOT": (COMP_ARGS, "cnot_c"), "CNOT_inv": (COMP_ARGS, "cnot_inv_c"), "ECR": (COMP_ARGS, "ecr_c"), "ECR_inv": (COMP_ARGS, "ecr_inv_c")}
    gat.Integrator = st.SymIntegrator
    for k in ("BitflipFactory", "DepolarizingFactory", "RelaxationFactory", "SingleQubitGateFactory", "XFactory", "SXFactory", "CNOTFactory",
              "CNOTInvFactory", "CRFactory", "ECRFactory", "ECRInvFactory"):
        setattr(gat, k, getattr(fac, k))
    G = gat.Gates(None)
    for m, (args, attr) in METHODS.items():
        log = []
        setattr(G, attr, Rec(attr, 2, log))
        Session(); getattr(G, m)(*[V(a) for a in args])
        T["gates_fwd"][m] = {"args": args, "attr": attr, "call": log}
    Session()
    SG = gat.ScaledNoiseGates(V("s"), None)

    class RecGates:
        def __init__(self, log): self.log = log
        def __getattr__(self, name):
            def f(*a):
                self.log.append((name, [st.lift(x) for x in a])); return SymMat("sym", "G", (2, 2))
            return f
    for m, (args, attr) in METHODS.items():
        log = []; SG.gates = RecGates(log)
        s = Session(); getattr(SG, m)(*[V(a) for a in args])
        T["scaled"][m] = {"args": args, "call": log, "defs": s.defs}
    T["METHODS"] = METHODS
    return T



# ------------------------------------------------------------------ Coq emission
class GenEmitter(st.Emitter):
    """variables are global across sessions; session-local names (samples w<k>, opaque o<k>_...) get a namespace prefix"""

    def __init__(self):
        super().__init__()
        self.ns = ""
        self.dens = {}   # variable index -> denominator needed for phase arguments

    def expr(self, e):
        e = st.lift(e)
        if e.op in ("sin", "cos", "exp"):
            arg = e.args[0]
            if e.op == "exp":
                arg = st.split_I(arg)
                if arg is None: raise TraceError("exp of a non-phase argument reached the emitter")
            for c, t in st.linear_terms(arg):
                if isinstance(t, E): raise TraceError("non-linear phase argument reached the emitter")
                if isinstance(t, str) and t != "pi":
                    i = self.vid(t)
                    from math import lcm
                    self.dens[i] = lcm(self.dens.get(i, 1), c.denominator)
        return super().expr(e)

    def vid(self, name):
        import re
        if re.match(r"^(w\d+|o\d+_)", name):
            name = self.ns + ":" + name
        return super().vid(name)

    def odef(self, d):
        kind, a = d
        if kind == "sqrt": return "(OSqrt %s)" % self.expr(a[0])
        if kind == "expreal": return "(OExpReal %s)" % self.expr(a[0])
        if kind == "inv": return "(OInv %s)" % self.expr(a[0])
        if kind == "prod": return "(OProd %s)" % self.expr(a[0])
        if kind == "int": return '(OInt "%s" %s %s)' % (a[0], self.expr(a[1]), self.expr(a[2]))
        raise TraceError(kind)

    def defs(self, defs):
        return "[" + "; ".join("(%d, %s)" % (self.vid(n), self.odef(d)) for n, d in defs.items()) + "]"

    def sampler(self, s):
        if s["kind"] == "normal":
            return "(SNormal %d %s %s)" % (self.vid(s["vars"][0].args[0]), self.expr(s["mean"][0]), self.expr(s["std"]))
        return "(SMvn [%s] %s [%s])" % ("; ".join(str(self.vid(v.args[0])) for v in s["vars"]), self.exprlist(s["mean"]),
                                        "; ".join(self.exprlist(r) for r in s["cov"]))

    def epath(self, p):
        return ("{| ep_dec := [%s]; ep_U := %s;\n   ep_D := %s;\n   ep_N := %s;\n   ep_samplers := [%s];\n   ep_defs := %s |}"
                % ("; ".join("true" if b else "false" for b in p["dec"]), self.mat(p["U"]), self.mat(p["D"]), self.mat(p["N"]),
                   "; ".join(self.sampler(x) for x in p["samplers"]), self.defs(p["defs"])))

    def ptree(self, M):
        if M.op == "sym": return "(PSym %d)" % int(M.args[0][1:])
        if M.op == "mmul": return "(PMul %s %s)" % (self.ptree(M.args[0]), self.ptree(M.args[1]))
        if M.op == "kron": return "(PKron %s %s)" % (self.ptree(M.args[0]), self.ptree(M.args[1]))
        if M.op == "scale": return "(PScale %s %s)" % (self.expr(M.args[0]), self.ptree(M.args[1]))
        raise TraceError("product tree: " + M.op)

    FAC = {"cr_c": "FCR", "x_c": "FX", "sx_c": "FSX", "single_qubit_gate_c": "FSQ", "relaxation_c": "FRelax"}

    def composite(self, c):
        calls = "; ".join("{| c_fac := %s; c_args := %s |}" % (self.FAC[n], self.exprlist(a)) for n, a in c["calls"])
        return "{| cp_calls := [%s];\n   cp_tree := %s;\n   cp_defs := %s |}" % (calls, self.ptree(c["tree"]), self.defs(c["defs"]))


def emit_coq(T):
    em = GenEmitter()
    out = ["(* GENERATED on every run by checks/gates_trace.py from the current source of factories.py, gates.py, integrator.py. *)",
           "From Coq Require Import QArith List String.", "Require Import QG.Sym.Expr QG.Model.GateModel.", "Import ListNotations.",
           "Close Scope Q_scope.", "Open Scope string_scope.", ""]
    # fixed variables first so their indices are stable
    for n in ["x", "theta", "phi", "p", "T1", "T2", "t_cr", "p_cr", "T1c", "T2c", "T1t", "T2t", "phc", "pht", "t", "p2", "pc", "pt", "Dt", "tm", "rout", "s"]:
        em.vid(n)
    out.append("Definition gen_integrands : list (string * expr) :=\n  [%s]." % ";\n   ".join('("%s", %s)' % (k, em.expr(v)) for k, v in T["integrands"].items()))
    for tag in ("sq", "cr"):
        items = []
        for i, p in enumerate(T[tag]):
            em.ns = "%s%d" % (tag, i)
            items.append(em.epath(p))
        out.append("Definition gen_%s_paths : list epath :=\n [%s]." % (tag, ";\n  ".join(items)))
    for tag in ("sq_zero", "cr_zero"):
        em.ns = tag
        p = dict(T[tag]); p["dec"] = []; p["samplers"] = []
        out.append("Definition gen_%s : epath :=\n  %s." % (tag, em.epath(p)))
    items = []
    for i, p in enumerate(T["relax"]):
        em.ns = "relax%d" % i
        items.append("([%s], %s, [%s], %s)" % ("; ".join("true" if b else "false" for b in p["dec"]), em.mat(p["G"]),
                                                "; ".join(em.sampler(x) for x in p["samplers"]), em.defs(p["defs"])))
    out.append("Definition gen_relax_paths : list (list bool * mexpr * list sampler * list (nat * odef)) :=\n [%s]." % ";\n  ".join(items))
    em.ns = "relax_zero"
    out.append("Definition gen_relax_zero : mexpr * list sampler * list (nat * odef) := (%s, [%s], %s)." % (em.mat(T["relax_zero"]["G"]), "; ".join(em.sampler(x) for x in T["relax_zero"]["samplers"]), em.defs(T["relax_zero"]["defs"])))
    em.ns = "depol"
    out.append("Definition gen_depol_N : mexpr := %s.\nDefinition gen_depol_samplers : list sampler := [%s].\nDefinition gen_depol_defs : list (nat * odef) := %s."
               % (em.mat(T["depol"]["N"]), "; ".join(em.sampler(x) for x in T["depol"]["samplers"]), em.defs(T["depol"]["defs"])))
    em.ns = "depol_zero"
    out.append("Definition gen_depol_zero_N : mexpr := %s." % em.mat(T["depol_zero"]["N"]))
    em.ns = "bitflip"
    out.append("Definition gen_bitflip_G : mexpr := %s.\nDefinition gen_bitflip_samplers : list sampler := [%s].\nDefinition gen_bitflip_defs : list (nat * odef) := %s."
               % (em.mat(T["bitflip"]["G"]), "; ".join(em.sampler(x) for x in T["bitflip"]["samplers"]), em.defs(T["bitflip"]["defs"])))
    em.ns = "bitflip_zero"
    out.append("Definition gen_bitflip_zero_G : mexpr := %s.\nDefinition gen_bitflip_zero_defs : list (nat * odef) := %s." % (em.mat(T["bitflip_zero"]["G"]), em.defs(T["bitflip_zero"]["defs"])))
    for nm in ("X", "SX"):
        em.ns = "fwd" + nm
        out.append("Definition gen_fwd_%s : list expr := %s." % (nm, em.exprlist(T["fwd"][nm][0][1])))
    for nm, _ in COMPOSITES:
        em.ns = "comp" + nm
        out.append("Definition gen_comp_%s : composite :=\n  %s." % (nm, em.composite(T["comp"][nm])))
        em.ns = "nfcomp" + nm
        out.append("Definition gen_nfcomp_%s : composite :=\n  %s." % (nm, em.composite(T["nf_comp"][nm])))
    em.ns = "nf"
    for nm, M in T["nf"].items():
        out.append("Definition gen_nf_%s : mexpr :=\n  %s." % (nm, em.mat(M)))
    out.append("Definition gen_nf_defs : list (nat * odef) := %s." % em.defs(T["nf_defs"]))
    for m, d in T["gates_fwd"].items():
        em.ns = "gfwd" + m
        out.append("Definition gen_gates_fwd_%s : list expr * list expr := (%s, %s)." % (m, em.exprlist([V(a) for a in d["args"]]), em.exprlist(d["call"][0][1])))
    for m, d in T["scaled"].items():
        em.ns = "scaled" + m
        out.append('Definition gen_scaled_%s : string * list expr * list (nat * odef) := ("%s", %s, %s).' % (m, d["call"][0][0], em.exprlist(d["call"][0][1]), em.defs(d["defs"])))
    out.append("Definition gen_phase_vars : list (nat * positive) :=\n  [%s]." % "; ".join("(%d, %d%%positive)" % (i, d) for i, d in sorted(em.dens.items())))
    names = sorted(em.vars.items(), key=lambda kv: kv[1])
    out.append("Definition gen_varnames : list (nat * string) :=\n  [%s]." % "; ".join('(%d, "%s")' % (i, n) for n, i in names))
    return "\n".join(out) + "\n", em


def write_gen(T, path=None):
    text, em = emit_coq(T)
    path = path or os.path.join(COQ, "Gen", "GenGates.v")
    os.makedirs(os.path.dirname(path), exist_ok=True)
    old = open(path).read() if os.path.exists(path) else None
    if old != text:
        open(path, "w").write(text)
    return em


if __name__ == "__main__":
    T = trace_everything()
    print("integrands:", {k: repr(v) for k, v in T["integrands"].items()})
    print("sq paths:", [p["dec"] for p in T["sq"]], "cr paths:", len(T["cr"]))
    p = T["sq"][0]
    print("sq defs:", {k: (v[0], [repr(x) for x in v[1]]) for k, v in p["defs"].items()})
    print("sq N[0][0]:", repr(p["N"].args[0][0][0])[:300])
    print("CNOT calls:")
    for c in T["comp"]["CNOT"]["calls"]: print("  ", c[0], [repr(x) for x in c[1]])
    print("CNOT tree:", T["comp"]["CNOT"]["tree"])
    print("scaled X:", [(n, [repr(x) for x in a]) for n, a in T["scaled"]["X"]["call"]], T["scaled"]["X"]["defs"])
    print("nf X:", T["nf"]["X"])
    em = write_gen(T)
    print("wrote GenGates.v with", len(em.vars), "variables")
