"""C02 — gate fusion never changes what a gate list computes (Optimizer levels 0..4, BinaryBackend).
Theorems: coq/Props/C02.v over Model/Optimizer.v (+ Model/Sparse.v).
Tie: exact, value-independent correspondence.  The real optimizer is run on symbolic matrix tokens (numpy replaced
inside circ_optimizer by a three-function shim), so its output is a list of expression trees + qubit lists; the model
instantiated at the free matrix-term algebra is evaluated by vm_compute on the same qubit patterns and compared
syntactically.  BinaryBackend.create_sparse / create_dense are run on matrices whose entries encode their own
(row, column) position and the captured COO triples are compared with Model/Sparse.v.
Direct oracle (independent of the model): sequential np.tensordot application on Gaussian-integer matrices."""
import sys, os, json, random, itertools
from vlib.common import Check, coq_list, VERIF
from checks import c02_lib as L

ERRCODE = {"IndexError": 1, "ValueError": 2, "TypeError": 3, "AttributeError": 4, "KeyError": 5, "UnboundLocalError": 6}
UNKNOWN = 62   # a symbol the model's encoder never produces: forces a mismatch (unknown exception / unexpected output shape)

# Case data travel as a stream of 6-bit symbols packed ten to a primitive 63-bit integer (large ordinary literals take
# seconds to type-check, a list of primitive ints does not).  Stream = ncases(3 symbols) then per case: length(3 symbols),
# kind, n, L, L qubit lists (len, entries+2), then the expected results in the encoding produced by enc_res below.
PRELUDE = r"""
From Coq Require Import List Bool ZArith NArith Arith Uint63.
Require Import QG.Base.Res QG.Model.Optimizer.
Import ListNotations.
Notation it := (mterm * list Z)%type.
Definition sym (x : int) (k : int) : N := Z.to_N (Uint63.to_Z (Uint63.land (Uint63.lsr x k) 63%uint63)).
Definition unpack1 (x : int) : list N :=
  [sym x 0%uint63; sym x 6%uint63; sym x 12%uint63; sym x 18%uint63; sym x 24%uint63; sym x 30%uint63; sym x 36%uint63;
   sym x 42%uint63; sym x 48%uint63; sym x 54%uint63].
Definition stream (l : list int) : list N := flat_map unpack1 l.
Definition num3 (a b c : N) : nat := N.to_nat (a * 4096 + b * 64 + c).
Fixpoint split_cases (k : nat) (s : list N) : list (list N) :=
  match k with
  | O => []
  | S k' => match s with a :: b :: c :: r => let len := num3 a b c in firstn len r :: split_cases k' (skipn len r) | _ => [] end
  end.
Definition cases_of (l : list int) : list (list N) :=
  match stream l with a :: b :: c :: r => split_cases (num3 a b c) r | _ => [] end.
(* input decoder *)
Fixpoint take_qs (len : nat) (l : list N) : list Z * list N :=
  match len with
  | O => ([], l)
  | S len' => match l with x :: r => let '(q, r') := take_qs len' r in ((Z.of_N x - 2)%Z :: q, r') | [] => ([], []) end
  end.
Fixpoint take_pat (L : nat) (l : list N) : list (list Z) * list N :=
  match L with
  | O => ([], l)
  | S L' => match l with
            | len :: r => let '(q, r1) := take_qs (N.to_nat len) r in let '(p, r2) := take_pat L' r1 in (q :: p, r2)
            | [] => ([], [])
            end
  end.
Fixpoint mk_from (j : N) (ps : list (list Z)) : list it :=
  match ps with [] => [] | q :: t => (Tok j, q) :: mk_from (N.succ j) t end.
(* output encoder (prefix-free) *)
Fixpoint enc_term (t : mterm) : list N :=
  match t with
  | Tok j => [0; j] | Mul a b => 1 :: enc_term a ++ enc_term b | Kron a b => 2 :: enc_term a ++ enc_term b | Id2 => [3] | Id4 => [4]
  end%N.
Definition enc_qs (q : list Z) : list N := N.of_nat (length q) :: map (fun z => Z.to_N (z + 2)) q.
Definition enc_err (e : err) : N :=
  match e with IndexError => 1 | ValueError => 2 | TypeError => 3 | AttributeError => 4 | KeyError => 5 | OutOfFuel => 6
  | AssertionError => 7 | FileNotFoundError => 8 end%N.
Definition enc_res (r : res (list it)) : list N :=
  match r with
  | Ok o => 0%N :: N.of_nat (length o) :: flat_map (fun i : it => enc_term (fst i) ++ enc_qs (snd i)) o
  | Err e => [enc_err e]
  end.
(* kind 0: optimize at levels 0,1,2,3,4; kind 1..4: opt_level_k; kind 5: process_snippet *)
Definition run_all (kind n : nat) (ps : list (list Z)) : list N :=
  let items := mk_from 0%N ps in
  match kind with
  | 0%nat => flat_map (fun lvl => enc_res (optimize_sym lvl n items)) [0; 1; 2; 3; 4]%nat
  | 1%nat => enc_res (opt1_sym items) | 2%nat => enc_res (opt2_sym items) | 3%nat => enc_res (opt3_sym items)
  | 4%nat => enc_res (opt4_sym n items)
  | _ => enc_res (process_snippet_sym items)
  end.
Fixpoint syms_eqb (a b : list N) : bool :=
  match a, b with [], [] => true | x :: a', y :: b' => N.eqb x y && syms_eqb a' b' | _, _ => false end.
Definition check1 (c : list N) : bool :=
  match c with
  | kind :: n :: L :: r => let '(ps, expected) := take_pat (N.to_nat L) r in syms_eqb (run_all (N.to_nat kind) (N.to_nat n) ps) expected
  | _ => false
  end.
Fixpoint bad (i : nat) (cs : list (list N)) : list nat :=
  match cs with [] => [] | c :: r => if check1 c then bad (S i) r else i :: bad (S i) r end.
"""


def enc_term(t, out):
    k = t[0]
    if k == "T":
        out += [0, t[1]]
    elif k == "M":
        out.append(1); enc_term(t[1], out); enc_term(t[2], out)
    elif k == "K":
        out.append(2); enc_term(t[1], out); enc_term(t[2], out)
    elif k == "I":
        out.append(3 if t[1] == 2 else 4)
    else:
        raise ValueError(t)


def enc_qs(q, out):
    out.append(len(q))
    out += [x + 2 for x in q]


def enc_expect(r, out):
    if r[0] == "ok":
        out += [0, len(r[1])]
        for t, q in r[1]:
            enc_term(t, out)
            enc_qs(q, out)
    elif r[0] == "err":
        out.append(ERRCODE.get(r[1], UNKNOWN))
    else:
        out.append(UNKNOWN)


def enc_case(kind, n, pat, results):
    out = [kind, n, len(pat)]
    for q in pat:
        enc_qs(q, out)
    for r in results:
        enc_expect(r, out)
    if any((not isinstance(x, int)) or x < 0 or x > 63 for x in out) or len(out) >= 64 ** 3:
        raise ValueError("case does not fit the 6-bit symbol encoding: %r" % ((kind, n, pat),))
    return [len(out) >> 12, (len(out) >> 6) & 63, len(out) & 63] + out


def pack(symbols):
    ints = []
    for i in range(0, len(symbols), 10):
        x = 0
        for j, sy in enumerate(symbols[i:i + 10]):
            x |= sy << (6 * j)
        ints.append(x)
    return ints


def coq_shard(encoded_cases):
    k = len(encoded_cases)
    syms = [k >> 12, (k >> 6) & 63, k & 63]
    for c in encoded_cases:
        syms += c
    return (PRELUDE + "Definition data : list int := [" + ";".join("%d" % x for x in pack(syms)) + "]%uint63.\n"
            "Definition result := bad 0 (cases_of data).\nDefinition ncases := length (cases_of data).\n"
            "Eval vm_compute in (ncases, result).\n")


def parse_bad(out, expected_n):
    """-> list of failing indices, or None if the output is not the expected (ncases, [..]) pair"""
    import re
    m = re.search(r"=\s*\(\s*(\d+)\s*,\s*(\[[^\]]*\]|nil)\s*\)", out.replace("%nat", ""))
    if not m or int(m.group(1)) != expected_n:
        return None
    return [int(x) for x in re.findall(r"\d+", m.group(2))]


def gen_cases(ck):
    """-> list of (family, kind, n, pattern, in_domain)"""
    quick = ck.tier == "quick"
    rng = ck.rng
    cases = []
    # corpus (minimised disagreements / historical failing inputs) first
    cdir = os.path.join(VERIF, "corpus", "C02")
    if os.path.isdir(cdir):
        for f in sorted(os.listdir(cdir)):
            if f.endswith(".json"):
                for c in json.load(open(os.path.join(cdir, f))):
                    cases.append(("corpus", 0, c["n"], c["pattern"], L.is_wf(c["n"], c["pattern"])))
    # exhaustive small scope through optimize(), all levels
    bounds = {1: 7, 2: 5, 3: 4, 4: 3} if quick else {1: 9, 2: 6, 3: 5, 4: 4}
    for n, lmax in bounds.items():
        for seq in L.all_sequences(n, lmax):
            cases.append(("exhaustive_optimize", 0, n, seq, True))
    # exhaustive small scope on each level function and on process_snippet directly (inputs that need not be
    # outputs of the previous level: adjacent same-qubit gates, un-normalised [q,-1], several two-qubit gates in a snippet)
    lb = {2: 4, 3: 3} if quick else {2: 5, 3: 4, 4: 3}
    for n, lmax in lb.items():
        for seq in L.all_sequences(n, lmax):
            for kind in (1, 2, 3, 4, 5):
                cases.append(("exhaustive_per_level", kind, n, seq, False))
    # structured random, n <= 12, L <= 40
    for _ in range(1500 if quick else 12000):
        n, pat, tag = L.random_pattern(rng)
        cases.append(("random_" + tag, 0, n, pat, True))
    for _ in range(300 if quick else 2000):
        n, pat, tag = L.random_pattern(rng, nmax=6, lmax=12)
        pat = [[q[0]] if (len(q) == 2 and q[1] == -1 and rng.random() < 0.8) else q for q in pat]
        cases.append(("random_per_level", rng.choice([1, 2, 3, 4, 5]), n, pat, False))
    # malformed stream (outside the property's domain; informational)
    for _ in range(600 if quick else 4000):
        n, pat = L.malformed_pattern(rng)
        cases.append(("malformed", rng.choice([0, 0, 0, 1, 2, 3, 4, 5]), n, pat, False))
    return cases


def run_case(co, kind, n, pat):
    if kind == 0:
        return [L.run_sym(co, 0, n, pat, lv) for lv in range(5)]
    return [L.run_sym(co, kind, n, pat)]


def nontrivial(results, pat):
    """something was fused: some output differs from the normalised input in length"""
    return any(r[0] == "ok" and len(r[1]) < len(pat) for r in results)


def _oracle_chunk(arg):
    """worker: (which, seed, [(n, pattern, level)]) -> (runs, first failure or None)"""
    which, seed, chunk = arg
    import quantum_gates._utility.circ_optimizer as co
    import quantum_gates._simulation.backend as be
    rng = random.Random(seed)
    for k, (n, pat, lv) in enumerate(chunk):
        why = L.oracle_optimizer(co, rng, n, pat, lv) if which == "optimizer" else L.oracle_backend(be, rng, n, pat)
        if why:
            return (k + 1, (n, pat, lv, why))
    return (len(chunk), None)


def run_oracle(ck, which, todo, seed):
    """run the direct oracle over todo in parallel (deterministic: chunking and per-chunk seeds depend only on todo and seed);
    returns (runs, first failure in todo order or None)"""
    import multiprocessing as mp
    size = 400
    args = [(which, seed * 1000003 + i, todo[i:i + size]) for i in range(0, len(todo), size)]
    try:
        with mp.get_context("fork").Pool(min(len(args), os.cpu_count() or 4) or 1) as pool:
            res = pool.map(_oracle_chunk, args, chunksize=1)
    except Exception as e:  # noqa  (no fork / resource limits): serial fallback
        ck.notes.append("oracle pool unavailable (%s): ran serially" % type(e).__name__)
        res = [_oracle_chunk(a) for a in args]
    runs = sum(r[0] for r in res)
    for r in res:
        if r[1]:
            return runs, r[1]
    return runs, None


def minimise(fails, n, pat, *extra):
    """greedy shrinking of a failing pattern (drop items while the failure persists)"""
    cur = [list(q) for q in pat]
    changed = True
    while changed:
        changed = False
        for i in range(len(cur)):
            cand = cur[:i] + cur[i + 1:]
            if cand and fails(n, cand, *extra):
                cur = cand
                changed = True
                break
    return cur


def main(argv):
    ck = Check("C02", argv)
    ck.rule = ("correspondence cases = (kind, n, qubit-pattern list); matrices are symbolic tokens, so one case covers all "
               "matrix values; kind 0 runs Optimizer.optimize at all five levels, kinds 1-4 one level function, kind 5 "
               "process_snippet; a case is non-trivial when at least one level returns fewer items than it was given "
               "(something was fused); distinct = distinct (kind, n, pattern). Oracle evaluations = (n, pattern, level) "
               "with Gaussian-integer matrices compared exactly against the sequential tensordot reference.")
    ck.trusted = ["Coq 8.16.1 kernel + vm_compute",
                  "checks/c02.py + checks/c02_lib.py (symbolic shim, case encoder, COO capture)",
                  "Model/Optimizer.v and Model/Sparse.v are hand-written: tied to circ_optimizer.py / backend.py only by the exact correspondence run",
                  "numpy '@', np.kron, np.identity mean matrix product, Kronecker product, identity (the model's mmul/mkron/mid2/mid4 are instantiated with mul2|mul4 / kron2 / id2 / id4 in the theorems)",
                  "scipy coo_matrix((data,(rows,cols))).tocsr().dot(psi) sums data[k]*psi[cols[k]] into rows[k]"]
    ck.assume = ["qubit lists are Python lists of ints; matrices of one-qubit items are 2x2 and of two-qubit items 4x4"]
    import quantum_gates._utility.circ_optimizer as co
    import quantum_gates._simulation.backend as be
    from checks import c02_sparse as SP

    if ck.replay:
        doc = json.load(open(ck.replay))["replay"]
        n, pat = doc.get("n"), doc.get("pattern")
        import shutil
        shutil.rmtree(ck.scratch, ignore_errors=True)
        if pat is None and doc.get("which") != "sparse":
            print("replay names no input:", doc)
            return 0
        orng = random.Random(doc.get("seed", ck.seed + 1))
        st = 0
        if doc.get("which") == "backend":
            why = L.oracle_backend(be, orng, n, pat)
            print("replay BinaryBackend n=%d pattern=%s -> %s" % (n, pat, why or "ok"))
            st = 1 if why else 0
        elif doc.get("which") == "sparse":
            why = SP.replay(be, doc)
            print("replay create_sparse %s -> %s" % (doc, why or "ok"))
            st = 1 if why else 0
        else:
            for lv in ([doc["level"]] if "level" in doc else range(5)):
                print("replay optimize level=%d n=%d pattern=%s -> symbolic %s" % (lv, n, pat, L.run_sym(co, 0, n, pat, lv)))
                if L.is_wf(n, pat):
                    why = L.oracle_optimizer(co, orng, n, pat, lv)
                    print("   oracle:", why or "ok")
                    st = st or (1 if why else 0)
        return st

    import time
    tm = {}
    t_ = time.time()
    bad = ck.hygiene()
    if bad:
        ck.report("hygiene", "forbidden construct in the Coq development: " + "; ".join(bad[:5]), {"theorem": "hygiene", "where": bad}, False)
    proofs_ok, failing, out = ck.coq_props()
    # the models must be built even if a proof broke (Model/ holds no proofs)
    models_ok, mout = ck.coq_make(["Model/Optimizer.vo", "Model/Sparse.vo"])

    tm['build'] = round(time.time() - t_, 1); t_ = time.time()
    # ------------------------------------------------------------------ correspondence: optimizer
    cases = gen_cases(ck)
    results = []
    for fam, kind, n, pat, dom in cases:
        r = run_case(co, kind, n, pat)
        results.append(r)
        ck.count(fam, len(r), key=(kind, n, tuple(map(tuple, pat))) if nontrivial(r, pat) else None,
                 sample={"kind": kind, "n": n, "pattern": pat[:12], "level4" if kind == 0 else "out": str(r[-1])[:300]})
    tm['impl_symbolic'] = round(time.time() - t_, 1); t_ = time.time()
    per = 500
    shards = []
    for s in range(0, len(cases), per):
        enc = [enc_case(kind, n, pat, r) for (fam, kind, n, pat, dom), r in zip(cases[s:s + per], results[s:s + per])]
        shards.append(("c02_%d" % (s // per), coq_shard(enc)))
    mismatches, informational = [], []
    if models_ok:
        for (name, rc, out2), s in zip(ck.coq_eval_many(shards), range(0, len(cases), per)):
            idx = parse_bad(out2, len(cases[s:s + per])) if rc == 0 else None
            if idx is None:
                mismatches.append(("coq-failed", name, out2[-600:]))
                continue
            for i in idx:
                fam = cases[s + i][0]
                if fam == "malformed":
                    informational.append(s + i)
                else:
                    mismatches.append(("mismatch", s + i, None))
    else:
        mismatches.append(("coq-failed", "Model", mout[-600:]))
    for i in informational[:5]:
        ck.notes.append("model and implementation differ on the out-of-domain input %r (not a violation)" % (cases[i][1:4],))
    ck.oblige("correspondence optimizer model = implementation on %d cases (%d symbolic runs)" % (len(cases), sum(len(r) for r in results)), not mismatches)

    tm['coq_eval'] = round(time.time() - t_, 1); t_ = time.time()
    # ------------------------------------------------------------------ correspondence: BinaryBackend operator construction
    sp_mis = SP.correspondence(ck, be, models_ok)

    tm['sparse'] = round(time.time() - t_, 1); t_ = time.time()
    # ------------------------------------------------------------------ direct oracle on the implementation
    quick = ck.tier == "quick"
    orng = random.Random(ck.seed + 1)
    oracle_fail = None
    # disagreeing inputs first
    todo = []
    for kind_, where, _ in mismatches:
        if kind_ == "mismatch":
            fam, kind, n, pat, dom = cases[where]
            if L.is_wf(n, pat):
                todo += [(n, pat, lv) for lv in range(5)]
    for ci, (fam, kind, n, pat, dom) in enumerate(cases):
        if kind != 0 or not dom:
            continue
        if fam == "exhaustive_optimize" and quick and len(pat) >= 4:
            lvls = (4, 1 + ci % 3)            # level 4 runs all four passes; one more level in rotation
        elif fam == "exhaustive_optimize":
            lvls = range(1, 5)
        else:
            lvls = range(5)
        todo += [(n, pat, lv) for lv in lvls]
    n_or, f = run_oracle(ck, "optimizer", todo, ck.seed + 1)
    if f:
        n, pat, lv, why = f

        def fails(n_, p_, lv_):
            return any(L.oracle_optimizer(co, random.Random(sd), n_, p_, lv_) for sd in range(3))
        small = minimise(fails, n, pat, lv) if fails(n, pat, lv) else pat
        oracle_fail = ("optimizer", n, small, lv, why)
    ck.count("oracle_optimizer", n_or)
    tm['oracle_optimizer'] = round(time.time() - t_, 1); t_ = time.time()
    n_be = 0
    if oracle_fail is None:
        btodo = []
        for kind_, where, info in sp_mis:
            if kind_ == "mismatch":
                btodo.append((info["N"], [info["qubits"]], None))
        bb = {1: 4, 2: 4, 3: 3, 4: 2} if quick else {1: 6, 2: 5, 3: 4, 4: 3, 5: 2}
        for n, lmax in bb.items():
            btodo += [(n, seq, None) for seq in L.all_sequences(n, lmax, lmin=1)]
        for _ in range(250 if quick else 1500):
            n, pat, tag = L.random_pattern(orng, nmax=8, lmax=24)
            btodo.append((n, pat, None))
        n_be, f = run_oracle(ck, "backend", btodo, ck.seed + 2)
        if f:
            n, pat, _, why = f

            def failsb(n_, p_):
                return any(L.oracle_backend(be, random.Random(sd), n_, p_) for sd in range(3))
            small = minimise(failsb, n, pat) if failsb(n, pat) else pat
            oracle_fail = ("backend", n, small, None, why)
        ck.count("oracle_backend", n_be)
    ck.oblige("direct oracle: optimizer output equivalent, never longer, never raises (%d runs); BinaryBackend = sequential application (%d runs)" % (n_or, n_be), oracle_fail is None)
    tm['oracle_backend'] = round(time.time() - t_, 1)
    ck.extra['timing_s'] = tm
    ck.exhaustive = False
    ck.extra["exhaustive_part"] = ("every sequence of qubit patterns ([q], [q,-1], ordered pairs) up to length %s for n=%s, levels 0..4"
                                   % (("7/5/4/3", "1/2/3/4") if quick else ("9/6/5/4", "1/2/3/4")))

    # ------------------------------------------------------------------ report
    if oracle_fail:
        which, n, pat, lv, why = oracle_fail
        if which == "optimizer":
            ck.report("oracle:optimizer", "Optimizer level %d on qubit patterns %s (n=%d): %s" % (lv, pat, n, why),
                      {"which": "optimizer", "n": n, "pattern": pat, "level": lv, "why": why, "seed": ck.seed + 1})
        else:
            ck.report("oracle:backend", "BinaryBackend(%d).statevector on qubit patterns %s: %s" % (n, pat, why),
                      {"which": "backend", "n": n, "pattern": pat, "why": why, "seed": ck.seed + 1})
    else:
        if not proofs_ok:
            ck.report("proof:" + str(failing), "proof obligation no longer checks: %s" % failing, {"theorem": failing, "log": out[-1500:]}, False)
        if mismatches:
            kind_, where, info = mismatches[0]
            if kind_ == "mismatch":
                fam, kind, n, pat, dom = cases[where]
                ck.report("corr", "model and implementation disagree on kind=%d n=%d pattern=%s (implementation: %s); %d disagreeing cases; "
                          "the direct oracle passes on every explored input" % (kind, n, pat, str(results[where])[:300], len(mismatches)),
                          {"correspondence": "C02 optimizer family " + fam, "kind": kind, "n": n, "pattern": pat,
                           "impl": [str(r) for r in results[where]]}, False)
            else:
                ck.report("corr-build", "correspondence file failed to compile: %s" % info, {"correspondence": where, "log": info}, False)
        if sp_mis:
            kind_, where, info = sp_mis[0]
            ck.report("corr-sparse", "BinaryBackend operator construction: model and implementation disagree (%s %s); the direct oracle "
                      "passes on every explored input" % (kind_, str(info)[:300]),
                      dict({"correspondence": "C02 create_sparse/create_dense", "which": "sparse"}, **(info if isinstance(info, dict) else {"log": str(info)})), False)
    return ck.finish()


if __name__ == "__main__":
    sys.exit(main(sys.argv[1:]))
