"""C20 — calibration import reproduces the backend's values for the requested qubits.
Theorems: coq/Props/C20.v over Model/Calib.v.  Tie: exact correspondence -- the model is fed the backend's calibration
tables (what BackendProperties/BackendConfiguration answer, as tokens = bit patterns) and evaluated inside Coq
(vm_compute) for the same layouts as DeviceParameters.load_from_backend; the imported vectors, both tables (shape and
token positions) and the raised exception class are compared exactly.  Direct oracle (independent of the model and of
BackendProperties): the values Qiskit's own Target of the backend holds (qubit_properties, x / measure / native-gate
InstructionProperties, dt) and the basis order of the raw configuration file."""
import sys, os, json, warnings, shutil
import numpy as np
from vlib.common import Check, VERIF
from checks.c15_c20_common import (FIELDS, QUICK_BACKENDS, quiet, fhex, Tokens, backend_names, make_backend, Pool, nat_list, n_list)

QUICK = ["FakeManilaV2", "FakeYorktownV2", "FakeLagosV2", "FakeGuadalupeV2", "FakeCairoV2", "FakeMelbourneV2", "FakePeekskill",
         "FakeKyiv", "FakeBrisbane", "FakeWashingtonV2", "FakeTorino", "FakePrague", "FakeArmonkV2", "FakeAlmadenV2", "FakeBurlingtonV2"]
CODES = {"ValueError": 2, "BackendPropertyError": 5, "AttributeError": 6}

PRELUDE = r"""
From Coq Require Import List Bool NArith Arith.
Require Import QG.Base.Res QG.Model.DevParams QG.Model.Calib.
Import ListNotations.
Local Open Scope N_scope.
Fixpoint list_eqb {X} (e : X -> X -> bool) (a b : list X) : bool :=
  match a, b with [], [] => true | x :: a', y :: b' => e x y && list_eqb e a' b' | _, _ => false end.
Definition tbl (l : list (option N)) : nat -> option N := fun q => match nth_error l q with Some x => x | None => None end.
(* backend description: kind, five per-qubit tables, dt, basis, property dicts of ecr and cx *)
Definition mk (k : bkind) (t1 t2 xe re rl : list (option N)) (dt : option N) (basis : list gname)
              (ecr cx : option (list ((nat * nat) * (N * N)))) : backend N N :=
  mkBackend k (tbl t1) (tbl t2) (tbl xe) (tbl re) (tbl rl) dt basis
            (fun g => match g with G_ecr => ecr | G_cx => cx | G_other => None end) (fun _ => 0).
Definition vec_ok (a : option (arr N)) (s : list nat) (d : list N) : bool :=
  match a with Some a => list_eqb Nat.eqb (shape a) s && list_eqb N.eqb (data a) d | None => false end.
(* non-zero entries of a table with their flat positions *)
Fixpoint sparse (i : N) (l : list N) : list (N * N) :=
  match l with [] => [] | x :: r => if N.eqb x 0 then sparse (i + 1) r else (i, x) :: sparse (i + 1) r end.
Definition tab_ok (a : option (arr N)) (s : list nat) (sp : list (N * N)) : bool :=
  match a with
  | Some a => list_eqb Nat.eqb (shape a) s && Nat.eqb (length (data a)) (prod_dims s) &&
              list_eqb (fun x y => N.eqb (fst x) (fst y) && N.eqb (snd x) (snd y)) (sparse 0 (data a)) sp
  | None => false
  end.
Definition xcode (x : exn) : nat :=
  match x with Py ValueError => 2 | BackendPropertyError => 5 | Py AttributeError => 6 | _ => 9 end%nat.
Notation vecs := (list nat * list N)%type.
Definition check (b : backend N N) (lay : list nat)
   (e : (vecs * vecs * vecs * vecs * vecs * vecs * (list nat * list (N * N)) * (list nat * list (N * N))) + nat) : bool :=
  match load_from_backend N N 0 lay b, e with
  | Done o, inl (t1, t2, p, rout, tm, dt, pi, ti) =>
      list_eqb Nat.eqb (layout o) lay &&
      vec_ok (get8 T1 (fields o)) (fst t1) (snd t1) && vec_ok (get8 T2 (fields o)) (fst t2) (snd t2) &&
      vec_ok (get8 P (fields o)) (fst p) (snd p) && vec_ok (get8 Rout (fields o)) (fst rout) (snd rout) &&
      vec_ok (get8 Tm (fields o)) (fst tm) (snd tm) && vec_ok (get8 Dt (fields o)) (fst dt) (snd dt) &&
      tab_ok (get8 Pint (fields o)) (fst pi) (snd pi) && tab_ok (get8 Tint (fields o)) (fst ti) (snd ti) &&
      is_complete N N o
  | Raise x, inr c => Nat.eqb (xcode x) c
  | _, _ => false
  end.
Fixpoint bad (i : nat) (cs : list bool) : list nat :=
  match cs with [] => [] | c :: r => if c then bad (S i) r else i :: bad (S i) r end.
"""


# ---------------------------------------------------------------------------------------------- backends
def variant(name, conf_edit=None, props_edit=None):
    """a fake backend whose configuration / properties dicts are edited after loading (synthetic configurations)"""
    from qiskit_ibm_runtime import fake_provider
    cls = getattr(fake_provider, name)

    class Var(cls):
        def _set_props_dict_from_json(self):
            super()._set_props_dict_from_json()
            if props_edit:
                props_edit(self._props_dict)
    with warnings.catch_warnings():
        warnings.simplefilter("ignore")
        b = Var()
    if conf_edit:
        conf_edit(b._conf_dict)
    return b


def plain_v2(fake):
    """a BackendV2 that is not a FakeBackendV2: exercises the `elif isinstance(backend, Backend)` branch"""
    from qiskit.providers import BackendV2, Options
    from qiskit_ibm_runtime.models import BackendProperties, BackendConfiguration

    class PlainV2(BackendV2):
        def __init__(self):
            super().__init__(name="plain_" + fake.name)
            fake._set_props_dict_from_json()

        @property
        def target(self):
            return fake.target

        @property
        def max_circuits(self):
            return None

        @classmethod
        def _default_options(cls):
            return Options()

        def run(self, *a, **k):
            raise NotImplementedError

        def properties(self):
            return BackendProperties.from_dict(fake._props_dict)

        def configuration(self):
            return BackendConfiguration.from_dict(fake._conf_dict)
    return PlainV2()


def _drop_gate(g):
    def f(p):
        p["gates"] = [x for x in p["gates"] if x["gate"] != g]
    return f


def synthetic_backends():
    """(label, builder, basis the oracle should assume | None = no independent statement, bundled backend whose Target the oracle reads | None)"""
    setb = lambda basis: (lambda c: c.__setitem__("basis_gates", list(basis)))
    return [("plain_BackendV2(FakeManilaV2)", lambda: plain_v2(make_backend("FakeManilaV2")), ["cx", "id", "rz", "sx", "x"], "FakeManilaV2"),
            ("plain_BackendV2(FakePeekskill)", lambda: plain_v2(make_backend("FakePeekskill")), None, "FakePeekskill"),
            ("FakeCairoV2 basis ecr first", lambda: variant("FakeCairoV2", setb(["ecr", "cx", "id", "rz", "sx", "x"])), ["ecr", "cx"], "FakeCairoV2"),
            ("FakeCairoV2 basis x,ecr,cx", lambda: variant("FakeCairoV2", setb(["x", "ecr", "rz", "cx"])), ["x", "ecr", "rz", "cx"], "FakeCairoV2"),
            ("FakeManilaV2 basis without cx", lambda: variant("FakeManilaV2", setb(["id", "rz", "sx", "x", "cz"])), ["id", "rz", "sx", "x", "cz"], None),
            ("FakeManilaV2 basis ecr without ecr properties", lambda: variant("FakeManilaV2", setb(["ecr", "cx", "x"])), None, None),
            ("FakeManilaV2 cx properties removed", lambda: variant("FakeManilaV2", None, _drop_gate("cx")), None, None),
            ("FakeManilaV2 x properties removed", lambda: variant("FakeManilaV2", None, _drop_gate("x")), None, None),
            ("FakeManilaV2 without dt", lambda: variant("FakeManilaV2", lambda c: c.pop("dt", None)), None, None),
            ("FakeLagosV2 empty basis", lambda: variant("FakeLagosV2", setb([])), [], None)]


def non_backends(DP):
    return [("None", None), ("str", "FakeManilaV2"), ("dict", {"name": "x"}), ("class object", DP), ("int", 7)]



def describe(backend, T):
    """what the code reads from the backend, through the same API it uses (model input)"""
    from qiskit.providers import BackendV2
    from qiskit_ibm_runtime.fake_provider.fake_backend import FakeBackendV2
    from qiskit_ibm_runtime.models import BackendProperties, BackendConfiguration
    if isinstance(backend, FakeBackendV2):
        backend._set_props_dict_from_json()
        prop = BackendProperties.from_dict(backend._props_dict)
        conf = BackendConfiguration.from_dict(backend._conf_dict)
        kind = "FakeV2"
    elif isinstance(backend, BackendV2):
        prop, conf, kind = backend.properties(), backend.configuration(), "V2"
    else:
        return {"kind": "NotABackend", "nq": 0, "q": [[]] * 5, "dt": None, "basis": [], "ecr": None, "cx": None, "ok": True}

    def col(f):
        out = []
        for q in range(conf.n_qubits + 2):
            try:
                out.append(T.tok(f(q)))
            except Exception as e:  # noqa
                out.append(None if type(e).__name__ == "BackendPropertyError" else "?" + type(e).__name__)
        return out
    q = [col(prop.t1), col(prop.t2), col(lambda k: prop.gate_error("x", [k])), col(prop.readout_error), col(prop.readout_length)]
    try:
        dt = T.tok(conf.dt)
    except AttributeError:
        dt = None
    ok = not any(isinstance(x, str) for c in q for x in c)

    def gp(g):
        nonlocal ok
        try:
            d = prop.gate_property(g)
        except Exception as e:  # noqa
            if type(e).__name__ != "BackendPropertyError":
                ok = False
            return None
        es = []
        for key, v in d.items():
            if len(key) != 2 or "gate_error" not in v or "gate_length" not in v:
                ok = False
                continue
            es.append((int(key[0]), int(key[1]), T.tok(v["gate_error"][0]), T.tok(v["gate_length"][0])))
        return es
    return {"kind": kind, "nq": conf.n_qubits, "q": q, "dt": dt, "basis": list(conf.basis_gates), "ecr": gp("ecr"), "cx": gp("cx"), "ok": ok}


def backend_lit(d, pool):
    o = lambda x: "None" if x is None else "(Some %d)" % x
    col = lambda c: "[" + ";".join(o(x) for x in c) + "]"
    es = lambda e: "None" if e is None else "(Some [%s])" % ";".join("((%d%%nat,%d%%nat),(%d,%d))" % x for x in e)
    basis = "[" + ";".join({"ecr": "G_ecr", "cx": "G_cx"}.get(g, "G_other") for g in d["basis"]) + "]"
    return pool.ref("(mk %s %s %s %s %s %s)" % (d["kind"], " ".join(col(c) for c in d["q"]), o(d["dt"]), basis, es(d["ecr"]), es(d["cx"])), "backend N N", threshold=0)


def run_impl(DP, backend, layout, T, dp=None):
    dp = DP(list(layout)) if dp is None else dp
    try:
        with quiet(), warnings.catch_warnings():
            warnings.simplefilter("ignore")
            dp.load_from_backend(backend)
    except Exception as e:  # noqa
        return {"outcome": type(e).__name__, "msg": str(e)[:100]}
    res = {"outcome": "ok", "complete": bool(dp.is_complete()), "hex": {}, "tok": {}, "metadata_layout": dp.metadata.get("qubits_layout") if isinstance(dp.metadata, dict) else None}
    for k in FIELDS:
        a = np.asarray(getattr(dp, k), dtype=float)
        res["hex"][k] = (tuple(int(x) for x in np.shape(getattr(dp, k))), [fhex(x) for x in a.ravel()])
        res["tok"][k] = (res["hex"][k][0], [T.tok(x) for x in a.ravel()])
    return res


def expected_lit(res, pool):
    if res["outcome"] != "ok":
        return "(inr %d%%nat)" % CODES.get(res["outcome"], 99)
    vec = lambda k: "(%s, %s)" % (nat_list(res["tok"][k][0]), n_list(res["tok"][k][1]))
    sp = lambda k: "(%s, [%s])" % (nat_list(res["tok"][k][0]), ";".join("(%d,%d)" % (i, t) for i, t in enumerate(res["tok"][k][1]) if t != 0))
    return "(inl (%s, %s, %s, %s, %s, %s, %s, %s))" % (vec("T1"), vec("T2"), vec("p"), vec("rout"), vec("tm"), vec("dt"), sp("p_int"), sp("t_int"))


# ---------------------------------------------------------------------------------------------- the direct oracle
def raw_basis(backend):
    return json.load(open(os.path.join(backend.dirname, backend.conf_filename)))["basis_gates"]


def oracle(backend, layout, res, basis=None):
    """the property stated on Qiskit's own Target of the backend (independent of BackendProperties and of the model).
    returns (verdict, text): verdict in {"ok", "violation", "outside"}"""
    t = backend.target
    basis = raw_basis(backend) if basis is None else basis
    native = next((g for g in basis if g in ("ecr", "cx")), None)
    try:
        want = {"T1": [t.qubit_properties[q].t1 for q in layout], "T2": [t.qubit_properties[q].t2 for q in layout],
                "p": [t["x"][(q,)].error for q in layout], "rout": [t["measure"][(q,)].error for q in layout],
                "tm": [t["measure"][(q,)].duration for q in layout], "dt": [t.dt]}
        if any(v is None for vs in want.values() for v in vs):
            raise KeyError("a calibration value is None")
    except Exception as e:  # noqa  -- no x / measure calibration for a requested qubit: outside the property's domain
        return "outside", "the Target has no %s for a requested qubit; implementation: %s" % (type(e).__name__, res["outcome"])
    if native is None or native not in t.operation_names:
        if res["outcome"] == "ValueError":
            return "ok", "rejected"
        return "violation", "backend with basis %s has no supported two-qubit gate but the import gave %s instead of ValueError" % (basis, res["outcome"])
    if res["outcome"] != "ok":
        return "violation", "import raised %s (%s) although every requested calibration exists" % (res["outcome"], res.get("msg"))
    for k, vals in want.items():
        shape, hx = res["hex"][k]
        if shape != (len(vals),):
            return "violation", "%s has shape %s, expected (%d,)" % (k, shape, len(vals))
        for pos, (a, v) in enumerate(zip(hx, vals)):
            if a != fhex(v):
                return "violation", "%s[%d] is %s but the backend's value for qubit %s is %s" % (k, pos, a, layout[pos] if k != "dt" else "-", fhex(v))
    m = max(layout) + 1
    exp_p, exp_t = {}, {}
    for pair, ip in t[native].items():
        if pair is None or len(pair) != 2 or ip is None:
            continue
        i, j = pair
        if i < m and j < m:
            exp_p[(i, j)] = fhex(ip.error if ip.error is not None else 0.0)
            exp_t[(i, j)] = fhex(ip.duration if ip.duration is not None else 0.0)
    zero = fhex(0.0)
    for k, exp in (("p_int", exp_p), ("t_int", exp_t)):
        shape, hx = res["hex"][k]
        if shape != (m, m):
            return "violation", "%s has shape %s, expected (%d, %d) for layout %s" % (k, shape, m, m, layout)
        for i in range(m):
            for j in range(m):
                w = exp.get((i, j), zero)
                if hx[i * m + j] != w:
                    return "violation", "%s[%d][%d] is %s but the backend's %s value for that ordered pair is %s" % (k, i, j, hx[i * m + j], native, w)
    if not res["complete"]:
        return "violation", "the imported object is not complete"
    if res["metadata_layout"] != list(layout):
        return "violation", "metadata records layout %s instead of %s" % (res["metadata_layout"], layout)
    return "ok", "values match"


# ---------------------------------------------------------------------------------------------- cases
def layouts_for(nq, rng, tier):
    lays = [("single0", [0])]
    if nq > 1:
        lays += [("single_last", [nq - 1]), ("pair", [1, 0]), ("contiguous", list(range(min(nq, 5)))),
                 ("reversed", list(range(min(nq, 6) - 1, -1, -1)))]
    for rep in range(2 if tier == "quick" else 5):
        k = rng.randint(1, min(nq, 7))
        lays.append(("scattered_any_order", rng.sample(range(nq), k)))
    if 1 < nq <= 30:
        full = list(range(nq)); rng.shuffle(full)
        lays.append(("all_qubits_shuffled", full))
    if nq > 2:
        a = rng.randrange(nq)
        lays.append(("repeated_label", [a, (a + 1) % nq, a]))
        lays.append(("without_qubit_0", [2, 1] if nq == 3 else [min(nq - 1, 3), 2]))   # the tables still start at qubit 0: pairs below the smallest label count
        lays.append(("single_middle", [nq // 2]))
    seen, out = set(), []
    for nm, l in lays:
        if tuple(l) not in seen:
            seen.add(tuple(l)); out.append((nm, l))
    return out


def main(argv):
    ck = Check("C20", argv)
    ck.rule = ("a case = (backend, layout); backends: bundled fake backends of the cx and ecr kinds, cz-only ones (rejection), ones without "
               "an x calibration (outside the domain), a plain BackendV2 wrapper, synthetic configurations (basis reordered, native gate "
               "without properties, dt removed), non-backend objects; layouts: single qubit first/last, pair, contiguous, reversed, random "
               "scattered in any order, all qubits shuffled, a repeated label, out-of-range and empty layouts (informational). "
               "Non-trivial = the import reads at least one calibration value; distinct = distinct (backend, layout)")
    ck.trusted = ["Coq 8.16.1 kernel + vm_compute", "checks/c20.py harness: tokenisation of floats by float.hex(), extraction of the backend tables through BackendProperties/BackendConfiguration",
                  "model coq/Model/Calib.v is hand-written: tied to DeviceParameters.load_from_backend only by this correspondence run",
                  "Qiskit's BackendProperties lookups raise BackendPropertyError exactly when the calibration entry is absent (modelled as None)"]
    ck.assume = ["layout labels are non-negative Python ints", "every entry of the native gate's property dict has gate_error and gate_length and a 2-tuple key (true of all bundled backends; checked)",
                 "'native two-qubit gate' = the first of 'ecr'/'cx' in basis order (DESIGN.md 6, C20)"]
    from quantum_gates._utility.device_parameters import DeviceParameters as DP

    if ck.replay:
        doc = json.load(open(ck.replay))["replay"]
        doc = doc.get("case", doc)
        if doc.get("not_a_backend") or doc["backend"] in dict(non_backends(DP)):
            obj = dict(non_backends(DP))[doc["backend"]]
            res = run_impl(DP, obj, doc["layout"], Tokens())
            verdict = "ok" if res["outcome"] == "ValueError" else "violation"
            text = "a non-backend object must be rejected with ValueError; got %s" % res["outcome"]
        else:
            basis, ob = None, None
            if doc.get("synthetic"):
                label, mkb, basis, base = next(x for x in synthetic_backends() if x[0] == doc["synthetic"])
                b = mkb()
                ob = make_backend(base) if base else b
            else:
                b = ob = make_backend(doc["backend"])
            res = run_impl(DP, b, doc["layout"], Tokens())
            verdict, text = oracle(ob, doc["layout"], res, basis=basis)
        print("replay: backend", doc.get("synthetic", doc["backend"]), "layout", doc["layout"], "->", res["outcome"], {k: v[0] for k, v in res.get("hex", {}).items()})
        print("replay: oracle ->", verdict, text)
        shutil.rmtree(ck.scratch, ignore_errors=True)
        return 1 if verdict == "violation" else 0

    bad = ck.hygiene()
    if bad:
        ck.report("hygiene", "forbidden construct in the Coq development: " + "; ".join(bad[:5]), {"theorem": "hygiene", "where": bad}, False)
    proofs_ok, failing, out = ck.coq_props()

    T = Tokens()
    rng = ck.rng
    cases = []     # dict(family, domain, backend obj, desc, layout, res, replay)
    oracle_fail = None
    outside = {}
    names = QUICK if ck.tier == "quick" else backend_names()
    kinds = {}
    for nm in names:
        try:
            b = make_backend(nm)
        except Exception as e:  # noqa
            ck.notes.append("backend %s could not be constructed (%s)." % (nm, type(e).__name__)); continue
        desc = describe(b, T)
        if not desc["ok"]:
            ck.notes.append("backend %s has a property entry the model cannot represent; skipped." % nm); continue
        native = next((g for g in desc["basis"] if g in ("ecr", "cx")), "none")
        kinds[native] = kinds.get(native, 0) + 1
        if sum(g in ("ecr", "cx") for g in desc["basis"]) > 1:      # informational: both gates in the basis, the first one wins
            try:
                edges = {tuple(e) for e in b.coupling_map.get_edges()}
                cal = {tuple(pr) for pr in b.target[native].keys() if pr is not None and len(pr) == 2}
                left = sorted(edges - cal)
                ck.extra.setdefault("backends_with_both_ecr_and_cx", {})[nm] = {
                    "native_by_basis_order": native, "coupled_ordered_pairs": len(edges), "pairs_calibrated_under_that_gate": len(cal),
                    "coupled_pairs_left_zero": [list(x) for x in left]}
                ck.notes.append("%s lists both ecr and cx; by the fixed reading the first in basis order (%s) is the native gate, so %d of its %d coupled "
                                "ordered pairs (calibrated under the other gate) stay zero in p_int/t_int." % (nm, native, len(left), len(edges)))
            except Exception as e:  # noqa
                ck.notes.append("could not inspect the coupling map of %s (%s)." % (nm, type(e).__name__))
        for lname, lay in layouts_for(desc["nq"], rng, ck.tier):
            res = run_impl(DP, b, lay, T)
            verdict, text = oracle(b, lay, res)
            fam = "bundled_%s_backends" % native
            ck.count(fam, 1, key=(nm, tuple(lay)), sample={"backend": nm, "layout": lay, "outcome": res["outcome"], "oracle": verdict,
                                                          "shapes": {k: list(v[0]) for k, v in res.get("hex", {}).items()}})
            ck.count("oracle:" + verdict, 1)
            if verdict == "outside":
                outside[nm] = outside.get(nm, 0) + 1
            if verdict == "violation" and oracle_fail is None:
                oracle_fail = ({"backend": nm, "layout": lay}, text)
            cases.append({"family": fam, "domain": verdict != "outside", "desc": desc, "layout": lay, "res": res, "replay": {"backend": nm, "layout": lay}})
        # informational: labels the backend does not have, the empty layout
        for lay in ([desc["nq"]], [0, desc["nq"] + 1], []):
            res = run_impl(DP, b, lay, T)
            ck.count("out_of_range_or_empty_layout", 1)
            cases.append({"family": "out_of_range_or_empty_layout", "domain": False, "desc": desc, "layout": lay, "res": res, "replay": {"backend": nm, "layout": lay}})
    ck.extra["backends_by_native_gate"] = kinds
    ck.extra["outside_domain_no_calibration"] = outside
    if outside:
        ck.notes.append("Backends lacking an x / readout calibration for a requested qubit raise Qiskit's BackendPropertyError (outside the property's domain): %s." % sorted(outside))

    # a plain BackendV2 (not a FakeBackendV2), synthetic configurations, non-backend objects
    synth = synthetic_backends()
    for label, mkb, basis, base in synth:
        try:
            b = mkb()
        except Exception as e:  # noqa
            ck.notes.append("synthetic backend %s could not be built (%s)." % (label, type(e).__name__)); continue
        desc = describe(b, T)
        if not desc["ok"]:
            ck.notes.append("synthetic backend %s not representable; skipped." % label); continue
        for lname, lay in layouts_for(desc["nq"], rng, "quick")[:5]:
            res = run_impl(DP, b, lay, T)
            ck.count("synthetic_and_plain_V2", 1, key=(label, tuple(lay)), sample={"backend": label, "layout": lay, "outcome": res["outcome"]})
            if basis is not None:      # the oracle has an independent statement for this configuration
                try:
                    verdict, text = oracle(make_backend(base) if base else b, lay, res, basis=basis)
                except Exception as e:  # noqa -- the Target of a synthetic configuration may not be constructible
                    verdict, text = "outside", "oracle not applicable (%s)" % type(e).__name__
                ck.count("oracle:" + verdict, 1)
                if verdict == "violation" and oracle_fail is None:
                    oracle_fail = ({"backend": base or label, "layout": lay, "synthetic": label}, text)
            cases.append({"family": "synthetic_and_plain_V2", "domain": True, "desc": desc, "layout": lay, "res": res, "replay": {"backend": base or label, "layout": lay, "synthetic": label}})
    for label, obj in non_backends(DP):
        for lay in ([0], [1, 0], []):
            res = run_impl(DP, obj, lay, T)
            ck.count("not_a_backend", 1, key=(label, tuple(lay)), sample={"backend": label, "layout": lay, "outcome": res["outcome"]})
            ck.count("oracle:rejects", 1)
            if res["outcome"] != "ValueError" and oracle_fail is None:
                oracle_fail = ({"backend": label, "layout": lay, "not_a_backend": True}, "an object that is not a backend (%s) was not rejected with ValueError but gave %s" % (label, res["outcome"]))
            cases.append({"family": "not_a_backend", "domain": True, "desc": describe(obj, T), "layout": lay, "res": res, "replay": {"backend": label, "layout": lay, "not_a_backend": True}})

    # ONE DeviceParameters object imports several backends one after another (supported, unsupported, another supported one), and
    # imported tables are edited in place between imports: every import is a function of (backend, layout) only
    try:
        seqs = []
        sup = [nm for nm in names if nm in QUICK][:6] or list(names)[:4]
        uns = [lab for lab, mkb, basis, base in synth if basis is not None and not any(g in ("ecr", "cx") for g in basis)]
        for rep in range(4 if ck.tier == "quick" else 16):
            lay = rng.choice([[0], [1, 0], [0, 1, 2], [2, 0]])
            order = [("b", rng.choice(sup)), ("s", rng.choice(uns)) if uns else ("b", rng.choice(sup)), ("b", rng.choice(sup)), ("b", rng.choice(sup))]
            dp = DP(list(lay))
            for kind, nm in order:
                if kind == "b":
                    b = make_backend(nm); basis = None; ob = b
                else:
                    lab, mkb, basis, base = next(x for x in synth if x[0] == nm); b = mkb(); ob = make_backend(base) if base else b
                res = run_impl(DP, b, lay, T, dp=dp)
                try:
                    verdict, text = oracle(ob, lay, res, basis=basis)
                except Exception as e:  # noqa
                    verdict, text = "outside", str(e)
                ck.count("reused_object_sequence", 1, key=(rep, nm, tuple(lay)))
                if verdict == "violation" and oracle_fail is None:
                    oracle_fail = ({"backend": nm, "layout": lay, "sequence": [x[1] for x in order], "reused_object": True}, "on a DeviceParameters object that imported other backends before: " + text)
                if res["outcome"] == "ok":     # the user edits the imported tables in place (ablation) before the next import
                    for f in ("p_int", "t_int"):
                        a = getattr(dp, f)
                        if isinstance(a, np.ndarray) and a.size:
                            a[...] = 0.125
    except Exception as e:  # noqa
        ck.notes.append("reused-object family could not run: %s: %s" % (type(e).__name__, str(e)[:120]))
    if oracle_fail:
        rp, text = oracle_fail
        ck.report("oracle", "calibration import violated: %s (backend %s, layout %s)" % (text, rp.get("synthetic", rp["backend"]), rp["layout"]), {"case": rp, "why": text})

    # model side, inside Coq
    shards, cur, cur_idx, pool = [], [], [], Pool("b")
    def flush():
        nonlocal cur, cur_idx, pool
        if cur:
            body = PRELUDE + pool.text() + "Definition result := bad 0 [\n " + ";\n ".join(cur) + "].\nEval vm_compute in result.\n"
            shards.append(("c20_%d" % len(shards), body, cur_idx))
        cur, cur_idx, pool = [], [], Pool("b")
    size = 0
    for i, c in enumerate(cases):
        lit = "check %s %s %s" % (backend_lit(c["desc"], pool), nat_list(c["layout"]), expected_lit(c["res"], pool))
        cur.append(lit); cur_idx.append(i); size += len(lit)
        if len(cur) >= 60 or size + pool.size > 300000:
            flush(); size = 0
    flush()
    mismatches = []
    for (name, rc, out2), (_, _, idxs) in zip(ck.coq_eval_many([(n, b) for n, b, _ in shards]), shards):
        if rc != 0 or "=" not in out2:
            mismatches.append(("coq-failed", name, out2[-600:])); continue
        txt = out2[out2.index("="):].split(":")[0]
        for x in txt.replace("=", " ").replace("[", " ").replace("]", " ").replace(";", " ").replace("%nat", "").split():
            i = idxs[int(x)]
            if cases[i]["domain"]:
                mismatches.append(("mismatch", i, None))
            else:
                ck.notes.append("model and implementation differ on the out-of-domain case %r (implementation: %s; not a violation)." % (cases[i]["replay"], cases[i]["res"]["outcome"]))
    ck.oblige("correspondence model=implementation on %d (backend, layout) cases" % len(cases), not mismatches)
    ck.exhaustive = False
    ck.extra["tokens"] = len(T.ids)

    if not proofs_ok and not oracle_fail:
        ck.report("proof:" + str(failing), "proof obligation no longer checks: %s" % failing, {"theorem": failing, "log": out[-1500:]}, False)
    if mismatches and not oracle_fail:
        kind, where, info = mismatches[0]
        if kind == "mismatch":
            c = cases[where]
            ck.report("corr", "model and implementation disagree on %s (implementation outcome %s); the property's own oracle passes on every explored input"
                      % (c["replay"], c["res"]["outcome"]), {"correspondence": "C20 " + c["family"], "case": c["replay"], "mismatching_cases": len(mismatches)}, False)
        else:
            ck.report("corr-build", "correspondence file failed to compile: %s" % info, {"correspondence": where, "log": info}, False)
    return ck.finish()


if __name__ == "__main__":
    sys.exit(main(sys.argv[1:]))
