"""C12 translator: reads the CURRENT source of quantum_gates/_gates/integrator.py with `ast` and emits
coq/Gen/GenIntegrator.v (the integrand / closed-form lambdas as Coq functions R -> R -> R, and the structure of
__init__ / integrate / _analytical_integration / _numerical_integration over an abstract parametrisation F).

The translation is a small symbolic evaluator over the Python AST (straight-line code, lambdas, `if` with both
outcomes kept as an if-then-else term).  It FAILS CLOSED: any node, name, attribute, call shape or statement it does
not know raises TranslateError.  Every emitted definition also has a Python mirror (`py_of`) which the check
evaluates against the real objects at random arguments with exact float equality (validation of the translator).

Shared by checks/c13_translate.py (same expression core, other leaves)."""
import ast, hashlib, os
from fractions import Fraction


class TranslateError(Exception):
    pass


def fail(node, why):
    ln = getattr(node, "lineno", "?")
    raise TranslateError("line %s: %s%s" % (ln, why, (" [" + ast.dump(node)[:160] + "]") if isinstance(node, ast.AST) else ""))


# ------------------------------------------------------------------------------------------------ expression terms
# ('num', Fraction, is_float) ('var', name) ('add'|'sub'|'mul'|'div', l, r) ('neg', e) ('pow', e, n) ('fn', name, e)
# ('app', fname, [args])   application of an abstract function (F, pdf, cdf) or of an emitted definition
# ('tab', table, [args])   self._<table>_LOOKUP[<the key parameter>](args)
# ('ite', cond, e1, e2)    cond = ('eq'|'ne'|'gt'|'lt'|'ge'|'le', l, r) | ('boolvar', name)
# ('quad', tvar, body, lo, hi)
ARITH = {ast.Add: "add", ast.Sub: "sub", ast.Mult: "mul", ast.Div: "div"}
CMP = {ast.Eq: "eq", ast.NotEq: "ne", ast.Gt: "gt", ast.Lt: "lt", ast.GtE: "ge", ast.LtE: "le"}


def is_real(v):
    return isinstance(v, tuple) and v and v[0] in ("num", "var", "add", "sub", "mul", "div", "neg", "pow", "fn", "app", "tab", "ite", "quad")


class Closure:
    def __init__(self, params, body, env, ev):
        self.params, self.body, self.env, self.ev = params, body, env, ev

    def __call__(self, args, node=None):
        if len(args) != len(self.params):
            fail(node, "lambda called with %d arguments, takes %d" % (len(args), len(self.params)))
        env = dict(self.env)
        env.update(zip(self.params, args))
        return self.ev.expr(self.body, env)


class Obj:
    """opaque symbolic object with a tag"""
    def __init__(self, tag, **kw):
        self.tag = tag
        self.__dict__.update(kw)

    def __repr__(self):
        return "<%s>" % self.tag


class PyTuple:
    def __init__(self, items):
        self.items = list(items)


class Evaluator:
    """symbolic evaluation of expressions and statement blocks; subclasses define leaves (names/attributes/calls)"""

    def __init__(self):
        self.requires = []      # asserted conditions, in order
        self.single = {}        # function -> set of assigned names (single assignment per path is enforced)

    # -------- leaves to be provided
    def attribute(self, node, env):
        fail(node, "unknown attribute")

    def call_obj(self, f, args, kwargs, node, env):
        fail(node, "call of an unknown object %r" % (f,))

    def subscript(self, base, idx, node, env):
        fail(node, "unknown subscript")

    def compare_obj(self, op, left, right, node, env):
        fail(node, "unknown comparison")

    # -------- expressions
    def expr(self, n, env):
        if isinstance(n, ast.Constant):
            if isinstance(n.value, bool) or not isinstance(n.value, (int, float)):
                fail(n, "constant of unsupported type")
            if isinstance(n.value, float) and (n.value != n.value or n.value in (float("inf"), float("-inf"))):
                fail(n, "non-finite literal")
            return ("num", Fraction(n.value), isinstance(n.value, float))
        if isinstance(n, ast.Name):
            if n.id not in env:
                if n.id == "float":       # float(x): the identity on the reals (it only fixes the numeric type)
                    return Obj("floatfn")
                fail(n, "unknown name %r" % n.id)
            return env[n.id]
        if isinstance(n, ast.Attribute):
            return self.attribute(n, env)
        if isinstance(n, ast.BinOp):
            l, r = self.expr(n.left, env), self.expr(n.right, env)
            if type(n.op) in ARITH:
                if not (is_real(l) and is_real(r)):
                    fail(n, "arithmetic on a non-real operand")
                return (ARITH[type(n.op)], l, r)
            if isinstance(n.op, ast.Pow):
                if not is_real(l):
                    fail(n, "power of a non-real")
                if not (isinstance(r, tuple) and r[0] == "num" and not r[2] and r[1].denominator == 1 and 0 <= r[1] <= 64):
                    fail(n, "exponent is not a small non-negative integer literal")
                return ("pow", l, int(r[1]))
            fail(n, "unsupported binary operator")
        if isinstance(n, ast.UnaryOp):
            if isinstance(n.op, ast.USub):
                v = self.expr(n.operand, env)
                if not is_real(v):
                    fail(n, "negation of a non-real")
                return ("neg", v)
            fail(n, "unsupported unary operator")
        if isinstance(n, ast.Lambda):
            a = n.args
            if a.vararg or a.kwarg or a.kwonlyargs or a.defaults or a.kw_defaults or a.posonlyargs:
                fail(n, "lambda with non-plain parameters")
            return Closure([x.arg for x in a.args], n.body, env, self)
        if isinstance(n, ast.Call):
            f = self.expr(n.func, env)
            args = [self.expr(x, env) for x in n.args]
            if any(isinstance(x, ast.Starred) for x in n.args):
                fail(n, "starred argument")
            kwargs = {}
            for kw in n.keywords:
                if kw.arg is None:
                    fail(n, "**kwargs")
                if kw.arg == "limit" and isinstance(f, Obj) and f.tag == "quad":
                    kwargs[kw.arg] = None      # quad's subdivision limit: part of the trusted quadrature, not of the integral's meaning
                    continue
                kwargs[kw.arg] = self.expr(kw.value, env)
            if isinstance(f, Closure):
                if kwargs:
                    fail(n, "keyword arguments to a lambda")
                return f(args, n)
            return self.call_obj(f, args, kwargs, n, env)
        if isinstance(n, ast.Subscript):
            return self.subscript(self.expr(n.value, env), self.expr(n.slice, env), n, env)
        if isinstance(n, ast.Tuple):
            return PyTuple([self.expr(x, env) for x in n.elts])
        if isinstance(n, ast.Compare):
            if len(n.ops) != 1:
                fail(n, "chained comparison")
            l, r = self.expr(n.left, env), self.expr(n.comparators[0], env)
            if type(n.ops[0]) in CMP and is_real(l) and is_real(r):
                return (CMP[type(n.ops[0])], l, r)
            return self.compare_obj(n.ops[0], l, r, n, env)
        fail(n, "unsupported expression node %s" % type(n).__name__)

    # -------- statements (continuation style: `if` duplicates the rest of the block into both outcomes)
    def block(self, stmts, env, assigned=frozenset()):
        """returns the returned value, or None when the block falls off its end"""
        if not stmts:
            return None
        s, rest = stmts[0], stmts[1:]
        if isinstance(s, ast.Expr) and isinstance(s.value, ast.Constant) and isinstance(s.value.value, str):
            return self.block(rest, env, assigned)          # docstring
        if isinstance(s, ast.Assign):
            if len(s.targets) != 1:
                fail(s, "multiple assignment targets")
            t = s.targets[0]
            v = self.expr(s.value, env)
            if isinstance(t, ast.Name):
                if t.id in assigned:
                    fail(s, "name %r assigned twice on one path (closures may have captured it)" % t.id)
                env[t.id] = v
                return self.block(rest, env, assigned | {t.id})
            if isinstance(t, ast.Tuple) and all(isinstance(x, ast.Name) for x in t.elts):
                if not isinstance(v, PyTuple) or len(v.items) != len(t.elts):
                    fail(s, "tuple unpacking of a non-tuple / wrong length")
                names = [x.id for x in t.elts]
                if set(names) & assigned or len(set(names)) != len(names):
                    fail(s, "name assigned twice on one path")
                env.update(zip(names, v.items))
                return self.block(rest, env, assigned | set(names))
            self.store(t, v, s, env)
            return self.block(rest, env, assigned)
        if isinstance(s, ast.Assert):
            self.requires.append(self.expr(s.test, env))
            return self.block(rest, env, assigned)
        if isinstance(s, ast.If):
            c = self.expr(s.test, env)
            decided = self.decide(c, s, env)
            if decided is True:
                return self.block(list(s.body) + rest, env, assigned)
            if decided is False:
                return self.block(list(s.orelse) + rest, env, assigned)
            if not (isinstance(c, tuple) and c[0] in ("boolvar",) + tuple(CMP.values())):
                fail(s, "if on a non-boolean term")
            r1 = self.block(list(s.body) + rest, dict(env), assigned)
            r2 = self.block(list(s.orelse) + rest, dict(env), assigned)
            if r1 is None or r2 is None:
                fail(s, "a path of this if falls off the end of the function")
            if not (is_real(r1) and is_real(r2)):
                fail(s, "if returning non-real values")
            return ("ite", c, r1, r2)
        if isinstance(s, ast.Return):
            if s.value is None:
                fail(s, "bare return")
            v = self.expr(s.value, env)
            self.returned(v, s, env)
            return v
        fail(s, "unsupported statement %s" % type(s).__name__)

    def store(self, target, value, node, env):
        fail(node, "assignment to an unsupported target")

    def decide(self, cond, node, env):
        return None

    def returned(self, v, node, env):
        pass


# ------------------------------------------------------------------------------------------------ printers
def q_coq(fr):
    if fr.denominator == 1:
        return "%d" % fr.numerator if fr.numerator >= 0 else "(-%d)" % (-fr.numerator)
    s = "(%d / %d)" % (abs(fr.numerator), fr.denominator)
    return s if fr > 0 else "(- %s)" % s


COQ_OP = {"add": "+", "sub": "-", "mul": "*", "div": "/"}
COQ_CMP = {"gt": ">", "lt": "<", "ge": ">=", "le": "<="}


def coq_of(e, keyname="k"):
    t = e[0]
    if t == "num":
        return q_coq(e[1])
    if t == "var":
        return e[1]
    if t in COQ_OP:
        return "(%s %s %s)" % (coq_of(e[1], keyname), COQ_OP[t], coq_of(e[2], keyname))
    if t == "neg":
        return "(- %s)" % coq_of(e[1], keyname)
    if t == "pow":
        return "(%s ^ %d)" % (coq_of(e[1], keyname), e[2])
    if t == "fn":
        return "(%s %s)" % (e[1], coq_of(e[2], keyname))
    if t == "app":
        return "(%s)" % " ".join([e[1]] + [coq_of(x, keyname) for x in e[2]])
    if t == "tab":
        return "(%s)" % " ".join([e[1], keyname] + [coq_of(x, keyname) for x in e[2]])
    if t == "ite":
        c = e[1]
        if c[0] == "boolvar":
            cs = c[1]
        elif c[0] == "eq":
            cs = "Req_EM_T %s %s" % (coq_of(c[1], keyname), coq_of(c[2], keyname))
        else:
            raise TranslateError("no Coq form for a branch on %r" % (c[0],))
        return "(if %s then %s else %s)" % (cs, coq_of(e[2], keyname), coq_of(e[3], keyname))
    if t == "quad":
        return "(quad (fun %s : R => %s) %s %s)" % (e[1], coq_of(e[2], keyname), coq_of(e[3], keyname), coq_of(e[4], keyname))
    raise TranslateError("cannot print %r" % (t,))


def coq_prop(c, keyname="k"):
    if c[0] in COQ_CMP:
        return "(%s %s %s)" % (coq_of(c[1], keyname), COQ_CMP[c[0]], coq_of(c[2], keyname))
    if c[0] == "eq":
        return "(%s = %s)" % (coq_of(c[1], keyname), coq_of(c[2], keyname))
    if c[0] == "ne":
        return "(%s <> %s)" % (coq_of(c[1], keyname), coq_of(c[2], keyname))
    raise TranslateError("no Coq proposition for %r" % (c[0],))


PY_OP = {"add": "+", "sub": "-", "mul": "*", "div": "/"}
PY_CMP = {"eq": "==", "ne": "!=", "gt": ">", "lt": "<", "ge": ">=", "le": "<="}


def py_of(e):
    """Python mirror of a term: same operations in the same order, evaluated with numpy like the source.
    Free names: the variables, np, TAB (dict table -> dict key -> callable), KEY, FUN (abstract functions), QUAD."""
    t = e[0]
    if t == "num":
        if e[2]:
            return repr(float(e[1]))
        return "%d" % e[1].numerator if e[1].numerator >= 0 else "(%d)" % e[1].numerator
    if t == "var":
        return e[1]
    if t in PY_OP:
        return "(%s %s %s)" % (py_of(e[1]), PY_OP[t], py_of(e[2]))
    if t == "neg":
        return "(- %s)" % py_of(e[1])
    if t == "pow":
        return "(%s ** %d)" % (py_of(e[1]), e[2])
    if t == "fn":
        return "np.%s(%s)" % (e[1], py_of(e[2]))
    if t == "app":
        return "FUN[%r](%s)" % (e[1], ", ".join(py_of(x) for x in e[2]))
    if t == "tab":
        return "TAB[%r][KEY](%s)" % (e[1], ", ".join(py_of(x) for x in e[2]))
    if t == "ite":
        c = e[1]
        cs = c[1] if c[0] == "boolvar" else "(%s %s %s)" % (py_of(c[1]), PY_CMP[c[0]], py_of(c[2]))
        return "(%s if %s else %s)" % (py_of(e[2]), cs, py_of(e[3]))
    if t == "quad":
        return "QUAD(lambda %s: %s, %s, %s)" % (e[1], py_of(e[2]), py_of(e[3]), py_of(e[4]))
    raise TranslateError("cannot mirror %r" % (t,))


def free_vars(e, acc=None):
    acc = set() if acc is None else acc
    if isinstance(e, tuple):
        if e[0] == "var":
            acc.add(e[1])
        elif e[0] == "quad":
            inner = free_vars(e[2])
            inner.discard(e[1])
            acc |= inner
            free_vars(e[3], acc); free_vars(e[4], acc)
        else:
            for x in e[1:]:
                if isinstance(x, (tuple, list)):
                    free_vars(x, acc) if isinstance(x, tuple) else [free_vars(y, acc) for y in x]
    return acc


# ------------------------------------------------------------------------------------------------ integrator.py
KEYS = {  # dictionary key -> constructor of QG.Model.Integrals.key  (the eight supported integrands)
    "sin(theta/a)**2": "K_sin2",
    "sin(theta/(2*a))**4": "K_sin4h",
    "sin(theta/a)*sin(theta/(2*a))**2": "K_sin_sin2h",
    "sin(theta/(2*a))**2": "K_sin2h",
    "cos(theta/a)**2": "K_cos2",
    "sin(theta/a)*cos(theta/a)": "K_sincos",
    "sin(theta/a)": "K_sin",
    "cos(theta/(2*a))**2": "K_cos2h",
}
TABLES = {"_INTEGRAL_LOOKUP": "INTEGRAL", "_RESULT_LOOKUP": "RESULT"}
KEYVAR = Obj("the key parameter")


class IntegratorEval(Evaluator):
    def __init__(self, methods):
        super().__init__()
        self.methods = methods          # name -> FunctionDef
        self.attrs = {}                 # attributes set by __init__
        self.cache_events = []          # ('lookup', key) ('hit-return', key) ('store', key, value) ('return', value)
        self.quad_calls = []
        self.called = []                # methods called from integrate
        self.in_init = False

    def attribute(self, n, env):
        base = n.value
        # np.sin / np.cos / scipy.integrate.quad
        if isinstance(base, ast.Name) and base.id == "np" and "np" not in env:
            if n.attr in ("sin", "cos"):
                return Obj("npfn", name=n.attr)
            fail(n, "numpy function outside the vocabulary")
        if isinstance(base, ast.Attribute) and isinstance(base.value, ast.Name) and (base.value.id, base.attr, n.attr) == ("scipy", "integrate", "quad"):
            return Obj("quad")
        b = self.expr(base, env)
        if isinstance(b, Obj) and b.tag == "self":
            if n.attr in TABLES:
                return Obj("table", name=TABLES[n.attr])
            if n.attr in self.methods and n.attr.startswith("_") and n.attr != "__init__":
                return Obj("method", name=n.attr)
            if n.attr in self.attrs:
                return self.attrs[n.attr]
            fail(n, "attribute of self that __init__ does not set")
        if isinstance(b, Obj) and b.tag == "pulse":
            if n.attr == "get_parametrization":
                return Obj("getter", what="F")
            if n.attr == "use_lookup":
                return ("boolvar", "use_lookup")
            fail(n, "unknown attribute of the pulse")
        if isinstance(b, Obj) and b.tag == "table" and n.attr == "keys":
            return Obj("keysfn", table=b.name)
        fail(n, "unknown attribute")

    def call_obj(self, f, args, kwargs, n, env):
        if not isinstance(f, Obj):
            fail(n, "call of a non-callable term")
        if f.tag == "npfn":
            if kwargs or len(args) != 1 or not is_real(args[0]):
                fail(n, "np.%s with unexpected arguments" % f.name)
            return ("fn", f.name, args[0])
        if f.tag == "tabentry":
            if kwargs or len(args) != 2 or not all(is_real(x) for x in args):
                fail(n, "table lambda called with unexpected arguments")
            return ("tab", f.table, args)
        if f.tag == "F":
            if kwargs or len(args) != 1 or not is_real(args[0]):
                fail(n, "parametrisation called with unexpected arguments")
            return ("app", "F", args)
        if f.tag == "getter":
            if args or kwargs:
                fail(n, "getter with arguments")
            return Obj("F")
        if f.tag == "keysfn":
            if args or kwargs:
                fail(n, "keys() with arguments")
            return Obj("keys", table=f.table)
        if f.tag == "dictctor":
            if args or kwargs:
                fail(n, "dict() with arguments")
            return Obj("cache")
        if f.tag == "floatfn":
            if kwargs or len(args) != 1 or not is_real(args[0]):
                fail(n, "float() with unexpected arguments")
            return args[0]
        if f.tag == "quad":
            if set(kwargs) - {"limit"} or len(args) != 3:
                fail(n, "quad must be called as quad(f, lo, hi[, limit=...]) (tolerances/limits are part of the trusted quadrature)")
            fn, lo, hi = args
            if not isinstance(fn, Closure) or len(fn.params) != 1 or not (is_real(lo) and is_real(hi)):
                fail(n, "quad arguments of unexpected kind")
            tv = "t"
            body = fn([("var", tv)], n)
            if not is_real(body):
                fail(n, "quad integrand is not a real term")
            self.quad_calls.append((tv, body, lo, hi))
            return PyTuple([("quad", tv, body, lo, hi), Obj("abserr")])
        if f.tag == "method":
            if kwargs or len(args) != 3 or args[0] is not KEYVAR or not all(is_real(x) for x in args[1:]):
                fail(n, "internal method called with unexpected arguments")
            self.called.append(f.name)
            return ("app", f.name.lstrip("_"), [("var", "KEY")] + args[1:])
        fail(n, "call of an unknown object %r" % (f,))

    def expr(self, n, env):
        if isinstance(n, ast.Name) and n.id == "dict" and "dict" not in env:
            return Obj("dictctor")
        return super().expr(n, env)

    def subscript(self, base, idx, n, env):
        if isinstance(base, Obj) and base.tag == "table":
            if idx is not KEYVAR:
                fail(n, "lookup table indexed by something else than the key parameter")
            return Obj("tabentry", table=base.name)
        if isinstance(base, Obj) and base.tag == "cache":
            return Obj("cached", key=self.keytuple(idx, n))
        fail(n, "unknown subscript")

    def keytuple(self, idx, n):
        if not isinstance(idx, PyTuple):
            fail(n, "cache key is not a tuple")
        out = []
        for x in idx.items:
            if x is KEYVAR:
                out.append("KEY")
            elif isinstance(x, tuple) and x[0] == "var":
                out.append(x[1])
            else:
                fail(n, "cache key component is not a plain parameter")
        return tuple(out)

    def compare_obj(self, op, l, r, n, env):
        if isinstance(op, ast.In) and isinstance(r, Obj) and r.tag == "cache":
            return Obj("incache", key=self.keytuple(l, n))
        if isinstance(op, ast.In) and isinstance(r, Obj) and r.tag == "keys" and l is KEYVAR:
            return Obj("inkeys", table=r.table)
        fail(n, "unknown comparison")

    def store(self, target, value, node, env):
        if isinstance(target, ast.Subscript):
            b = self.expr(target.value, env)
            if isinstance(b, Obj) and b.tag == "cache":
                self.cache_events.append(("store", self.keytuple(self.expr(target.slice, env), node), value))
                return
        if isinstance(target, ast.Attribute):
            b = self.expr(target.value, env)
            if isinstance(b, Obj) and b.tag == "self" and self.in_init:
                if target.attr in self.attrs:
                    fail(node, "attribute set twice in __init__")
                self.attrs[target.attr] = value
                return
        fail(node, "assignment to an unsupported target")

    def decide(self, cond, node, env):
        if isinstance(cond, Obj) and cond.tag == "incache":
            # the warm path: must return the stored entry under the same key; then continue on the cold path
            self.cache_events.append(("lookup", cond.key))
            if len(node.body) != 1 or not isinstance(node.body[0], ast.Return) or node.orelse:
                fail(node, "cache-hit branch is not a single return")
            v = self.expr(node.body[0].value, env)
            if not (isinstance(v, Obj) and v.tag == "cached"):
                fail(node, "cache-hit branch does not return the cached entry")
            self.cache_events.append(("hit-return", v.key))
            return False
        return None

    def returned(self, v, node, env):
        self.cache_events.append(("return", v))

    # ---- drivers
    def run_init(self, fd):
        a = [x.arg for x in fd.args.args]
        if len(a) != 2 or a[0] != "self":
            fail(fd, "__init__ signature changed")
        self.in_init = True
        r = self.block(list(fd.body), {"self": Obj("self"), a[1]: Obj("pulse")})
        self.in_init = False
        if r is not None:
            fail(fd, "__init__ returns a value")

    def run_method(self, fd):
        self.in_init = False
        a = [x.arg for x in fd.args.args]
        if len(a) != 4 or a[0] != "self" or fd.args.vararg or fd.args.kwarg or fd.args.kwonlyargs or fd.args.defaults:
            fail(fd, "method signature is not (self, key, theta, a)")
        env = {"self": Obj("self"), a[1]: KEYVAR, a[2]: ("var", "theta"), a[3]: ("var", "a")}
        r = self.block(list(fd.body), env)
        if r is None or not is_real(r):
            fail(fd, "method does not return a real term on every path")
        return r, env


def parse_key_expr(s):
    """the dictionary key read as an expression in theta, a with bare sin/cos (ties the spec g to the key's name)"""
    class KE(Evaluator):
        def expr(self, n, env):
            if isinstance(n, ast.Call) and isinstance(n.func, ast.Name) and n.func.id in ("sin", "cos") and len(n.args) == 1 and not n.keywords:
                return ("fn", n.func.id, self.expr(n.args[0], env))
            return super().expr(n, env)
    return KE().expr(ast.parse(s, mode="eval").body, {"theta": ("var", "theta"), "a": ("var", "a")})


def translate_integrator(path):
    """returns a dict with the terms and the Coq text; raises TranslateError on anything unknown"""
    src = open(path).read()
    mod = ast.parse(src)
    cls = [n for n in mod.body if isinstance(n, ast.ClassDef) and n.name == "Integrator"]
    if len(cls) != 1:
        raise TranslateError("class Integrator not found exactly once")
    cls = cls[0]
    tables, methods = {}, {}
    for n in cls.body:
        if isinstance(n, ast.Expr) and isinstance(n.value, ast.Constant) and isinstance(n.value.value, str):
            continue
        if isinstance(n, ast.Assign) and len(n.targets) == 1 and isinstance(n.targets[0], ast.Name):
            nm = n.targets[0].id
            if nm not in TABLES or nm in tables or not isinstance(n.value, ast.Dict):
                fail(n, "unexpected class attribute %r" % nm)
            tables[nm] = n.value
            continue
        if isinstance(n, ast.FunctionDef):
            if n.decorator_list or n.name in methods:
                fail(n, "decorated or duplicate method")
            methods[n.name] = n
            continue
        fail(n, "unexpected statement in class Integrator")
    if set(tables) != set(TABLES):
        raise TranslateError("lookup tables missing: %s" % (set(TABLES) - set(tables)))
    if set(methods) != {"__init__", "integrate", "_analytical_integration", "_numerical_integration"}:
        raise TranslateError("method set of Integrator changed: %s" % sorted(methods))

    out = {"sha256": hashlib.sha256(src.encode()).hexdigest(), "path": path, "tables": {}, "order": {}}
    ev0 = Evaluator()
    for tn, d in tables.items():
        ents, order = {}, []
        for k, v in zip(d.keys, d.values):
            if not (isinstance(k, ast.Constant) and isinstance(k.value, str)):
                fail(d, "dictionary key is not a string literal")
            if k.value not in KEYS:
                fail(k, "dictionary key %r is not one of the eight supported integrands" % k.value)
            if k.value in ents:
                fail(k, "duplicate dictionary key %r" % k.value)
            if not isinstance(v, ast.Lambda):
                fail(v, "table entry is not a lambda")
            iev = IntegratorEval(methods)
            clo = iev.expr(v, {})
            if len(clo.params) != 2:
                fail(v, "table lambda does not take (theta, a)")
            body = clo([("var", "theta"), ("var", "a")], v)
            if not is_real(body) or free_vars(body) - {"theta", "a"}:
                fail(v, "table lambda body is not a closed real term in theta, a")
            ents[k.value] = body
            order.append(k.value)
        if set(ents) != set(KEYS):
            raise TranslateError("%s does not define exactly the eight supported integrands (missing %s)" % (tn, sorted(set(KEYS) - set(ents))))
        out["tables"][TABLES[tn]] = ents
        out["order"][TABLES[tn]] = order
    out["keyexpr"] = {k: parse_key_expr(k) for k in KEYS}

    ev = IntegratorEval(methods)
    ev.run_init(methods["__init__"])
    if set(ev.attrs) != {"pulse_parametrization", "use_lookup", "_cache"}:
        raise TranslateError("__init__ sets %s" % sorted(ev.attrs))
    if not (isinstance(ev.attrs["pulse_parametrization"], Obj) and ev.attrs["pulse_parametrization"].tag == "F"):
        raise TranslateError("pulse_parametrization is not pulse.get_parametrization()")
    if ev.attrs["use_lookup"] != ("boolvar", "use_lookup"):
        raise TranslateError("use_lookup is not pulse.use_lookup")
    if not (isinstance(ev.attrs["_cache"], Obj) and ev.attrs["_cache"].tag == "cache"):
        raise TranslateError("_cache is not a fresh dict()")

    ana, _ = ev.run_method(methods["_analytical_integration"])
    if ev.quad_calls or ev.requires or [e for e in ev.cache_events if e[0] != "return"]:
        raise TranslateError("_analytical_integration touches quad/asserts/cache")
    ev.cache_events = []
    num, nenv = ev.run_method(methods["_numerical_integration"])
    if len(ev.quad_calls) != 1 or num != ("quad",) + ev.quad_calls[0]:
        raise TranslateError("_numerical_integration does not return the value of exactly one quad call")
    if ev.requires or [e for e in ev.cache_events if e[0] != "return"]:
        raise TranslateError("_numerical_integration touches asserts/cache")
    # named local lambdas of _numerical_integration, each applied to a fresh variable named after its parameter
    locals_ = {}
    for nm, v in nenv.items():
        if isinstance(v, Closure):
            if len(v.params) != 1:
                raise TranslateError("local lambda %s does not take one argument" % nm)
            locals_[nm] = (v.params[0], v([("var", v.params[0])]))
    ev.cache_events, ev.quad_calls = [], []
    integ, _ = ev.run_method(methods["integrate"])
    # cache protocol on the cold path: lookup key = store key = (key, theta, a); stored value = returned value
    evs = ev.cache_events
    full = ("KEY", "theta", "a")
    looks = [e for e in evs if e[0] in ("lookup", "hit-return")]
    if [e[0] for e in looks] != ["lookup", "hit-return"] or any(e[1] != full for e in looks):
        raise TranslateError("cache lookup is not `if (key, theta, a) in cache: return cache[(key, theta, a)]`: %r" % (looks,))
    rest = [e for e in evs if e[0] in ("store", "return")]
    if not rest or len(rest) % 2:
        raise TranslateError("cold path does not store exactly once before each return")
    for st, rt in zip(rest[0::2], rest[1::2]):
        if st[0] != "store" or rt[0] != "return" or st[1] != full or st[2] != rt[1]:
            raise TranslateError("cold path must store the returned value under (key, theta, a): %r / %r" % (st[:2], rt[0]))
    if sorted(set(ev.called)) != ["_analytical_integration", "_numerical_integration"]:
        raise TranslateError("integrate does not dispatch to both internal methods: %s" % ev.called)
    reqs = []
    for r in ev.requires:
        if isinstance(r, Obj) and r.tag == "inkeys":
            if r.table != "INTEGRAL":
                raise TranslateError("key validated against the wrong table")
            reqs.append(("inkeys",))
        elif isinstance(r, tuple) and r[0] in CMP.values():
            reqs.append(r)
        else:
            raise TranslateError("unknown assertion in integrate")
    out.update(analytical=ana, numerical=num, numerical_locals=locals_, quad=ev_quad(num), integrate=integ, requires=reqs)
    out["coq"] = emit_coq(out)
    return out


def ev_quad(num):
    return {"var": num[1], "integrand": num[2], "lower": num[3], "upper": num[4]}


def emit_coq(tr):
    L = []
    w = L.append
    w("(* GENERATED on every run by checks/c12_translate.py from %s" % tr["path"])
    w("   sha256 %s.  DO NOT EDIT.  Vocabulary: QG.Model.Integrals (key, quad). *)" % tr["sha256"])
    w("From Coq Require Import Reals String.")
    w("Require Import QG.Model.Integrals.")
    w("Open Scope R_scope.\n")
    for tab in ("INTEGRAL", "RESULT"):
        w("(* %s *)" % {"INTEGRAL": "_INTEGRAL_LOOKUP: the integrand lambdas (theta, a)", "RESULT": "_RESULT_LOOKUP: the closed forms (theta, a)"}[tab])
        for k in tr["order"][tab]:
            w("Definition %s_%s (theta a : R) : R := %s." % (tab, KEYS[k], coq_of(tr["tables"][tab][k])))
        w("Definition %s (k : key) : R -> R -> R :=\n  match k with\n%s\n  end.\n" % (tab, "\n".join("  | %s => %s_%s" % (KEYS[k], tab, KEYS[k]) for k in tr["order"][tab])))
    w("(* the dictionary keys themselves, and each key read as an expression in theta, a *)")
    w("Definition GEN_key_string (k : key) : string :=\n  match k with\n%s\n  end%%string.\n" % "\n".join('  | %s => "%s"' % (KEYS[k], k) for k in tr["order"]["INTEGRAL"]))
    w("Definition KEYEXPR (k : key) (theta a : R) : R :=\n  match k with\n%s\n  end.\n" % "\n".join("  | %s => %s" % (KEYS[k], coq_of(tr["keyexpr"][k])) for k in tr["order"]["INTEGRAL"]))
    w("(* _analytical_integration(key, theta, a) *)")
    w("Definition analytical_integration (k : key) (theta a : R) : R :=\n  %s.\n" % coq_of(tr["analytical"]))
    w("Section Numerical.\n(* param = self.pulse_parametrization = pulse.get_parametrization() *)\nVariable F : R -> R.\n")
    for nm, (pv, body) in tr["numerical_locals"].items():
        w("(* local lambda `%s` of _numerical_integration *)" % nm)
        w("Definition %s (k : key) (theta a : R) (%s : R) : R := %s." % (nm, pv, coq_of(body)))
    q = tr["quad"]
    w("\n(* the call scipy.integrate.quad(f, lower, upper): f applied to %s, and the bounds *)" % q["var"])
    w("Definition quad_integrand (k : key) (theta a : R) (%s : R) : R := %s." % (q["var"], coq_of(q["integrand"])))
    w("Definition quad_lower (k : key) (theta a : R) : R := %s." % coq_of(q["lower"]))
    w("Definition quad_upper (k : key) (theta a : R) : R := %s." % coq_of(q["upper"]))
    w("\n(* _numerical_integration(key, theta, a) *)")
    w("Definition numerical_integration (k : key) (theta a : R) : R :=\n  %s.\n" % coq_of(tr["numerical"]))
    w("End Numerical.\n")
    w("(* integrate(key, theta, a) on a cache miss (the memoisation protocol itself is checked by the translator:")
    w("   lookup key = store key = (key, theta, a), stored value = returned value; cached = uncached is C10's theorem). *)")
    props = [coq_prop(r) for r in tr["requires"] if r[0] != "inkeys"]
    w("Definition integrate_requires (k : key) (theta a : R) : Prop := %s." % (" /\\ ".join(props) if props else "True"))
    body = coq_of(tr["integrate"]).replace("(analytical_integration KEY", "(analytical_integration k").replace("(numerical_integration KEY", "(numerical_integration F k")
    w("Definition integrate_cold (use_lookup : bool) (F : R -> R) (k : key) (theta a : R) : R :=\n  %s." % body)
    return "\n".join(L) + "\n"


def write_if_changed(path, text):
    os.makedirs(os.path.dirname(path), exist_ok=True)
    if os.path.exists(path) and open(path).read() == text:
        return False
    with open(path, "w") as fh:
        fh.write(text)
    return True


if __name__ == "__main__":
    import sys
    p = sys.argv[1] if len(sys.argv) > 1 else "/repo/src/quantum_gates/_gates/integrator.py"
    print(translate_integrator(p)["coq"])
