"""C11 — running is pure; objects are reusable.
Theorems: coq/Props/C11.v over Model/Builders.v (builder state machines of every circuit class, the in-place [q,-1]
normalisation, the shots loop's copying discipline).
Tie (M): random / exhaustive operation histories (build / evaluate / reset / rebuild) are executed on the real classes with a
recording deterministic gate set and symbolic phases; after every step the canonicalised vars(obj) is compared with the model
state (vm_compute inside Coq; per-step 61-bit polynomial digest of the full serialisation, the full serialisation at the end of
every history and for every evaluation's content).  Direct oracles (independent of the model): reset-vs-fresh structural
comparison of vars(), repeated evaluation bit-identical and equal to an independent tensordot reference, psi0 untouched,
evaluation-erased replay, simulator purity (inputs unchanged by run, repeated run identical, per-shot gate-set copies)."""
import sys, os, json, copy, itertools, pickle, math
import numpy as np
from vlib.common import Check, coq_list, VERIF

ERRCODE = {"IndexError": -1, "ValueError": -2, "AssertionError": -3, "TypeError": -4}
HP, HQ = 1000003, 2305843009213693951
KIND = {"K2": 2, "K4": 4}

PRELUDE = r"""
From Coq Require Import List Bool ZArith Arith.
Require Import QG.Base.Res QG.Model.Builders.
Import ListNotations.
Local Open Scope Z_scope.
Arguments OApply {M}. Arguments OApplyJ {M}. Arguments OI {M}. Arguments ORz {M}. Arguments OX {M}.
Arguments OCNOT {M}. Arguments OECR {M}. Arguments OEval {M}. Arguments OReset {M}.
Notation op := (op Z).
Definition hashZ (l : list Z) : Z := fold_left (fun h x => (h * 1000003 + x + 7) mod 2305843009213693951) l 0.
Definition errcode (e : err) : Z :=
  match e with IndexError => -1 | ValueError => -2 | AssertionError => -3 | TypeError => -4 | _ => -99 end.
Definition zn (n : nat) := Z.of_nat n.
Definition enc_entry (e : entry Z) : list Z := match e with EnOne => [0;0] | En2 t => [2;t] | En4 t => [4;t] end.
Definition enc_layer (l : list (entry Z)) := zn (length l) :: flat_map enc_entry l.
Definition enc_layers (ls : list (list (entry Z))) := zn (length ls) :: flat_map enc_layer ls.
Definition enc_phi (p : list (Z * Z)) := zn (length p) :: flat_map (fun x => [fst x; snd x]) p.
Definition enc_item (it : Z * list Z) := fst it :: zn (length (snd it)) :: snd it.
Definition enc_items (l : list (Z * list Z)) := zn (length l) :: flat_map enc_item l.
Definition bkc (b : backend_kind) : Z := match b with BkStandard => 0 | BkEfficient => 1 | BkOnes => 2 end.
Definition gobs (s : gstate Z) : list Z :=
  [zn (g_n _ s); zn (g_depth _ s); zn (g_j _ s); zn (g_s _ s); if g_arr _ s then 1 else 0] ++ enc_phi (g_phi _ s) ++ enc_layers (g_grid _ s).
Definition lobs (s : lstate Z) : list Z :=
  [zn (l_n _ s); bkc (l_bk _ s); zn (l_s _ s)] ++ enc_phi (l_phi _ s) ++ enc_layer (l_mp _ s) ++ enc_layers (l_mplist _ s).
Definition bobs (s : bstate Z) : list Z :=
  [zn (b_n _ s)] ++ (zn (length (b_layout _ s)) :: b_layout _ s) ++ enc_phi (b_phi _ s) ++ enc_items (b_items _ s).
Section T.
Variables (S C : Type) (step : S -> op -> res (S * option C)) (obs : S -> list Z).
Fixpoint trace (s : S) (h : list op) : list Z * S * list C :=
  match h with
  | [] => ([], s, [])
  | o :: r =>
      match step s o with
      | Err e => ([errcode e], s, [])
      | Ok (s', oc) => let '(cs, sf, outs) := trace s' r in
                       (hashZ (obs s') :: cs, sf, match oc with Some c => c :: outs | None => outs end)
      end
  end.
End T.
Fixpoint zl_eqb (a b : list Z) : bool :=
  match a, b with [], [] => true | x :: a', y :: b' => Z.eqb x y && zl_eqb a' b' | _, _ => false end.
Fixpoint zll_eqb (a b : list (list Z)) : bool :=
  match a, b with [], [] => true | x :: a', y :: b' => zl_eqb x y && zll_eqb a' b' | _, _ => false end.
(* result: 0 = agree; 1 = per-step codes differ; 2 = final state differs; 3 = evaluation contents differ *)
Definition verdict (codes : list Z) (final : list Z) (outs : list (list Z)) (ecodes efinal : list Z) (eouts : list (list Z)) : Z :=
  if negb (zl_eqb codes ecodes) then 1 else if negb (zl_eqb final efinal) then 2 else if negb (zll_eqb outs eouts) then 3 else 0.
Definition chk_g (n depth : nat) (h : list op) ecodes efinal eouts : Z :=
  let '(cs, sf, outs) := trace _ _ (gstep Z 0) gobs (g_init Z n depth) h in verdict cs (gobs sf) (map enc_layers outs) ecodes efinal eouts.
Definition chk_l (n : nat) (bk : backend_kind) (h : list op) ecodes efinal eouts : Z :=
  let '(cs, sf, outs) := trace _ _ (lstep Z 0) lobs (l_init Z n bk) h in verdict cs (lobs sf) (map enc_layers outs) ecodes efinal eouts.
Definition chk_b (n : nat) (lay : option (list Z)) (h : list op) ecodes efinal eouts : Z :=
  let '(cs, sf, outs) := trace _ _ (bstep Z 0) bobs (b_init Z n lay) h in verdict cs (bobs sf) (map enc_items outs) ecodes efinal eouts.
Fixpoint bad (i : nat) (cs : list Z) : list (nat * Z) :=
  match cs with [] => [] | c :: r => if Z.eqb c 0 then bad (S i) r else (i, c) :: bad (S i) r end.
"""


# ------------------------------------------------------------------------------------------------ symbolic phases
HALF_PI = np.pi / 2


def _quarters(x):
    b = round(float(x) / HALF_PI)
    if abs(float(x) - b * HALF_PI) > 1e-9:
        raise RuntimeError("phase increment %r is not a multiple of pi/2" % (x,))
    return b


class Ph(object):
    """symbolic phase a + b*(pi/2); absorbs the float constants the circuit code adds"""
    __slots__ = ("a", "b")

    def __init__(self, a, b=0):
        self.a, self.b = int(a), int(b)

    def _lift(self, o):
        if isinstance(o, Ph):
            return o
        if isinstance(o, (int, np.integer)) and not isinstance(o, bool):
            return Ph(int(o), 0)
        if isinstance(o, float):
            return Ph(0, _quarters(o))
        raise RuntimeError("unexpected phase operand %r" % (o,))

    def __add__(self, o):
        o = self._lift(o); return Ph(self.a + o.a, self.b + o.b)
    __radd__ = __add__

    def __sub__(self, o):
        o = self._lift(o); return Ph(self.a - o.a, self.b - o.b)

    def __rsub__(self, o):
        o = self._lift(o); return Ph(o.a - self.a, o.b - self.b)

    def __neg__(self):
        return Ph(-self.a, -self.b)

    def __eq__(self, o):
        return isinstance(o, Ph) and (self.a, self.b) == (o.a, o.b)

    def __hash__(self):
        return hash((self.a, self.b))

    def __repr__(self):
        return "Ph(%d,%d)" % (self.a, self.b)


def canon_phase(x):
    if isinstance(x, Ph):
        return (x.a, x.b)
    if isinstance(x, (int, np.integer)) and not isinstance(x, bool):
        return (int(x), 0)
    if isinstance(x, float):
        return (0, _quarters(x))
    raise RuntimeError("unexpected phase value %r" % (x,))


# ------------------------------------------------------------------------------------------------ token matrices
class Pool(object):
    """pairwise distinct Gaussian-integer matrices with entries in {0,+-1,+-i} and row abs-sum <= 2 (products of <= 26 of them
    stay far below 2^53, so complex128 arithmetic on them is exact in any order)"""

    def __init__(self, rng, size=64):
        units = [1, -1, 1j, -1j]
        self.m2, self.m4, self.rev = [None], [None], {}
        ident = np.array([[1, 0], [0, 1]])
        self.rev[self.key(ident)] = (2, 0)
        while len(self.m2) <= size:
            m = np.array([[rng.choice([0] + units), rng.choice(units)][::rng.choice([1, -1])] for _ in range(2)], dtype=complex)
            if self.key(m) not in self.rev:
                self.rev[self.key(m)] = (2, len(self.m2)); self.m2.append(m)
        while len(self.m4) <= size:
            m = np.zeros((4, 4), dtype=complex)
            for r in range(4):
                c1, c2 = rng.sample(range(4), 2)
                m[r, c1] = rng.choice(units); m[r, c2] = rng.choice([0] + units)
            if self.key(m) not in self.rev:
                self.rev[self.key(m)] = (4, len(self.m4)); self.m4.append(m)

    @staticmethod
    def key(m):
        a = np.asarray(m, dtype=complex)
        return (a.shape, a.tobytes())

    def entry(self, x):
        """canonical (kind, token) of a slot value: scalar placeholder 1 -> (0,0)"""
        if isinstance(x, (int, np.integer)) and not isinstance(x, bool) and int(x) == 1:
            return (0, 0)
        if isinstance(x, np.ndarray) and x.shape in ((2, 2), (4, 4)):
            k = self.rev.get(self.key(x))
            if k is not None:
                return k
        raise RuntimeError("unrecognised slot value %r" % (x,))

    def mat(self, kind, tok):
        return np.array([[1, 0], [0, 1]]) if (kind, tok) == (2, 0) else (self.m2 if kind == 2 else self.m4)[tok]


class RecGates(object):
    """deterministic recording gate set: every call returns the matrix of the current step's token"""

    def __init__(self, pool):
        self.pool, self.cur, self.log = pool, 0, []

    def _one(self, name):
        def f(*args):
            self.log.append((name, args)); return self.pool.m2[self.cur].copy()
        return f

    def _two(self, name):
        def f(*args):
            self.log.append((name, args)); return self.pool.m4[self.cur].copy()
        return f

    def __getattr__(self, name):
        if name in ("X", "SX", "bitflip", "relaxation", "depolarizing", "single_qubit_gate"):
            return self._one(name)
        if name in ("CNOT", "CNOT_inv", "ECR", "ECR_inv", "CR"):
            return self._two(name)
        raise AttributeError(name)


# ------------------------------------------------------------------------------------------------ classes under test
def load_classes():
    from quantum_gates._simulation import circuit as cm
    from quantum_gates._simulation import backend as bm
    bks = [bm.StandardBackend, bm.EfficientBackend, bm.BackendForOnes]
    return cm, bm, {
        "Circuit": ("g", lambda n, a, g: cm.Circuit(n, a, g)),
        "StandardCircuit": ("l", lambda n, a, g: cm.StandardCircuit(n, 7, g)),
        "EfficientCircuit": ("l", lambda n, a, g: cm.EfficientCircuit(n, 7, g)),
        "OneCircuit": ("l", lambda n, a, g: cm.OneCircuit(n, 7, g)),
        "AlternativeCircuit": ("l", lambda n, a, g: cm.AlternativeCircuit(n, g, bks[a])),
        "BinaryCircuit": ("b", lambda n, a, g: cm.BinaryCircuit(n, 7, g, qubit_layout=a)),
    }, bks


FIXED_BK = {"StandardCircuit": 0, "EfficientCircuit": 1, "OneCircuit": 2}
FIELDS = {"g": {"nqubit", "depth", "j", "s", "phi", "circuit", "gates"},
          "l": {"nqubit", "gates", "_backend", "_BackendClass", "phi", "_s", "_mp", "_mp_list"},
          "b": {"nqubit", "gates", "_backend", "_BackendClass", "qubit_layout", "phi", "_info_gates_list"}}


class FieldDrift(Exception):
    pass


def enc_phi(phi):
    out = [len(phi)]
    for p in phi:
        out.extend(canon_phase(p))
    return out


def enc_layer(pool, l):
    out = [len(l)]
    for x in l:
        out.extend(pool.entry(x))
    return out


def enc_layers(pool, ls):
    out = [len(ls)]
    for l in ls:
        out.extend(enc_layer(pool, l))
    return out


def grid_rows(c):
    """Circuit.circuit as rows of slot values, whether it is the nested list, the (n,depth) object array or the
    (n,depth,d,d) array numpy builds when every slot holds an equally shaped matrix"""
    if isinstance(c, list):
        return [list(r) for r in c], 0
    if isinstance(c, np.ndarray) and c.dtype == object:
        if c.ndim == 2:
            return [[c[i, j] for j in range(c.shape[1])] for i in range(c.shape[0])], 1
        if c.ndim == 4:
            return [[np.asarray(c[i, j]) for j in range(c.shape[1])] for i in range(c.shape[0])], 1
        if c.ndim == 1 and c.shape[0] == 0:
            return [], 1
    raise RuntimeError("unexpected circuit container %r" % (type(c),))


def enc_items(pool, items):
    out = [len(items)]
    for it in items:
        if not (isinstance(it, list) and len(it) == 2):
            raise RuntimeError("unexpected item %r" % (it,))
        g, qs = it
        k = pool.rev.get(pool.key(g)) if isinstance(g, np.ndarray) else None
        tok = k[1] if k is not None else (-3 if isinstance(g, np.ndarray) else -4)
        if k is not None and k[0] == 4:
            tok = 1000 + tok        # 4x4 tokens are numbered 1000+t in items (the model's M is one token space)
        out.extend([tok, len(qs)] + [int(q) for q in qs])
    return out


def observe(kind, obj, pool, cls, bks):
    v = vars(obj)
    if set(v) != FIELDS[kind]:
        raise FieldDrift("%s has fields %s, the model knows %s" % (cls, sorted(v), sorted(FIELDS[kind])))
    if kind == "g":
        rows, arr = grid_rows(v["circuit"])
        return [v["nqubit"], v["depth"], v["j"], v["s"], arr] + enc_phi(v["phi"]) + enc_layers(pool, rows)
    if kind == "l":
        bk = bks.index(v["_BackendClass"])
        if type(v["_backend"]) is not v["_BackendClass"] or v["_backend"].nqubit != v["nqubit"]:
            raise RuntimeError("_backend is not a _BackendClass(nqubit) object")
        return [v["nqubit"], bk, v["_s"]] + enc_phi(v["phi"]) + enc_layer(pool, v["_mp"]) + enc_layers(pool, v["_mp_list"])
    lay = [int(q) for q in v["qubit_layout"]]
    if type(v["_backend"]) is not v["_BackendClass"] or v["_backend"].nqubit != v["nqubit"]:
        raise RuntimeError("_backend is not a _BackendClass(nqubit) object")
    return [v["nqubit"], len(lay)] + lay + enc_phi(v["phi"]) + enc_items(pool, v["_info_gates_list"])


def hashz(l):
    h = 0
    for x in l:
        h = (h * HP + x + 7) % HQ
    return h


# ------------------------------------------------------------------------------------------------ generic deep canonicaliser (oracle side)
def canon(x, gates=None):
    if x is gates and gates is not None:
        return ("<the gate set>",)
    if isinstance(x, np.ndarray):
        return ("nd", x.dtype.str, x.shape, tuple(canon(y, gates) for y in x.ravel().tolist()) if x.dtype == object else x.tobytes().hex())
    if isinstance(x, (list, tuple)):
        return (type(x).__name__,) + tuple(canon(y, gates) for y in x)
    if isinstance(x, dict):
        return ("dict",) + tuple((repr(k), canon(v, gates)) for k, v in sorted(x.items(), key=lambda kv: repr(kv[0])))
    if isinstance(x, Ph):
        return ("Ph", x.a, x.b)
    if isinstance(x, type):
        return ("class", x.__module__, x.__name__)
    if isinstance(x, (bool, int, float, complex, str, type(None), np.generic)):
        return (type(x).__name__, repr(x))
    if hasattr(x, "__dict__"):
        return ("obj", type(x).__module__, type(x).__name__, canon(vars(x), gates))
    return ("?", type(x).__name__, repr(x))


# ------------------------------------------------------------------------------------------------ independent reference semantics of a content
def wf_layers(n, layers):
    for l in layers:
        if len(l) != n:
            return False
        q = 0
        while q < n:
            k = l[q][0]
            if k == 2:
                q += 1
            elif q + 1 < n and ((k == 4 and l[q + 1][0] == 0) or (k == 0 and l[q + 1][0] == 4)):
                q += 2
            else:
                return False
    return True


def ref_apply(psi, n, mat, qs):
    t = psi.reshape((2,) * n)
    m = np.asarray(mat, dtype=complex).reshape((2,) * (2 * len(qs)))
    t = np.tensordot(m, t, axes=(list(range(len(qs), 2 * len(qs))), list(qs)))
    t = np.moveaxis(t, list(range(len(qs))), list(qs))
    return t.reshape(-1)


def ref_layers(pool, n, layers, psi0):
    psi = np.asarray(psi0, dtype=complex).copy()
    for l in layers:
        q = 0
        while q < n:
            k, t = l[q]
            if k == 2:
                psi = ref_apply(psi, n, pool.mat(2, t), [q]); q += 1
            else:
                kk, tt = l[q] if k == 4 else l[q + 1]
                psi = ref_apply(psi, n, pool.mat(4, tt), [q, q + 1]); q += 2
    return psi


def wf_items(n, items):
    for tok, qs in items:
        if tok < 0 or any(not (0 <= q < n) for q in qs):
            return False
        if tok >= 1000:
            if len(qs) != 2 or qs[0] == qs[1]:
                return False
        elif len(qs) != 1:
            return False
    return True


def ref_items(pool, n, items, psi0):
    psi = np.asarray(psi0, dtype=complex).copy()
    for tok, qs in items:
        psi = ref_apply(psi, n, pool.mat(4, tok - 1000) if tok >= 1000 else pool.mat(2, tok), list(qs))
    return psi


def dec_layers(enc):
    n, i, out = enc[0], 1, []
    for _ in range(n):
        m = enc[i]; i += 1
        out.append([(enc[i + 2 * j], enc[i + 2 * j + 1]) for j in range(m)]); i += 2 * m
    return out


def dec_items(enc):
    n, i, out = enc[0], 1, []
    for _ in range(n):
        tok, m = enc[i], enc[i + 1]
        out.append((tok, enc[i + 2:i + 2 + m])); i += 2 + m
    return out


# ------------------------------------------------------------------------------------------------ executing a history on the real class
OTHER = np.zeros((3, 3))


def raw_gate(pool, kind, tok):
    if kind == "K2":
        return pool.m2[tok].copy()
    if kind == "K4":
        return pool.m4[tok].copy()
    if kind == "KOther":
        return OTHER.copy()
    return [[1, 0], [0, 1]]


def call_op(obj, op, G, pool, psi0):
    name = op[0]
    if name == "apply":
        return obj.apply(raw_gate(pool, op[1], G.cur), op[2])
    if name == "applyj":
        return obj.apply(raw_gate(pool, op[1], G.cur), op[2], op[3])
    if name == "I":
        return obj.I(op[1])
    if name == "Rz":
        return obj.Rz(op[1], Ph(op[2], 0))
    if name in ("X", "SX"):
        return getattr(obj, name)(op[1], 11, 12, 13)
    if name == "bitflip":
        return obj.bitflip(op[1], 21, 22)
    if name == "relaxation":
        return obj.relaxation(op[1], 31, 32, 33)
    if name == "depolarizing":
        return obj.depolarizing(op[1], 41, 42)
    if name in ("CNOT", "ECR"):
        return getattr(obj, name)(op[1], op[2], 51, 52, 53, 54, 55, 56, 57, 58)
    if name == "eval":
        return obj.statevector(psi0)
    if name == "reset":
        return obj.reset()
    raise RuntimeError(name)


def coq_op(op, tok, kind):
    z = lambda x: "(%d)" % x
    name = op[0]
    t4 = z(1000 + tok) if kind == "b" else z(tok)   # one token space in items: 4x4 tokens are 1000+t
    tk = {"K2": z(tok), "K4": t4, "KOther": z(-3), "KNotArray": z(-4)}
    if name == "apply":
        return "OApply %s %s %s" % (op[1], tk[op[1]], z(op[2]))
    if name == "applyj":
        return "OApplyJ %s %s %s %s" % (op[1], tk[op[1]], z(op[2]), z(op[3]))
    if name == "I":
        return "OI %s" % z(op[1])
    if name == "Rz":
        return "ORz %s (%d,0)" % (z(op[1]), op[2])
    if name in ("X", "SX"):
        return "OX %s %s" % (z(tok), z(op[1]))
    if name in ("bitflip", "relaxation", "depolarizing"):
        return "OApply K2 %s %s" % (z(tok), z(op[1]))
    if name in ("CNOT", "ECR"):
        return "O%s %s %s %s" % (name, t4, z(op[1]), z(op[2]))
    return "OEval" if name == "eval" else "OReset"


class Case(object):
    __slots__ = ("fam", "cls", "n", "aux", "ops", "codes", "final", "outs", "notes", "oracle_fail", "indomain")


def run_history(ck, classes, bks, pool, fam, cls, n, aux, ops, psi0, oracle=True):
    """execute ops on a fresh real object; returns a Case with the expected model trace and the oracle verdicts"""
    kind, ctor = classes[cls]
    G = RecGates(pool)
    case = Case(); case.fam, case.cls, case.n, case.aux, case.ops = fam, cls, n, aux, ops
    case.codes, case.outs, case.notes, case.oracle_fail, case.indomain = [], [], [], None, True
    obj = ctor(n, aux, G)
    cur = observe(kind, obj, pool, cls, bks)
    psi_bytes = psi0.tobytes()
    last_out = None
    done = []
    for idx, op in enumerate(ops):
        G.cur = idx + 1
        try:
            out = call_op(obj, op, G, pool, psi0)
            err = None
        except FieldDrift:
            raise
        except Exception as e:  # noqa
            out, err = None, type(e).__name__
        if op[0] == "eval":
            post = observe(kind, obj, pool, cls, bks)
            enc = (post[5 + 1 + 2 * n:] if kind == "g" else None)
            if kind == "g":
                rows = dec_layers(enc)
                content = [[rows[r][c] for r in range(len(rows))] for c in range(post[1])]
                cenc = [len(content)] + [x for col in content for x in ([len(col)] + [y for e in col for y in e])]
                wf = post[0] >= 1 and post[1] >= 1 and wf_layers(n, content) and all(any(e[0] != 0 for e in col) for col in content)
                model_err = (post[0] == 0 or post[1] == 0)
            elif kind == "l":
                off = 3 + 1 + 2 * n + 1 + 2 * n
                cenc = post[off:]; content = dec_layers(cenc); wf = wf_layers(n, content); model_err = False
            else:
                off = 2 + post[1] + 1 + 2 * n
                cenc = post[off:]; content = dec_items(cenc); wf = wf_items(n, content); model_err = False
            if psi0.tobytes() != psi_bytes and case.oracle_fail is None:
                case.oracle_fail = ("psi0-mutated", idx, "statevector modified the caller's psi0 in place")
            if err is not None and model_err:
                case.codes.append(ERRCODE.get(err, -99)); break
            if err is not None:
                if wf and case.oracle_fail is None:
                    case.oracle_fail = ("eval-raised", idx, "statevector raised %s on a well-formed content" % err)
                case.indomain = case.indomain and wf
                case.notes.append("step %d: statevector raised %s on an ill-formed content (outside the property's domain)" % (idx, err))
            elif oracle and wf:
                ck.count("oracle_eval_vs_reference[%s]" % cls, 1)
                ref = ref_layers(pool, n, content, psi0) if kind != "b" else ref_items(pool, n, content, psi0)
                got = np.asarray(out, dtype=complex).reshape(-1)
                if got.shape != ref.shape or got.tobytes() != ref.tobytes():
                    if not np.array_equal(got, ref) and case.oracle_fail is None:
                        case.oracle_fail = ("eval-value", idx, "statevector differs from the reference evaluation of the built content")
                if last_out is not None and last_out[0] == idx - 1 and last_out[1] != got.tobytes() and case.oracle_fail is None:
                    case.oracle_fail = ("eval-repeat", idx, "two consecutive statevector calls returned different vectors")
                last_out = (idx, got.tobytes())
            case.codes.append(hashz(post)); case.outs.append(cenc); cur = post; done.append(op)
            continue
        if err is not None:
            case.codes.append(ERRCODE.get(err, -99)); break
        cur = observe(kind, obj, pool, cls, bks)
        case.codes.append(hashz(cur)); done.append(op)
        if op[0] == "reset" and oracle:
            fresh = ctor(n, aux, G)
            if canon(vars(obj), G) != canon(vars(fresh), G) and case.oracle_fail is None:
                case.oracle_fail = ("reset-fresh", idx, "vars() of the reset object differ from vars() of a newly constructed one")
    case.final = cur
    if oracle and case.oracle_fail is None and len(case.codes) == len(ops) and all(c >= 0 for c in case.codes):
        # reset at the end of every history: must equal a fresh object, structurally
        o2 = obj
        o2.reset()
        fresh = ctor(n, aux, G)
        a, b = canon(vars(o2), G), canon(vars(fresh), G)
        if a != b:
            bad = [k for k in vars(fresh) if canon(vars(o2).get(k), G) != canon(vars(fresh)[k], G)]
            case.oracle_fail = ("reset-fresh", len(ops), "after reset() fields %s differ from a newly constructed object" % bad)
    return case, obj, G


def erased_replay_oracle(classes, bks, pool, cls, n, aux, ops, psi0, final_obj_obs):
    """classes without a fixed depth: the same history with every evaluation erased (same matrices) followed by one evaluation
    must give the same vector as evaluating the original object once more"""
    kind, ctor = classes[cls]
    G1, G2 = RecGates(pool), RecGates(pool)
    a, b = ctor(n, aux, G1), ctor(n, aux, G2)
    try:
        for idx, op in enumerate(ops):
            G1.cur = G2.cur = idx + 1
            call_op(a, op, G1, pool, psi0)
            if op[0] != "eval":
                call_op(b, op, G2, pool, psi0)
        ra = np.asarray(a.statevector(psi0), dtype=complex); rb = np.asarray(b.statevector(psi0), dtype=complex)
    except Exception:  # noqa
        return None
    if ra.tobytes() != rb.tobytes() and not np.array_equal(ra, rb):
        return "the history with its evaluations erased evaluates to a different vector"
    return None


# ------------------------------------------------------------------------------------------------ generators
def sim_layer(kind, n, rng, what):
    """one 'moment' issued the way the simulator issues it"""
    if kind == "b":
        if what == "two" and n >= 2:
            i = rng.randrange(n); k = rng.choice([q for q in range(n) if q != i])
            return [(rng.choice(["CNOT", "ECR"]), i, k)]
        return [(rng.choice(["X", "SX", "bitflip", "relaxation", "depolarizing"]), rng.randrange(n))]
    if what == "two" and n >= 2:
        i = rng.randrange(n - 1); c, t = rng.choice([(i, i + 1), (i + 1, i)])
        g = rng.choice(["CNOT", "ECR"])
        return [((g, c, t) if q == c else ("I", q)) for q in range(n) if q != t]
    q0 = rng.randrange(n); g = rng.choice(["X", "SX", "bitflip", "relaxation", "depolarizing"])
    return [((g, q) if q == q0 else ("I", q)) for q in range(n)]


def gen_structured(rng, kind, n, maxlen):
    ops = []
    while len(ops) < maxlen:
        r = rng.random()
        if r < 0.55:
            ops += sim_layer(kind, n, rng, "two" if rng.random() < 0.45 else "one")
        elif r < 0.70:
            ops.append(("Rz", rng.randrange(n), rng.randint(-3, 3)))
        elif r < 0.90:
            ops.append(("eval",))
            if rng.random() < 0.5:
                ops.append(("eval",))
        else:
            ops.append(("reset",))
    return ops[:maxlen]


def gen_raw(rng, kind, n, maxlen, wild):
    ops = []
    lo, hi = (-n - 1, n + 1) if wild else (0, n - 1)
    ix = lambda: rng.randint(lo, hi) if (wild and rng.random() < 0.15) else rng.randrange(max(n, 1))
    for _ in range(rng.randint(1, maxlen)):
        r = rng.random()
        if r < 0.30:
            ops.append((rng.choice(["X", "SX", "bitflip", "relaxation", "depolarizing", "I", "I"]), ix()))
        elif r < 0.50:
            i = ix(); k = ix() if rng.random() < 0.3 else i + rng.choice([1, -1])
            ops.append((rng.choice(["CNOT", "ECR"]), i, k))
        elif r < 0.60:
            ops.append(("Rz", ix(), rng.randint(-3, 3)))
        elif r < 0.70:
            kd = rng.choice(["K2", "K2", "K2", "K4", "KOther", "KNotArray"]) if wild else "K2"
            if kind == "b" or (wild and rng.random() < 0.1):
                ops.append(("applyj", kd if kind == "b" else "K2", ix(), rng.choice([-1, ix()])))
            else:
                ops.append(("apply", kd, ix()))
        elif r < 0.88:
            ops.append(("eval",))
        else:
            ops.append(("reset",))
    return ops


def small_alphabet(kind, n):
    a = [("I", 0), ("I", 1), ("X", 0), ("bitflip", 1), ("CNOT", 0, 1), ("CNOT", 1, 0), ("ECR", 1, 0), ("Rz", 0, 1), ("eval",), ("reset",)]
    return a


def mkpsi(rng, n):
    return np.array([complex(rng.randint(-2, 2), rng.randint(-2, 2)) for _ in range(2 ** n)], dtype=complex)


def aux_for(rng, cls, kind, n, ops, wild=False):
    if kind == "g":
        layers = 1 + sum(1 for o in ops if o[0] not in ("Rz", "eval", "reset")) // max(n, 1)
        return rng.choice([layers, layers, max(1, layers - 1), layers + 1, 1, 2]) if not wild else rng.choice([0, 1, 2, layers])
    if kind == "l":
        return FIXED_BK.get(cls, rng.randrange(3))
    return rng.choice([None, None, list(range(n)), []]) if n else None


def coq_aux(kind, aux):
    if kind == "g":
        return "%d%%nat" % aux
    if kind == "l":
        return ["BkStandard", "BkEfficient", "BkOnes"][aux]
    return "None" if aux is None else "(Some %s)" % coq_list(["(%d)" % q for q in aux])


def case_to_coq(case, kind):
    ops = coq_list([coq_op(op, i + 1, kind) for i, op in enumerate(case.ops[:len(case.codes)])])
    zl = lambda l: coq_list(["(%d)" % x for x in l])
    return "chk_%s %d%%nat %s %s %s %s %s" % (kind, case.n, coq_aux(kind, case.aux), ops, zl(case.codes), zl(case.final),
                                               coq_list([zl(o) for o in case.outs]))


# ------------------------------------------------------------------------------------------------ simulator purity (runtime only)
class CountingGates(object):
    """deterministic but STATEFUL gate set (a call counter selects the matrix): repeatable runs need the per-shot copy"""
    LOG = []

    def __init__(self, pool):
        self.pool, self.count = pool, 0

    UNITS = [1, -1, 1j, -1j]
    PERMS = list(itertools.permutations(range(4)))

    def _mat(self, c, two):
        """exactly unitary (phased permutation) matrix selected by the call counter"""
        d = 4 if two else 2
        perm = self.PERMS[c % 24] if two else ([0, 1] if c % 2 == 0 else [1, 0])
        m = np.zeros((d, d), dtype=complex)
        for r in range(d):
            m[r, perm[r]] = self.UNITS[(c // (r + 1)) % 4]
        return m

    def _mk(self, name, two):
        def f(*args):
            self.count += 1
            CountingGates.LOG.append((name, self.count))
            return self._mat(self.count, two)
        return f

    def __getattr__(self, name):
        if name in ("X", "SX", "bitflip", "relaxation", "depolarizing"):
            return self._mk(name, False)
        if name in ("CNOT", "CNOT_inv", "ECR", "ECR_inv"):
            return self._mk(name, True)
        raise AttributeError(name)

    def __deepcopy__(self, memo):
        c = CountingGates(self.pool); c.count = self.count; return c


def qc_canon(qc):
    return [(x.operation.name, tuple(float(p) for p in x.operation.params), tuple(q._index for q in x.qubits),
             tuple(c._index for c in x.clbits), getattr(x.operation, "duration", None), getattr(x.operation, "unit", None)) for x in qc.data] + [("nq", qc.num_qubits, qc.num_clbits)]


def purity_family(ck, classes, pool, mode="check"):
    """returns list of (key, what, replay) failures"""
    from qiskit import QuantumCircuit
    from quantum_gates._simulation.simulator import MrAndersonSimulator
    from quantum_gates._simulation import circuit as cm
    from quantum_gates._gates.gates import noise_free_gates, NoiseFreeGates
    fails = []
    rng = ck.rng
    reps = 4 if ck.tier == "quick" else 20
    for rep in range(reps):
        for cname in ("Circuit", "StandardCircuit", "EfficientCircuit", "OneCircuit", "BinaryCircuit"):
            n = rng.choice([2, 3])
            qc = QuantumCircuit(n, n, name="circ")
            prog = []
            for _ in range(rng.randint(3, 7)):
                r = rng.random()
                if r < 0.3:
                    q = rng.randrange(n); th = rng.choice([0.5, -1.25, 2.0]); qc.rz(th, q); prog.append(["rz", th, q])
                elif r < 0.55:
                    q = rng.randrange(n); (qc.sx if rng.random() < 0.5 else qc.x)(q); prog.append(["sx/x", q])
                else:
                    i = rng.randrange(n - 1); c, t = rng.choice([(i, i + 1), (i + 1, i)])
                    (qc.cx if rng.random() < 0.5 else qc.ecr)(c, t); prog.append(["2q", c, t])
            if rng.random() < 0.5:    # a delay given in an SI unit, and one in dt: run() must leave the circuit object exactly as it was
                qc.delay(20, rng.randrange(n), unit=rng.choice(["us", "ns", "dt"])); prog.append(["delay"])
            for q in range(n):
                qc.sx(q)          # every qubit is used, so the layered classes accept the circuit
            for q in range(n):
                qc.measure(q, q)
            # any parameter table a run accepts: T2 below, at and ABOVE 2*T1 (calibration data does report T2 > 2*T1), zeros ("off"),
            # numpy arrays or plain lists; both gate sets of this family are deterministic and ignore the values
            T1v = np.arange(1, n + 1) * 1e-4
            T2v = T1v * np.array([rng.choice([0.5, 2.0, 2.3, 3.0, 0.0]) for _ in range(n)])
            dev = {"T1": T1v, "T2": T2v, "p": np.arange(1, n + 1) * 1e-3,
                   "rout": np.arange(1, n + 1) * 1e-2, "p_int": np.full((n, n), 1e-2), "t_int": np.full((n, n), 3e-7),
                   "tm": np.arange(1, n + 1) * 1e-6, "dt": np.array([2.2e-10])}
            if rng.random() < 0.3:
                dev = {k: v.tolist() for k, v in dev.items()}
            psi0 = np.zeros(2 ** n, dtype=complex); psi0[rng.randrange(2 ** n)] = 1
            layout = list(range(n))
            for gname, gates in (("counting", CountingGates(pool)), ("noise_free", NoiseFreeGates())):
                sim = MrAndersonSimulator(gates=gates, CircuitClass=getattr(cm, cname), parallel=False)
                snap = lambda: (qc_canon(qc), canon(dev), psi0.tobytes(), psi0.dtype.str, list(layout), canon(vars(gates)) if gname == "noise_free" else gates.count,
                                canon({k: v for k, v in vars(sim).items() if k != "gates"}), sim.gates is gates)
                before = snap()
                replay = {"family": "purity", "class": cname, "gates": gname, "n": n, "prog": prog, "psi0_index": int(np.argmax(np.abs(psi0)))}
                CountingGates.LOG = []
                try:
                    shots = rng.choice([1, 2, 3])
                    r1 = sim.run(t_qiskit_circ=qc, qubits_layout=layout, psi0=psi0, shots=shots, device_param=dev, nqubit=n)
                    log1 = CountingGates.LOG; CountingGates.LOG = []
                    mid = snap()
                    r2 = sim.run(t_qiskit_circ=qc, qubits_layout=layout, psi0=psi0, shots=shots, device_param=dev, nqubit=n)
                    log2 = CountingGates.LOG
                except Exception as e:  # noqa
                    ck.notes.append("purity family: run raised %s for %s/%s (%s)" % (type(e).__name__, cname, gname, str(e)[:60]))
                    continue
                after = snap()
                ck.count("simulator_purity", 1, key=(cname, gname, n, tuple(map(tuple, prog))), sample=replay)
                what = None
                if before != mid or before != after:
                    names = ["circuit", "device_param", "psi0 bytes", "psi0 dtype", "qubits_layout", "gate set state", "simulator fields", "gate set identity"]
                    what = "run() modified its inputs: " + ", ".join(nm for nm, x, y in zip(names, before, after) if x != y)
                elif list(r1.items()) != list(r2.items()) or [float(v).hex() for v in r1.values()] != [float(v).hex() for v in r2.values()]:
                    what = "two consecutive run() calls with a deterministic gate set returned different dictionaries"
                elif gname == "counting":
                    per = len(log1) // shots if shots else 0
                    chunks = [log1[i * per:(i + 1) * per] for i in range(shots)]
                    if log1 != log2 or any(c != chunks[0] for c in chunks):
                        what = "shots did not each start from a copy of the simulator's gate set (call counters differ between shots/runs)"
                if what:
                    fails.append(("purity", what + " [%s, %s]" % (cname, gname), replay))
    return fails


# ------------------------------------------------------------------------------------------------ main
def main(argv):
    ck = Check("C11", argv)
    ck.rule = ("a case is one operation history (class, ctor args, <= 25 public-method calls: single-/two-qubit gates, I, Rz, raw apply, "
               "statevector, reset) executed on the real class with a recording gate set and compared step by step with the Gallina state "
               "machine; non-trivial = contains at least one evaluation or reset after at least one gate; distinct = distinct (class, ctor "
               "args, op sequence)")
    ck.trusted = ["Coq 8.16.1 kernel + vm_compute", "checks/c11.py harness: canonicalisation of vars(obj) (token lookup by matrix bytes, symbolic "
                  "phase class Ph), digest comparison of intermediate states (61-bit polynomial hash; final states and evaluation contents in full)",
                  "Model/Builders.v is hand-written: tied to circuit.py / circ_optimizer.py:70-74 / simulator.py:263-316 by correspondence only",
                  "Python aliasing and copy.deepcopy isolation are not expressible in the model: covered by the runtime purity family only"]
    ck.assume = ["gate-set calls return fresh numpy arrays of the documented shape (2x2 / 4x4)", "qubit indices are Python ints"]
    cm, bm, classes, bks = load_classes()
    pool = Pool(__import__("random").Random(ck.seed ^ 0xC11), 64)

    if ck.replay:
        doc = json.load(open(ck.replay))["replay"]
        if doc.get("family") == "purity" or "ops" not in doc:
            print("replay (purity/proof family): re-running the purity family"); fails = purity_family(ck, classes, pool)
            print("failures:", [f[1] for f in fails][:5]); __import__("shutil").rmtree(ck.scratch, ignore_errors=True); return 0
        ops = [tuple(o) for o in doc["ops"]]
        psi0 = np.array([complex(a, b) for a, b in doc["psi0"]], dtype=complex)
        case, obj, G = run_history(ck, classes, bks, pool, "replay", doc["class"], doc["n"], doc["aux"], ops, psi0)
        print("replay:", doc["class"], "n=%d" % doc["n"], "aux=%r" % (doc["aux"],), ops)
        print(" codes:", case.codes, "\n oracle:", case.oracle_fail, "\n notes:", case.notes[:3])
        if classes[doc["class"]][0] != "g":
            print(" erased-replay oracle:", erased_replay_oracle(classes, bks, pool, doc["class"], doc["n"], doc["aux"], ops, psi0, None))
        __import__("shutil").rmtree(ck.scratch, ignore_errors=True); return 0

    bad = ck.hygiene()
    if bad:
        ck.report("hygiene", "forbidden construct in the Coq development: " + "; ".join(bad[:5]), {"theorem": "hygiene", "where": bad}, False)
    proofs_ok, failing, out = ck.coq_props()

    rng = ck.rng
    cases = []
    oracle_fail = None
    drift = None
    quick = ck.tier == "quick"

    def add(fam, cls, n, aux, ops, psi0, erase=False):
        nonlocal oracle_fail, drift
        try:
            case, obj, G = run_history(ck, classes, bks, pool, fam, cls, n, aux, ops, psi0)
        except FieldDrift as e:
            drift = drift or str(e); return
        except RuntimeError as e:
            drift = drift or ("harness could not canonicalise the object state: %s" % e); return
        cases.append(case)
        used = case.ops[:len(case.codes)]
        nontriv = any(o[0] in ("eval", "reset") for o in used[1:])
        ck.count(fam, 1, key=(cls, n, repr(aux), tuple(used)) if nontriv else None,
                 sample={"class": cls, "n": n, "aux": aux, "ops": [list(o) for o in used[:8]], "codes": case.codes[:8]})
        if case.oracle_fail and oracle_fail is None and fam != "malformed":
            oracle_fail = (case, psi0)
        if erase and classes[cls][0] != "g" and case.oracle_fail is None and all(c >= 0 for c in case.codes) and case.indomain:
            why = erased_replay_oracle(classes, bks, pool, cls, n, aux, ops, psi0, None)
            ck.count("oracle_eval_then_extend", 1)
            if why and oracle_fail is None:
                case.oracle_fail = ("extend", len(ops), why); oracle_fail = (case, psi0)

    # exhaustive small scope: every history over a 10-letter alphabet, n = 2, length <= L
    L = 3 if quick else 4
    for cls in classes:
        kind = classes[cls][0]
        alpha = small_alphabet(kind, 2)
        psi0 = mkpsi(rng, 2)
        for ln in range(1, L + 1):
            if not quick and ln == 4 and cls in ("OneCircuit", "AlternativeCircuit", "EfficientCircuit"):
                continue
            for h in itertools.product(alpha, repeat=ln):
                aux = {"g": 2, "l": FIXED_BK.get(cls, 1), "b": None}[kind]
                add("exhaustive_n2_len<=%d" % L, cls, 2, aux, list(h), psi0)
    # structured (simulator-like layers) and raw random histories
    nstruct, nraw, nmal = (60, 50, 25) if quick else (500, 400, 150)
    for cls in classes:
        kind = classes[cls][0]
        for _ in range(nstruct):
            n = rng.choice([1, 2, 3, 4]); ops = gen_structured(rng, kind, n, rng.randint(4, 25))
            add("structured_random", cls, n, aux_for(rng, cls, kind, n, ops), ops, mkpsi(rng, n), erase=True)
        for _ in range(nraw):
            n = rng.choice([1, 2, 3, 4]); ops = gen_raw(rng, kind, n, 25, wild=False)
            add("raw_random", cls, n, aux_for(rng, cls, kind, n, ops), ops, mkpsi(rng, n), erase=True)
        for _ in range(nmal):
            n = rng.choice([0, 1, 2, 3, 4]); ops = gen_raw(rng, kind, n, 12, wild=True)
            add("malformed", cls, n, aux_for(rng, cls, kind, n, ops, wild=True), ops, mkpsi(rng, n))

    # ---- simulator purity (runtime only: aliasing / deepcopy are outside the model)
    try:
        pf = purity_family(ck, classes, pool)
    except Exception as e:  # noqa
        pf = [("purity-harness", "purity family could not run: %s %s" % (type(e).__name__, str(e)[:200]), {"family": "purity"})]
    ck.oblige("oracle: run() leaves circuit, device tables, psi0, gate set untouched; repeated run identical; per-shot gate-set copies", not pf)

    # ---- model side, inside Coq
    shards, per = [], 300
    for s in range(0, len(cases), per):
        items = [case_to_coq(c, classes[c.cls][0]) for c in cases[s:s + per]]
        body = PRELUDE + "Definition cases : list Z :=\n " + coq_list(items) + ".\nDefinition result := bad 0 cases.\nEval vm_compute in result.\n"
        shards.append(("c11_%d" % (s // per), body))
    mismatches = []
    import re
    for (name, rc, out2), s in zip(ck.coq_eval_many(shards), range(0, len(cases), per)):
        if rc != 0:
            mismatches.append(("coq-failed", name, out2[-600:])); continue
        txt = out2[out2.index("="):out2.rindex(":")] if "=" in out2 else ""
        for m in re.finditer(r"\((\d+)%nat,\s*(-?\d+)\)", txt.replace("\n", " ")):
            i, code = int(m.group(1)), int(m.group(2))
            c = cases[s + i]
            if c.fam == "malformed":
                ck.notes.append("model and implementation differ on an out-of-domain history (%s n=%d %s) — informational" % (c.cls, c.n, c.ops[:4]))
            else:
                mismatches.append(("mismatch", s + i, code))
    ck.oblige("correspondence model=implementation on %d histories (6 classes)" % len(cases), not mismatches and not drift)
    ck.oblige("oracle: reset==fresh, evaluation repeatable/equal to reference/psi0 untouched, evaluation-erased replay", oracle_fail is None)
    ck.exhaustive = False
    ck.extra["exhaustive_part"] = "all histories of length <= %d over a 10-letter alphabet at n=2, every class" % L
    ck.notes = ck.notes[:12]

    # ---- reporting
    def replay_of(case, psi0):
        return {"class": case.cls, "n": case.n, "aux": case.aux, "ops": [list(o) for o in case.ops],
                "psi0": [[int(z.real), int(z.imag)] for z in psi0], "family": case.fam}
    if oracle_fail:
        case, psi0 = oracle_fail
        kind_, idx, why = case.oracle_fail
        ck.report("oracle:" + kind_, "%s (%s, n=%d, step %d of %s)" % (why, case.cls, case.n, idx, [list(o) for o in case.ops][:10]), replay_of(case, psi0))
    for key, what, rp in pf[:1]:
        ck.report("oracle:" + key, what, rp)
    found = bool(oracle_fail or pf)
    if drift:
        ck.report("corr-fields", drift, {"correspondence": "C11 builder fields", "detail": drift}, False)
    if not proofs_ok and not found:
        ck.report("proof:" + str(failing), "proof obligation no longer checks: %s" % failing, {"theorem": failing, "log": out[-1500:]}, False)
    if mismatches and not found:
        kind_, where, info = mismatches[0]
        if kind_ == "mismatch":
            c = cases[where]
            what = {1: "per-step state digests / error kinds", 2: "final state", 3: "evaluation contents"}.get(info, "?")
            ck.report("corr", "model and implementation disagree (%s) on %s n=%d aux=%r ops=%s; the direct oracles pass on every explored history"
                      % (what, c.cls, c.n, c.aux, [list(o) for o in c.ops][:12]),
                      {"correspondence": "C11 builders", "class": c.cls, "n": c.n, "aux": c.aux, "ops": [list(o) for o in c.ops],
                       "psi0": [[1, 0]] + [[0, 0]] * (2 ** c.n - 1), "family": c.fam}, False)
        else:
            ck.report("corr-build", "correspondence file failed to compile: %s" % info, {"correspondence": where, "log": info}, False)
    return ck.finish()


if __name__ == "__main__":
    sys.exit(main(sys.argv[1:]))
